//! E3 -- type-level witnesses (compile_fail with an error code + a compiling twin that differs only by the
//! offending line).  Only compilation is involved: twins are `no_run`.  Run with
//! `cargo +nightly test --doc --offline` (the error code is honoured on nightly only).

/// W1 (C03 R3.7): a collection of `!Send` children is `!Send` -- the unsafe `Send` impl of the waker list does
/// not leak to the futures.
/// ```compile_fail,E0277
/// use futures_buffered::FuturesUnorderedBounded;
/// use std::rc::Rc;
/// fn need_send<T: Send>(_: T) {}
/// let q: FuturesUnorderedBounded<std::future::Ready<Rc<u8>>> = FuturesUnorderedBounded::new(1);
/// need_send(q);
/// ```
/// twin:
/// ```no_run
/// use futures_buffered::FuturesUnorderedBounded;
/// use std::sync::Arc;
/// fn need_send<T: Send>(_: T) {}
/// let q: FuturesUnorderedBounded<std::future::Ready<Arc<u8>>> = FuturesUnorderedBounded::new(1);
/// need_send(q);
/// ```
pub struct W1NotSendWithNotSendChildren;

/// W2 (C03 R3.6): the collections cannot be cloned (a second handle could dequeue concurrently).
/// ```compile_fail,E0599
/// use futures_buffered::FuturesUnorderedBounded;
/// let q: FuturesUnorderedBounded<std::future::Ready<u8>> = FuturesUnorderedBounded::new(1);
/// let _r = q.clone();
/// ```
/// twin:
/// ```no_run
/// use futures_buffered::FuturesUnorderedBounded;
/// let q: FuturesUnorderedBounded<std::future::Ready<u8>> = FuturesUnorderedBounded::new(1);
/// let _r = q.len();
/// ```
pub struct W2NoClone;

/// W3 (C03 R3.6 / C01): pushing (and polling) needs exclusive access; a shared binding cannot drive the queue.
/// ```compile_fail,E0596
/// use futures_buffered::FuturesUnorderedBounded;
/// let q: FuturesUnorderedBounded<std::future::Ready<u8>> = FuturesUnorderedBounded::new(1);
/// q.push(std::future::ready(1));
/// ```
/// twin:
/// ```no_run
/// use futures_buffered::FuturesUnorderedBounded;
/// let mut q: FuturesUnorderedBounded<std::future::Ready<u8>> = FuturesUnorderedBounded::new(1);
/// q.push(std::future::ready(1));
/// ```
pub struct W3PushNeedsMut;

/// W4 (C03 R3.6): `poll_next` is not callable through a shared reference.
/// ```compile_fail,E0308
/// use futures_buffered::FuturesUnorderedBounded;
/// use futures_core::Stream;
/// use std::pin::Pin;
/// fn f(q: &FuturesUnorderedBounded<std::future::Ready<u8>>, cx: &mut std::task::Context<'_>) {
///     let _ = Stream::poll_next(Pin::new(q), cx);
/// }
/// ```
/// twin:
/// ```no_run
/// use futures_buffered::FuturesUnorderedBounded;
/// use futures_core::Stream;
/// use std::pin::Pin;
/// fn f(q: &mut FuturesUnorderedBounded<std::future::Ready<u8>>, cx: &mut std::task::Context<'_>) {
///     let _ = Stream::poll_next(Pin::new(q), cx);
/// }
/// ```
pub struct W4PollNeedsMut;

/// W5 (C15 / C06 R6.3): a refused `try_push` hands back the very type that was offered.
/// ```compile_fail,E0308
/// use futures_buffered::FuturesUnorderedBounded;
/// let mut q: FuturesUnorderedBounded<std::future::Ready<u8>> = FuturesUnorderedBounded::new(0);
/// let _r: Result<(), u8> = q.try_push(std::future::ready(1));
/// ```
/// twin:
/// ```no_run
/// use futures_buffered::FuturesUnorderedBounded;
/// let mut q: FuturesUnorderedBounded<std::future::Ready<u8>> = FuturesUnorderedBounded::new(0);
/// let _r: Result<(), std::future::Ready<u8>> = q.try_push(std::future::ready(1));
/// ```
pub struct W5TryPushReturnsTheFuture;

/// W6 (C07 R7.4 / C08): the slot storage and the join buffers are not reachable from outside the crate.
/// ```compile_fail,E0616
/// use futures_buffered::FuturesUnorderedBounded;
/// let q: FuturesUnorderedBounded<std::future::Ready<u8>> = FuturesUnorderedBounded::new(1);
/// let _t = &q.tasks;
/// ```
/// twin:
/// ```no_run
/// use futures_buffered::FuturesUnorderedBounded;
/// let q: FuturesUnorderedBounded<std::future::Ready<u8>> = FuturesUnorderedBounded::new(1);
/// let _t = &q.capacity();
/// ```
pub struct W6StoragePrivate;

/// W7 (C03 R3.7): the ordered / unbounded / merge collections inherit `!Send` from their children too.
/// ```compile_fail,E0277
/// use futures_buffered::{FuturesOrdered, MergeUnbounded};
/// use std::rc::Rc;
/// fn need_send<T: Send>(_: T) {}
/// let q: FuturesOrdered<std::future::Ready<Rc<u8>>> = FuturesOrdered::new();
/// need_send(q);
/// ```
/// twin:
/// ```no_run
/// use futures_buffered::{FuturesOrdered, MergeUnbounded};
/// use std::sync::Arc;
/// fn need_send<T: Send>(_: T) {}
/// let q: FuturesOrdered<std::future::Ready<Arc<u8>>> = FuturesOrdered::new();
/// need_send(q);
/// ```
pub struct W7OrderedNotSend;
