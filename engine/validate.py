#!/opt/veriftools/pyvenv/bin/python
"""Validate MANIFEST.json and evidence/*.json against the schemas (developer tool; needs jsonschema from the tooling venv)."""
import glob, json, sys
import jsonschema
ok = True
try:
    jsonschema.validate(json.load(open('/verif/MANIFEST.json')), json.load(open('/root/.vp/MANIFEST.schema.json')))
    print("MANIFEST ok")
except Exception as e:
    ok = False; print("MANIFEST INVALID", e)
sch = json.load(open('/root/.vp/EVIDENCE.schema.json'))
for f in sorted(glob.glob('/verif/evidence/C??.json')):
    try:
        jsonschema.validate(json.load(open(f)), sch)
    except Exception as e:
        ok = False; print(f, "INVALID", str(e)[:300])
print("evidence files:", len(glob.glob('/verif/evidence/C??.json')), "ok" if ok else "PROBLEMS")
sys.exit(0 if ok else 1)
