//! fbfacts: rustc_private driver that dumps the resolved, type-checked program
//! (items + MIR with resolved callees) of the crate being compiled as one JSON
//! fact file.  Used as RUSTC_WORKSPACE_WRAPPER (argv[1] = real rustc, dropped).
//!
//! Env:
//!   FBFACTS_OUT    directory to write `<crate>-<pid>.json` into (required to dump)
//!   FBFACTS_CRATES comma separated crate names to dump (default: all seen)
#![feature(rustc_private)]
#![allow(clippy::all)]

extern crate rustc_abi;
extern crate rustc_driver;
extern crate rustc_hir;
extern crate rustc_interface;
extern crate rustc_middle;
extern crate rustc_session;
extern crate rustc_span;

mod json;
use json::J;

use rustc_driver::Compilation;
use rustc_hir::def::DefKind;
use rustc_hir::def_id::{DefId, LocalDefId, LOCAL_CRATE};
use rustc_middle::mir::{
    self, AggregateKind, BasicBlock, Body, Operand, Place, PlaceElem, Rvalue, StatementKind,
    TerminatorKind, UnwindAction,
};
use rustc_middle::ty::print::with_no_trimmed_paths;
use rustc_middle::ty::{self, GenericArgKind, Ty, TyCtxt, TyKind};
use rustc_span::Span;
use std::collections::BTreeMap;

struct Cb;

impl rustc_driver::Callbacks for Cb {
    fn after_analysis<'tcx>(
        &mut self,
        _compiler: &rustc_interface::interface::Compiler,
        tcx: TyCtxt<'tcx>,
    ) -> Compilation {
        let out = match std::env::var("FBFACTS_OUT") {
            Ok(o) => o,
            Err(_) => return Compilation::Continue,
        };
        let name = tcx.crate_name(LOCAL_CRATE).to_string();
        if let Ok(list) = std::env::var("FBFACTS_CRATES") {
            if !list.split(',').any(|c| c == name) {
                return Compilation::Continue;
            }
        }
        let facts = with_no_trimmed_paths!(dump_crate(tcx, &name));
        let path = format!("{}/{}-{}.json", out, name, std::process::id());
        let mut s = String::new();
        facts.write(&mut s);
        std::fs::write(&path, s).expect("fbfacts: cannot write fact file");
        Compilation::Continue
    }
}

fn main() {
    let mut args: Vec<String> = std::env::args().collect();
    // used as a wrapper: argv[1] is the path of the real rustc
    if args.len() > 1 && (args[1].ends_with("rustc") || args[1].contains("/rustc")) {
        args.remove(1);
    }
    rustc_driver::run_compiler(&args, &mut Cb);
}

// ---------------------------------------------------------------------------

struct Cx<'tcx> {
    tcx: TyCtxt<'tcx>,
    types: BTreeMap<String, J>,
}

fn dump_crate<'tcx>(tcx: TyCtxt<'tcx>, name: &str) -> J {
    let mut cx = Cx { tcx, types: BTreeMap::new() };
    let mut bodies = Vec::new();
    let mut adts = Vec::new();
    let mut impls = Vec::new();
    let mut fns = Vec::new();

    for ldid in tcx.hir_crate_items(()).definitions() {
        let did = ldid.to_def_id();
        let kind = tcx.def_kind(did);
        match kind {
            DefKind::Struct | DefKind::Enum | DefKind::Union => adts.push(cx.adt(did)),
            DefKind::Impl { .. } => impls.push(cx.impl_(did)),
            DefKind::Fn | DefKind::AssocFn => {
                fns.push(cx.fn_item(ldid));
            }
            _ => {}
        }
    }

    for ldid in tcx.mir_keys(()).iter().copied() {
        let did = ldid.to_def_id();
        let kind = tcx.def_kind(did);
        match kind {
            DefKind::Fn | DefKind::AssocFn | DefKind::Closure => {
                if !tcx.is_mir_available(did) {
                    continue;
                }
                let body = tcx.optimized_mir(did);
                bodies.push(cx.body(ldid, body, None));
                let proms = tcx.promoted_mir(did);
                for (i, p) in proms.iter_enumerated() {
                    bodies.push(cx.body(ldid, p, Some(i.as_usize())));
                }
            }
            DefKind::Static { .. } | DefKind::Const { .. } | DefKind::AssocConst { .. } | DefKind::InlineConst => {
                // generic consts cannot be evaluated but their MIR exists
                let body = tcx.mir_for_ctfe(did);
                bodies.push(cx.body(ldid, body, None));
                let proms = tcx.promoted_mir(did);
                for (i, p) in proms.iter_enumerated() {
                    bodies.push(cx.body(ldid, p, Some(i.as_usize())));
                }
            }
            _ => {}
        }
    }

    let mut deps = Vec::new();
    for cnum in tcx.crates(()) {
        deps.push(J::obj(vec![
            ("name", J::str(tcx.crate_name(*cnum).as_str())),
            ("hash", J::str(&format!("{:?}", tcx.crate_hash(*cnum)))),
        ]));
    }

    let sess = tcx.sess;
    J::obj(vec![
        ("crate", J::str(name)),
        ("debug_assertions", J::Bool(sess.opts.debug_assertions)),
        ("overflow_checks", J::Bool(sess.overflow_checks())),
        ("test_harness", J::Bool(sess.opts.test)),
        ("deps", J::Arr(deps)),
        ("adts", J::Arr(adts)),
        ("impls", J::Arr(impls)),
        ("fns", J::Arr(fns)),
        ("bodies", J::Arr(bodies)),
        ("types", J::Obj(cx.types.into_iter().collect())),
    ])
}

impl<'tcx> Cx<'tcx> {
    fn path(&self, did: DefId) -> String {
        self.tcx.def_path_str(did)
    }

    fn span(&self, sp: Span) -> J {
        let sm = self.tcx.sess.source_map();
        let lo = sm.lookup_char_pos(sp.lo());
        let file = match &lo.file.name {
            rustc_span::FileName::Real(r) => match r.local_path() {
                Some(p) => p.display().to_string(),
                None => format!("{:?}", lo.file.name),
            },
            other => format!("{:?}", other),
        };
        J::obj(vec![
            ("f", J::str(&file)),
            ("l", J::Num(lo.line as i128)),
            ("c", J::Num(lo.col.0 as i128 + 1)),
            ("x", J::Bool(sp.from_expansion())),
        ])
    }

    /// Returns the string key of a type, registering its structural tree.
    fn ty(&mut self, t: Ty<'tcx>) -> J {
        let key = format!("{}", t);
        if !self.types.contains_key(&key) {
            // insert placeholder first to cut recursion
            self.types.insert(key.clone(), J::Null);
            let tree = self.ty_tree(t);
            self.types.insert(key.clone(), tree);
        }
        J::Str(key)
    }

    fn args(&mut self, args: ty::GenericArgsRef<'tcx>) -> J {
        let mut v = Vec::new();
        for a in args.iter() {
            match a.kind() {
                GenericArgKind::Type(t) => v.push(self.ty(t)),
                GenericArgKind::Lifetime(_) => {}
                GenericArgKind::Const(c) => v.push(J::str(&format!("const {}", c))),
            }
        }
        J::Arr(v)
    }

    fn ty_tree(&mut self, t: Ty<'tcx>) -> J {
        match *t.kind() {
            TyKind::Bool | TyKind::Char | TyKind::Int(_) | TyKind::Uint(_) | TyKind::Float(_)
            | TyKind::Str | TyKind::Never => J::obj(vec![("k", J::str("prim")), ("name", J::str(&format!("{}", t)))]),
            TyKind::Adt(def, args) => J::obj(vec![
                ("k", J::str("adt")),
                ("name", J::str(&self.path(def.did()))),
                ("local", J::Bool(def.did().is_local())),
                ("args", self.args(args)),
            ]),
            TyKind::Param(p) => J::obj(vec![("k", J::str("param")), ("name", J::str(p.name.as_str()))]),
            TyKind::Ref(_, inner, m) => J::obj(vec![
                ("k", J::str("ref")),
                ("mut", J::Bool(m.is_mut())),
                ("ty", self.ty(inner)),
            ]),
            TyKind::RawPtr(inner, m) => J::obj(vec![
                ("k", J::str("ptr")),
                ("mut", J::Bool(m.is_mut())),
                ("ty", self.ty(inner)),
            ]),
            TyKind::Slice(inner) => J::obj(vec![("k", J::str("slice")), ("ty", self.ty(inner))]),
            TyKind::Array(inner, _) => J::obj(vec![("k", J::str("array")), ("ty", self.ty(inner))]),
            TyKind::Tuple(tys) => {
                let v: Vec<J> = tys.iter().map(|x| self.ty(x)).collect();
                J::obj(vec![("k", J::str("tuple")), ("tys", J::Arr(v))])
            }
            TyKind::Alias(al) => J::obj(vec![
                ("k", J::str("alias")),
                ("name", J::str(&self.path(al.kind.def_id()))),
                ("args", self.args(al.args)),
            ]),
            TyKind::FnDef(did, args) => J::obj(vec![
                ("k", J::str("fndef")),
                ("name", J::str(&self.path(did))),
                ("local", J::Bool(did.is_local())),
                ("args", self.args(args)),
            ]),
            TyKind::FnPtr(sig, _) => {
                let sig = sig.skip_binder();
                let v: Vec<J> = sig.inputs_and_output.iter().map(|x| self.ty(x)).collect();
                J::obj(vec![("k", J::str("fnptr")), ("io", J::Arr(v))])
            }
            TyKind::Closure(did, args) => J::obj(vec![
                ("k", J::str("closure")),
                ("name", J::str(&self.path(did))),
                ("args", self.args(args)),
            ]),
            TyKind::Dynamic(..) => J::obj(vec![("k", J::str("dyn")), ("name", J::str(&format!("{}", t)))]),
            _ => J::obj(vec![("k", J::str("other")), ("name", J::str(&format!("{}", t)))]),
        }
    }

    fn vis(&self, did: DefId) -> J {
        let v = self.tcx.visibility(did);
        J::str(&match v {
            ty::Visibility::Public => "pub".to_string(),
            ty::Visibility::Restricted(m) => {
                if m.is_crate_root() { "crate".to_string() } else { format!("in {}", self.path(m)) }
            }
        })
    }

    fn adt(&mut self, did: DefId) -> J {
        let tcx = self.tcx;
        let def = tcx.adt_def(did);
        let mut variants = Vec::new();
        for (vi, v) in def.variants().iter_enumerated() {
            let mut fields = Vec::new();
            for f in v.fields.iter() {
                let fty = tcx.type_of(f.did).instantiate_identity().skip_norm_wip();
                fields.push(J::obj(vec![
                    ("name", J::str(f.name.as_str())),
                    ("ty", self.ty(fty)),
                    ("vis", self.vis(f.did)),
                ]));
            }
            variants.push(J::obj(vec![
                ("name", J::str(v.name.as_str())),
                ("idx", J::Num(vi.as_usize() as i128)),
                ("fields", J::Arr(fields)),
            ]));
        }
        let generics = tcx.generics_of(did);
        let gp: Vec<J> = generics.own_params.iter().map(|p| J::str(p.name.as_str())).collect();
        let repr = def.repr();
        J::obj(vec![
            ("path", J::str(&self.path(did))),
            ("kind", J::str(if def.is_enum() { "enum" } else if def.is_union() { "union" } else { "struct" })),
            ("vis", self.vis(did)),
            ("effective_pub", J::Bool(did.as_local().map(|l| tcx.effective_visibilities(()).is_reachable(l)).unwrap_or(false))),
            ("generics", J::Arr(gp)),
            ("repr_c", J::Bool(repr.c())),
            ("variants", J::Arr(variants)),
            ("span", self.span(tcx.def_span(did))),
        ])
    }

    fn impl_(&mut self, did: DefId) -> J {
        let tcx = self.tcx;
        let self_ty = tcx.type_of(did).instantiate_identity().skip_norm_wip();
        let (trait_path, trait_args, negative, is_unsafe) = match tcx.impl_opt_trait_ref(did) {
            Some(tr) => {
                let tr = tr.instantiate_identity().skip_norm_wip();
                let neg = matches!(tcx.impl_polarity(did), ty::ImplPolarity::Negative);
                let uns = tcx.trait_def(tr.def_id).safety.is_unsafe();
                (J::str(&self.path(tr.def_id)), self.args(tr.args), neg, uns)
            }
            None => (J::Null, J::Arr(vec![]), false, false),
        };
        let items: Vec<J> = tcx
            .associated_item_def_ids(did)
            .iter()
            .map(|d| J::str(&self.path(*d)))
            .collect();
        J::obj(vec![
            ("path", J::str(&self.path(did))),
            ("trait", trait_path),
            ("trait_args", trait_args),
            ("self_ty", self.ty(self_ty)),
            ("negative", J::Bool(negative)),
            ("unsafe_trait", J::Bool(is_unsafe)),
            ("items", J::Arr(items)),
            ("span", self.span(tcx.def_span(did))),
        ])
    }

    fn fn_item(&mut self, ldid: LocalDefId) -> J {
        let tcx = self.tcx;
        let did = ldid.to_def_id();
        let sig = tcx.fn_sig(did).instantiate_identity().skip_norm_wip().skip_binder();
        let inputs: Vec<J> = sig.inputs().iter().map(|t| self.ty(*t)).collect();
        let output = self.ty(sig.output());
        let mut docs = String::new();
        for attr in tcx.get_all_attrs(did) {
            if let Some((sym, _)) = attr.doc_str_and_fragment_kind() {
                docs.push_str(sym.as_str());
                docs.push('\n');
            }
        }
        let parent = tcx.parent(did);
        let (parent_impl, parent_trait) = match tcx.def_kind(parent) {
            DefKind::Impl { .. } => (J::str(&self.path(parent)), J::Null),
            DefKind::Trait => (J::Null, J::str(&self.path(parent))),
            _ => (J::Null, J::Null),
        };
        J::obj(vec![
            ("path", J::str(&self.path(did))),
            ("name", J::str(tcx.item_name(did).as_str())),
            ("vis", self.vis(did)),
            ("effective_pub", J::Bool(tcx.effective_visibilities(()).is_reachable(ldid))),
            ("unsafe", J::Bool(sig.safety().is_unsafe())),
            ("inputs", J::Arr(inputs)),
            ("output", output),
            // names of the type / const parameters (parents' first, lifetimes left out): positionally the `def_args` of a call
            ("generics", {
                let ids = ty::GenericArgs::identity_for_item(tcx, did);
                self.args(ids)
            }),
            ("impl", parent_impl),
            ("trait_decl", parent_trait),
            ("docs", J::str(&docs)),
            ("span", self.span(tcx.def_span(did))),
        ])
    }

    // ------------------------------------------------------------------ MIR

    fn body(&mut self, owner: LocalDefId, body: &Body<'tcx>, promoted: Option<usize>) -> J {
        let tcx = self.tcx;
        let did = owner.to_def_id();
        let kind = tcx.def_kind(did);
        let mut path = self.path(did);
        if let Some(p) = promoted {
            path = format!("{}::{{promoted#{}}}", path, p);
        }
        let mut locals = Vec::new();
        for (_l, decl) in body.local_decls.iter_enumerated() {
            locals.push(self.ty(decl.ty));
        }
        let mut names = Vec::new();
        for vdi in &body.var_debug_info {
            if let mir::VarDebugInfoContents::Place(p) = &vdi.value {
                names.push(J::obj(vec![
                    ("name", J::str(vdi.name.as_str())),
                    ("place", self.place(body, did, p)),
                ]));
            }
        }
        let mut blocks = Vec::new();
        for (_bb, data) in body.basic_blocks.iter_enumerated() {
            let mut stmts = Vec::new();
            for st in &data.statements {
                if let Some(j) = self.stmt(body, did, st) {
                    stmts.push(j);
                }
            }
            let term = data.terminator();
            blocks.push(J::obj(vec![
                ("cleanup", J::Bool(data.is_cleanup)),
                ("stmts", J::Arr(stmts)),
                ("term", self.term(body, did, term)),
            ]));
        }
        let parent_fn = if matches!(kind, DefKind::Closure | DefKind::InlineConst) {
            J::str(&self.path(tcx.typeck_root_def_id(did)))
        } else {
            J::Null
        };
        J::obj(vec![
            ("path", J::str(&path)),
            ("kind", J::str(&format!("{:?}", kind))),
            ("promoted", promoted.map(|p| J::Num(p as i128)).unwrap_or(J::Null)),
            ("parent_fn", parent_fn),
            ("arg_count", J::Num(body.arg_count as i128)),
            ("locals", J::Arr(locals)),
            ("names", J::Arr(names)),
            ("span", self.span(body.span)),
            ("blocks", J::Arr(blocks)),
        ])
    }

    fn place(&mut self, body: &Body<'tcx>, _owner: DefId, p: &Place<'tcx>) -> J {
        let tcx = self.tcx;
        let mut proj = Vec::new();
        let mut pty = mir::PlaceTy::from_ty(body.local_decls[p.local].ty);
        for elem in p.projection.iter() {
            let j = match elem {
                PlaceElem::Deref => J::obj(vec![("k", J::str("deref"))]),
                PlaceElem::Field(f, fty) => {
                    let mut fname = format!("{}", f.as_usize());
                    if let TyKind::Adt(def, _) = pty.ty.kind() {
                        let vidx = pty.variant_index.unwrap_or(rustc_abi::FIRST_VARIANT);
                        if def.is_enum() || def.is_struct() || def.is_union() {
                            if let Some(v) = def.variants().get(vidx) {
                                if let Some(fd) = v.fields.get(f) {
                                    fname = fd.name.to_string();
                                }
                            }
                        }
                    }
                    J::obj(vec![
                        ("k", J::str("field")),
                        ("i", J::Num(f.as_usize() as i128)),
                        ("name", J::str(&fname)),
                        ("ty", self.ty(fty)),
                    ])
                }
                PlaceElem::Downcast(name, vi) => J::obj(vec![
                    ("k", J::str("downcast")),
                    ("variant", J::str(&name.map(|s| s.to_string()).unwrap_or_default())),
                    ("idx", J::Num(vi.as_usize() as i128)),
                ]),
                PlaceElem::Index(l) => J::obj(vec![("k", J::str("index")), ("local", J::Num(l.as_usize() as i128))]),
                PlaceElem::ConstantIndex { offset, from_end, .. } => J::obj(vec![
                    ("k", J::str("constindex")),
                    ("offset", J::Num(offset as i128)),
                    ("from_end", J::Bool(from_end)),
                ]),
                PlaceElem::Subslice { from, to, from_end } => J::obj(vec![
                    ("k", J::str("subslice")),
                    ("from", J::Num(from as i128)),
                    ("to", J::Num(to as i128)),
                    ("from_end", J::Bool(from_end)),
                ]),
                PlaceElem::OpaqueCast(t) => J::obj(vec![("k", J::str("opaquecast")), ("ty", self.ty(t))]),
                PlaceElem::UnwrapUnsafeBinder(t) => J::obj(vec![("k", J::str("unwrapbinder")), ("ty", self.ty(t))]),
            };
            proj.push(j);
            pty = pty.projection_ty(tcx, elem);
        }
        J::obj(vec![
            ("l", J::Num(p.local.as_usize() as i128)),
            ("p", J::Arr(proj)),
            ("ty", self.ty(pty.ty)),
        ])
    }

    fn fn_ref(&mut self, owner: DefId, did: DefId, args: ty::GenericArgsRef<'tcx>) -> Vec<(&'static str, J)> {
        let tcx = self.tcx;
        let mut v = vec![
            ("def", J::str(&self.path(did))),
            ("def_args", self.args(args)),
            ("def_str", J::str(&tcx.def_path_str_with_args(did, args))),
            ("krate", J::str(tcx.crate_name(did.krate).as_str())),
            ("local", J::Bool(did.is_local())),
        ];
        // the trait this item belongs to, when it is a trait method
        if let Some(tr) = tcx.trait_of_assoc(did) {
            v.push(("trait", J::str(&self.path(tr))));
            // self type = first generic arg
            if let Some(GenericArgKind::Type(t)) = args.get(0).map(|a| a.kind()) {
                let j = self.ty(t);
                v.push(("self_ty", j));
            }
        } else if let Some(imp) = tcx.impl_of_assoc(did) {
            let st = tcx.type_of(imp).instantiate_identity().skip_norm_wip();
            let j = self.ty(st);
            v.push(("impl_self_ty", j));
            if let Some(tr) = tcx.impl_opt_trait_ref(imp) {
                let tr = tr.instantiate_identity().skip_norm_wip();
                v.push(("impl_trait", J::str(&self.path(tr.def_id))));
            }
        }
        // resolution in the owner's post-analysis typing env
        let root = tcx.typeck_root_def_id(owner);
        let env = ty::TypingEnv::post_analysis(tcx, root);
        let resolvable = std::panic::catch_unwind(std::panic::AssertUnwindSafe(|| {
            ty::Instance::try_resolve(tcx, env, did, args)
        }));
        if let Ok(Ok(Some(inst))) = resolvable {
            let rdid = inst.def_id();
            v.push(("res", J::str(&self.path(rdid))));
            v.push(("res_local", J::Bool(rdid.is_local())));
            v.push(("res_kind", J::str(&format!("{:?}", std::mem::discriminant(&inst.def)).to_string())));
            v.push(("res_shim", J::str(match inst.def {
                ty::InstanceKind::Item(_) => "item",
                ty::InstanceKind::Intrinsic(_) => "intrinsic",
                ty::InstanceKind::Virtual(..) => "virtual",
                ty::InstanceKind::FnPtrShim(..) => "fnptrshim",
                ty::InstanceKind::ClosureOnceShim { .. } => "closureonceshim",
                ty::InstanceKind::DropGlue(..) => "dropglue",
                ty::InstanceKind::CloneShim(..) => "cloneshim",
                _ => "other",
            })));
            let ra = self.args(inst.args);
            v.push(("res_args", ra));
            if let Some(imp) = tcx.impl_of_assoc(rdid) {
                let st = tcx.type_of(imp).instantiate_identity().skip_norm_wip();
                let j = self.ty(st);
                v.push(("res_impl_self_ty", j));
            }
        }
        v
    }

    fn constant(&mut self, owner: DefId, c: &mir::ConstOperand<'tcx>) -> J {
        let tcx = self.tcx;
        let cty = c.const_.ty();
        let mut v: Vec<(&'static str, J)> = vec![("k", J::str("const")), ("ty", self.ty(cty))];
        match *cty.kind() {
            TyKind::FnDef(did, args) => {
                v.push(("fn", J::Obj(self.fn_ref(owner, did, args).into_iter().map(|(k, j)| (k.to_string(), j)).collect())));
            }
            _ => {
                // try to evaluate to a scalar
                let root = tcx.typeck_root_def_id(owner);
                let env = ty::TypingEnv::post_analysis(tcx, root);
                let ev = std::panic::catch_unwind(std::panic::AssertUnwindSafe(|| {
                    c.const_.try_eval_scalar_int(tcx, env)
                }));
                if let Ok(Some(si)) = ev {
                    let bits = si.to_bits(si.size());
                    v.push(("bits", J::str(&format!("{}", bits))));
                    v.push(("size", J::Num(si.size().bytes() as i128)));
                    // enum constants such as Ordering::Release: map the bits to a variant name
                    if let TyKind::Adt(def, _) = cty.kind() {
                        if def.is_enum() {
                            for (vi, discr) in def.discriminants(tcx) {
                                if discr.val == bits {
                                    v.push(("variant", J::str(def.variant(vi).name.as_str())));
                                }
                            }
                        }
                    }
                }
                v.push(("s", J::str(&format!("{}", c.const_))));
                if let mir::Const::Unevaluated(uv, _) = c.const_ {
                    v.push(("uneval", J::str(&self.path(uv.def))));
                    if let Some(p) = uv.promoted {
                        v.push(("promoted", J::Num(p.as_usize() as i128)));
                    }
                }
            }
        }
        J::Obj(v.into_iter().map(|(k, j)| (k.to_string(), j)).collect())
    }

    fn operand(&mut self, body: &Body<'tcx>, owner: DefId, op: &Operand<'tcx>) -> J {
        match op {
            Operand::Copy(p) => J::obj(vec![("k", J::str("copy")), ("place", self.place(body, owner, p))]),
            Operand::Move(p) => J::obj(vec![("k", J::str("move")), ("place", self.place(body, owner, p))]),
            Operand::Constant(c) => self.constant(owner, c),
            #[allow(unreachable_patterns)]
            other => J::obj(vec![("k", J::str("otherop")), ("s", J::str(&format!("{:?}", other)))]),
        }
    }

    fn rvalue(&mut self, body: &Body<'tcx>, owner: DefId, rv: &Rvalue<'tcx>) -> J {
        let tcx = self.tcx;
        match rv {
            Rvalue::Use(op, ..) => J::obj(vec![("k", J::str("use")), ("op", self.operand(body, owner, op))]),
            Rvalue::Repeat(op, _) => J::obj(vec![("k", J::str("repeat")), ("op", self.operand(body, owner, op))]),
            Rvalue::Ref(_, bk, p) => J::obj(vec![
                ("k", J::str("ref")),
                ("mut", J::Bool(matches!(bk, mir::BorrowKind::Mut { .. }))),
                ("place", self.place(body, owner, p)),
            ]),
            Rvalue::RawPtr(kind, p) => J::obj(vec![
                ("k", J::str("rawptr")),
                ("mut", J::Bool(format!("{:?}", kind).contains("Mut"))),
                ("place", self.place(body, owner, p)),
            ]),
            Rvalue::Cast(kind, op, t) => J::obj(vec![
                ("k", J::str("cast")),
                ("kind", J::str(&format!("{:?}", kind))),
                ("op", self.operand(body, owner, op)),
                ("from", { let ft = op.ty(&body.local_decls, tcx); self.ty(ft) }),
                ("to", self.ty(*t)),
            ]),
            Rvalue::BinaryOp(op, ab) => J::obj(vec![
                ("k", J::str("binop")),
                ("op", J::str(&format!("{:?}", op))),
                ("a", self.operand(body, owner, &ab.0)),
                ("b", self.operand(body, owner, &ab.1)),
            ]),
            Rvalue::UnaryOp(op, a) => J::obj(vec![
                ("k", J::str("unop")),
                ("op", J::str(&format!("{:?}", op))),
                ("a", self.operand(body, owner, a)),
            ]),
            Rvalue::Discriminant(p) => {
                let pty = p.ty(&body.local_decls, tcx).ty;
                let mut variants = Vec::new();
                if let TyKind::Adt(def, _) = pty.kind() {
                    if def.is_enum() {
                        for (vi, discr) in def.discriminants(tcx) {
                            variants.push(J::Arr(vec![
                                J::str(&format!("{}", discr.val)),
                                J::str(def.variant(vi).name.as_str()),
                            ]));
                        }
                    }
                }
                J::obj(vec![
                    ("k", J::str("discr")),
                    ("place", self.place(body, owner, p)),
                    ("variants", J::Arr(variants)),
                ])
            }
            Rvalue::Aggregate(kind, ops) => {
                let mut v: Vec<(&'static str, J)> = vec![("k", J::str("aggregate"))];
                match &**kind {
                    AggregateKind::Adt(did, vi, args, _, active) => {
                        let def = tcx.adt_def(*did);
                        let var = def.variant(*vi);
                        v.push(("agg", J::str("adt")));
                        v.push(("adt", J::str(&self.path(*did))));
                        v.push(("adt_args", self.args(args)));
                        v.push(("variant", J::str(var.name.as_str())));
                        let fnames: Vec<J> = match active {
                            Some(f) => vec![J::str(var.fields[*f].name.as_str())],
                            None => var.fields.iter().map(|f| J::str(f.name.as_str())).collect(),
                        };
                        v.push(("fields", J::Arr(fnames)));
                    }
                    AggregateKind::Tuple => v.push(("agg", J::str("tuple"))),
                    AggregateKind::Array(_) => v.push(("agg", J::str("array"))),
                    AggregateKind::Closure(did, _) => {
                        v.push(("agg", J::str("closure")));
                        v.push(("closure", J::str(&self.path(*did))));
                    }
                    AggregateKind::RawPtr(..) => v.push(("agg", J::str("rawptr"))),
                    _ => v.push(("agg", J::str("other"))),
                }
                let o: Vec<J> = ops.iter().map(|o| self.operand(body, owner, o)).collect();
                v.push(("ops", J::Arr(o)));
                J::Obj(v.into_iter().map(|(k, j)| (k.to_string(), j)).collect())
            }
            Rvalue::CopyForDeref(p) => J::obj(vec![
                ("k", J::str("use")),
                ("op", J::obj(vec![("k", J::str("copy")), ("place", self.place(body, owner, p))])),
            ]),
            other => J::obj(vec![("k", J::str("other")), ("s", J::str(&format!("{:?}", other)))]),
        }
    }

    fn stmt(&mut self, body: &Body<'tcx>, owner: DefId, st: &mir::Statement<'tcx>) -> Option<J> {
        match &st.kind {
            StatementKind::Assign(b) => {
                let (p, rv) = &**b;
                Some(J::obj(vec![
                    ("k", J::str("assign")),
                    ("place", self.place(body, owner, p)),
                    ("rv", self.rvalue(body, owner, rv)),
                    ("span", self.span(st.source_info.span)),
                ]))
            }
            StatementKind::SetDiscriminant { place, variant_index } => Some(J::obj(vec![
                ("k", J::str("setdiscr")),
                ("place", self.place(body, owner, place)),
                ("idx", J::Num(variant_index.as_usize() as i128)),
                ("span", self.span(st.source_info.span)),
            ])),
            StatementKind::Intrinsic(i) => Some(J::obj(vec![
                ("k", J::str("intrinsic")),
                ("s", J::str(&format!("{:?}", i))),
                ("span", self.span(st.source_info.span)),
            ])),
            StatementKind::StorageLive(_)
            | StatementKind::StorageDead(_)
            | StatementKind::Nop
            | StatementKind::FakeRead(..)
            | StatementKind::PlaceMention(..)
            | StatementKind::AscribeUserType(..)
            | StatementKind::Coverage(..)
            | StatementKind::ConstEvalCounter => None,
            #[allow(unreachable_patterns)]
            other => Some(J::obj(vec![
                ("k", J::str("otherstmt")),
                ("s", J::str(&format!("{:?}", other))),
                ("span", self.span(st.source_info.span)),
            ])),
        }
    }

    fn bb(b: BasicBlock) -> J {
        J::Num(b.as_usize() as i128)
    }

    fn unwind(u: &UnwindAction) -> J {
        match u {
            UnwindAction::Cleanup(b) => Self::bb(*b),
            _ => J::Null,
        }
    }

    fn term(&mut self, body: &Body<'tcx>, owner: DefId, t: &mir::Terminator<'tcx>) -> J {
        let tcx = self.tcx;
        let span = self.span(t.source_info.span);
        let mut v: Vec<(&'static str, J)> = Vec::new();
        match &t.kind {
            TerminatorKind::Goto { target } => {
                v.push(("k", J::str("goto")));
                v.push(("target", Self::bb(*target)));
            }
            TerminatorKind::SwitchInt { discr, targets } => {
                v.push(("k", J::str("switch")));
                v.push(("discr", self.operand(body, owner, discr)));
                let mut ts = Vec::new();
                for (val, bb) in targets.iter() {
                    ts.push(J::Arr(vec![J::str(&format!("{}", val)), Self::bb(bb)]));
                }
                v.push(("targets", J::Arr(ts)));
                v.push(("otherwise", Self::bb(targets.otherwise())));
            }
            TerminatorKind::Return => v.push(("k", J::str("return"))),
            TerminatorKind::Unreachable => v.push(("k", J::str("unreachable"))),
            TerminatorKind::UnwindResume => v.push(("k", J::str("resume"))),
            TerminatorKind::UnwindTerminate(_) => v.push(("k", J::str("terminate"))),
            TerminatorKind::Drop { place, target, unwind, .. } => {
                v.push(("k", J::str("drop")));
                v.push(("place", self.place(body, owner, place)));
                let pty = place.ty(&body.local_decls, tcx).ty;
                let root = tcx.typeck_root_def_id(owner);
                let env = ty::TypingEnv::post_analysis(tcx, root);
                v.push(("needs_drop", J::Bool(pty.needs_drop(tcx, env))));
                v.push(("target", Self::bb(*target)));
                v.push(("unwind", Self::unwind(unwind)));
            }
            TerminatorKind::Call { func, args, destination, target, unwind, .. } => {
                v.push(("k", J::str("call")));
                v.push(("func", self.operand(body, owner, func)));
                let a: Vec<J> = args.iter().map(|a| self.operand(body, owner, &a.node)).collect();
                v.push(("args", J::Arr(a)));
                v.push(("dest", self.place(body, owner, destination)));
                v.push(("target", target.map(Self::bb).unwrap_or(J::Null)));
                v.push(("unwind", Self::unwind(unwind)));
            }
            TerminatorKind::TailCall { func, args, .. } => {
                v.push(("k", J::str("tailcall")));
                v.push(("func", self.operand(body, owner, func)));
                let a: Vec<J> = args.iter().map(|a| self.operand(body, owner, &a.node)).collect();
                v.push(("args", J::Arr(a)));
            }
            TerminatorKind::Assert { cond, expected, msg, target, unwind } => {
                v.push(("k", J::str("assert")));
                v.push(("cond", self.operand(body, owner, cond)));
                v.push(("expected", J::Bool(*expected)));
                let m = format!("{:?}", msg);
                let kind = m.split(|c: char| c == '(' || c == ' ' || c == '{').next().unwrap_or("").to_string();
                v.push(("msg", J::str(&m)));
                v.push(("msg_kind", J::str(&kind)));
                v.push(("target", Self::bb(*target)));
                v.push(("unwind", Self::unwind(unwind)));
            }
            TerminatorKind::FalseEdge { real_target, .. } => {
                v.push(("k", J::str("goto")));
                v.push(("target", Self::bb(*real_target)));
            }
            TerminatorKind::FalseUnwind { real_target, .. } => {
                v.push(("k", J::str("goto")));
                v.push(("target", Self::bb(*real_target)));
            }
            other => {
                v.push(("k", J::str("otherterm")));
                v.push(("s", J::str(&format!("{:?}", other))));
                let succ: Vec<J> = t.successors().map(Self::bb).collect();
                v.push(("succ", J::Arr(succ)));
            }
        }
        v.push(("span", span));
        J::Obj(v.into_iter().map(|(k, j)| (k.to_string(), j)).collect())
    }
}
