import subprocess, re
V='/verif'
def tbl(*args):
    return subprocess.run(['python3', V+'/engine/mkdesigntables.py']+list(args), capture_output=True, text=True, cwd=V).stdout.strip()
add=open('/tmp/design_add.md').read()
add=add.replace('SEEDS_TABLE_5', tbl('seeds','ij'))
add=add.replace('SEEDS_TABLE_6', tbl('seeds','kl'))
add=add.replace('SEEDS_TABLE_7', tbl('seeds','mn'))
add=add.replace('BENIGN_TABLE', 'The table in §12.5 lists every change of `benign/` (all batches, twins included) with the checks reporting it (none).')
s=open(V+'/DESIGN.md').read()
assert '### 12.5d' not in s
i=s.index('### 12.6 Rules added after')
s=s[:i]+add+'\n'+s[i:]
# regenerate the benign table of §12.5
a=s.index('| refactoring | files | summary | checks reporting (must be none) |')
b=s.index('### 12.5b')
s=s[:a]+tbl('benign')+'\n\n'+s[b:]
open(V+'/DESIGN.md','w').write(s)
print('ok', len(s))
