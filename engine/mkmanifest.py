#!/usr/bin/env python3
"""Regenerates /verif/MANIFEST.json from the table below (one entry per claimed property)."""
import json
import os

VERIF = os.path.dirname(os.path.dirname(os.path.abspath(__file__)))

TB = ("Trusted: rustc nightly front end + MIR construction (dev profile, mir-opt-level=0), the fbfacts driver's "
      "serialisation, core/alloc API summaries in the rule tables, pin-project-lite, and the internals of "
      "cordyceps/diatomic-waker/spin. ")

CLAIMS = {
    "C01": dict(
        technique="custom MIR analysis (rustc_private driver): dominator / must-pass-through / value-provenance rules on the wake-poll handshake",
        text="Decides, on every CFG path of the functions concerned, the ordering skeleton that no-lost-wake-up relies on: "
             "register-before-drain, flag->enqueue->notify, flag cleared only after a successful dequeue and before the child poll, "
             "self-wake on every early Pending, push/from_iter/merge re-arm mark the slot ready, unbounded variants poll all groups "
             "with the caller's context before Pending, context provenance in every poll body. These are necessary conditions (each "
             "broken one admits a concrete lost-wake schedule); sufficiency under weak-memory interleavings is NOT decided.",
        note=TB + "Undecided: behaviour under all interleavings permitted by the atomic orderings; dependency internals."),
    "C02": dict(
        technique="custom MIR analysis: must-pass-through + path-enumerated atomic groups + variant-aware live-drop analysis on slot map / drain / unbounded / ordered poll functions",
        text="Decides the structural clauses behind exactly-once delivery on every CFG path: vacate<=>Ready with the same index, "
             "who-may-insert/remove, slot-map insert/remove effects all-or-none (none exactly on refusal/already-free), Ready(None) only "
             "behind an emptiness test, no live normal-path drop of an output, ordered outputs reach return-or-heap, remaining-counter "
             "bookkeeping. Necessary conditions only: the free-list permutation invariant over all histories is NOT decided.",
        note=TB + "Undecided: exactly-once over arbitrary free-list histories (inductive invariant over runtime values)."),
    "C05": dict(
        technique="custom MIR analysis: value provenance of every child-poll receiver to the Occupied-only accessor of the popped index; must-pass-through of removal",
        text="Decides in full, at the structural level, that a child can only be polled through the Occupied-only accessor applied to "
             "the index dequeued in the same iteration, that a Ready future / ended merged stream is removed (dropped in place through "
             "Pin::set) before the call returns or drains again, that no slot value flows into move/forget APIs, and that adapters fuse "
             "their upstream.",
        note=TB + "Relies on Pin::set = drop in place + write."),
    "C06": dict(
        technique="custom MIR + type analysis: MaybeUninit-ownership rule, leak-API who-may table, refusal-path analysis, ownership-shape type walk, live-drop analysis",
        text="Decides the ownership shape behind exactly-once drop: structs writing into MaybeUninit buffers own a releasing Drop impl; "
             "leak-capable APIs occur only at the frozen reasoned sites; a refused insertion returns its argument, runs no closure, drops "
             "nothing; no field hides a child/output behind ManuallyDrop/raw pointers; no unreasoned normal-path drop of a child-owning "
             "value. Necessary conditions + language drop glue; exactly-once for every cancel point as a global fact is NOT decided.",
        note=TB + "Two genuine defects found by R6.1 were repaired (fix: db5f447)."),
    "C07": dict(
        technique="custom MIR analysis: path-sensitive must-pass-through (drop-flag and enum-variant aware) preserving invariant 'slot vacant <=> output initialised'; cast/assume_init site audit",
        text="Decides in full, at the structural level, that every path of JoinAll::poll / TryJoinAll::poll either writes output[i] for the "
             "vacated slot i or invalidates (takes and releases) the buffer, that the MaybeUninit-erasing conversion is reachable only "
             "under Ready(None) with the buffer moved out of the struct, that buffer length == queue capacity, that the queue is closed, "
             "and that Ready values come only from the taken buffer or the drained Err payload.",
        note=TB + "Leans on C02 R2.1/R2.4 (re-evaluated in this check). One genuine defect found by R7.1 was repaired (fix: db5f447)."),
    "C03": dict(
        technique="custom MIR analysis: per-path call counting of ref-count operations over the waker vtable, atomic-ordering table, alloc/free who-may + layout provenance, pointer-arithmetic agreement, call-graph receiver audit",
        text="Decides the protocol shape of the shared waker allocation on every path: count +1/-1 per vtable entry, free exactly on the "
             "'was last' edge from exactly the two release sites, minimal atomic orderings, alloc/dealloc with the same layout function over "
             "the same capacity, header<->item pointer arithmetic agreement (index written == offset used, stub at cap, cap+1 items), "
             "dequeue/registration reachable only through exclusive receivers, no Clone, Send/Sync surface. Data-race freedom as a "
             "whole-program fact and dependency internals are NOT decided.",
        note=TB + "Undecided: absence of data races under all interleavings; cordyceps/diatomic-waker/spin internals."),
    "C04": dict(
        technique="custom MIR analysis: counter-role inference + closure-capture resolution, dominating-comparison check at every yield, XOR-store set agreement between sibling implementations",
        text="Decides the order discipline structurally: wrapper index from incoming (before exactly one +1) or outgoing (after exactly one -1), "
             "FromIterator numbering, every ordered yield dominated by index==outgoing with exactly one outgoing+=1, re-base stores share one "
             "constant and cover heap entries, all live tasks of all groups, and both counters (bounded/unbounded agree), min-heap Ord, "
             "join_all writes slot i of the drained tuple, adapters only push_back. Contiguity of the wrapping window for all counter values "
             "(numeric) is NOT decided.",
        note=TB + "Assumes fewer than 2^63 held futures."),
    "C08": dict(
        technique="type-shape analysis over all struct fields (inline-holder fixed point) + crate-wide audit of every use of &mut Slot / &mut [Slot] + public-signature audit",
        text="Decides in full (modulo Pin/Box<[T]>/pin-project-lite semantics) that children live only in Pin<Box<[Slot<F>]>> which is "
             "never replaced or resized, that only the frozen table of types holds a type parameter inline, that manual Unpin impls are on "
             "types with boxed children only, that unpinned references to slot storage are only inspected / re-pinned and never moved out "
             "of, assigned through or passed to move/swap/copy APIs, and that no public signature hands out a child by value or by &mut.",
        note=TB),
    "C09": dict(
        technique="path-sensitive static analysis: every drop-flag/enum-variant-feasible CFG path of the adapter poll functions abstracted to event sequences and replayed through a finite abstract state (predicate abstraction, no joins)",
        text="For n >= 1 decides on all feasible paths (blocks visited <= 3 times) of the five adapter poll functions: the queue is built with "
             "the limit itself and never replaced; every insertion is behind a true `len() < capacity()` guard on the same queue; every "
             "Pending return is work-conserving (inner Pending and queue observed full / upstream gone / upstream Pending in this call, or "
             "nothing in flight and upstream Pending). Uses callee summaries decided by C02/C15 (None iff empty; observers).",
        note=TB + "Assume-guarantee links: C02 R2.4, C15 R15.3/R15.4. Loops unrolled to 3 visits per block."),
    "C10": dict(
        technique="path-sensitive static analysis over adapter event sequences + value provenance of pushed items / returned errors + doc-vs-code rule for the documented limit",
        text="Decides on all feasible paths: upstream polled only while present and set(None) after its end (fused); every pulled item reaches "
             "exactly one insertion and is (the closure of) that item; an upstream error returns at once as that poll's residual with queue "
             "and stream untouched; None/completion exactly in state inner-empty and upstream-gone, never Pending there; documented limit-0 "
             "semantics of for_each_concurrent (one known finding). Multiset equality over all scripts is NOT decided.",
        note=TB + "Known finding D3 (for_each_concurrent(0)) is listed in known_findings.json."),
    "C16": dict(
        technique="data-dependence analysis of the fill-guard operands through crate observers + exact-shape check of the observer + guarded-push path rule",
        text="Decides in full at the structural level that the ordered adapters' fill guard compares exactly (running + parked) with "
             "capacity() and that each pull is behind one true guard evaluation, which bounds pulled-but-not-yielded items by n on every path.",
        note=TB + "Genuine defect D6 found by this rule was repaired (fix: 1b71eb4)."),
    "C17": dict(
        technique="per-path symbolic evaluation of size_hint return values (static, along each feasible CFG path) + dependence-shape rules",
        text="Decides per feasible path that every adapter upper bound is None or checked_add(upstream-or-0, in-flight count) (running+parked "
             "for the ordered adapters), lower bounds are saturating sums of upstream-or-0 and the count, no unchecked arithmetic; collections "
             "return (len, Some(len)) of one len() call; merges keep the (0, None) default.",
        note=TB + "Genuine defect D7 found by this rule was repaired (fix: 3be6042). Assumes honest upstream hints."),
    "C11": dict(
        technique="custom MIR analysis: variant-region must-pass-through + return-value provenance in the merge poll functions; who-may-touch-the-groups-vector table",
        text="Decides structurally that the bounded merge returns exactly the drained payload after re-arming (not removing) that source and "
             "without draining again, removes a source exactly on its None, constructs Pending/None only where the drain did; the unbounded "
             "merge's push is append-only, its poll_next forwards items unchanged, removes a group only when exhausted and ends only when "
             "no group is left, polling every group before Pending. The multiset-union statement over all scripts is NOT decided.",
        note=TB + "Leans on C02 R2.4 and C01 R1.6/R1.7 (re-evaluated in this check)."),
    "C12": dict(
        technique="token-accounting over the resolved call graph: who-may-poll-a-child table, enqueue-site dominance by the flag transition, who-may-mark table, flag-clear who-may table",
        text="Decides in full at the structural level the three steps of the token argument: child polls only behind a dequeue of that slot "
             "(no poll-all iteration), enqueues only on the false->true flag transition from exactly {push, from_iter, merge re-arm, wake}, "
             "flag cleared only by the dequeue. The inequality polls <= pushes + wakes (+ merge items) is their sum.",
        note=TB + "Assumes cordyceps delivers each enqueued node exactly once."),
    "C13": dict(
        technique="natural-loop analysis (budget counter / constant bound / exit-with-self-wake) + path-sensitive cursor-advance rule in the group loops",
        text="Decides that every loop containing a child poll is budgeted by a constant and exits through a task self-wake, that the merge's "
             "re-drain loop only repeats after removing a source, and that the unbounded variants advance their group cursor after every "
             "inner poll that did not remove the group (two known findings: not advanced after a yield). FIFO of the ready queue is "
             "cordyceps' (trusted); the numeric bound is not decided.",
        note=TB + "Known findings D4 (x2) are listed in known_findings.json."),
    "C14": dict(
        technique="who-may-wake-the-task table over all Waker::wake* / DiatomicWaker::notify call sites with dominance licences; def-use audit of Context::waker results; type audit for stored wakers",
        text="Decides that the task waker is invoked only at the two licensed self-wake sites (budget exhausted, queue inconsistent), that "
             "notify happens only on the not-queued->queued transition, that push/re-arm never notify, and that the task waker is neither "
             "stored nor cloned by the crate. The '(held + 2) polls' figure is not decided.",
        note=TB),
    "C15": dict(
        technique="parameter-taint analysis for capacity-derived subtraction over the constructor call closure + observer data/control-dependence sets with sibling cross-check + refusal-path side-effect audit",
        text="Decides that no constructor (transitively) subtracts from the capacity unguarded (capacity 0/1 construct), that a refused push "
             "has no side effect (slot map all-or-none, no closure call, forwarders without own effects, panic only after refusal), that "
             "len/is_empty/is_terminated of each collection read the same counting state (ordered: running+parked exactly), and that the "
             "slot map refuses only when the free-list head indexes no slot. Observer values over all histories are NOT decided.",
        note=TB + "Genuine defect D5 found by R15.1 was repaired (fix: e56d99d)."),
    "C18": dict(
        technique="may-allocate effect analysis over the resolved crate call graph with a frozen table of allocating core/alloc entry points; dominance of growth sites; must-pass-through of group retention",
        text="Decides that no post-construction function of the bounded family reaches an allocating callee, that the unbounded collections "
             "allocate only behind 'no group yet' / 'last group refused' with geometric (x>=2) capacities, re-push only the removed group in "
             "poll_next, retain the last/only group, and that the ordered poll_next allocate only through BinaryHeap::push. The logarithmic "
             "bound itself is not decided.",
        note=TB + "User code (children, closures, task waker) is outside the crate by the property's own observation rule."),
}

SHARED = {
    "C02": " Also evaluates the necessary conditions this property rests on from other rule sets: the wake/poll handshake (C01 R1.1-R1.8), Occupied-only polling (C05 R5.1), ordered index discipline and in-turn yield (C04 R4.1/R4.2), side-effect-free refusal (C15 R15.2), free-list initialisation (R2.7).",
    "C01": " Added (rounds 2-3): the index POP reports is the slot position (C03 R3.5 evaluated here, index field of full usize width); every enqueue in the crate is flag-guarded (R1.2); group turn order survives removals, put-back only of the last/only group, cursor moved off a group that was put back (R1.7). Added (round 5): Pending after a full pass is decided per arrival (through joins of inlined helpers), `0..=len-1` passes, retained-tail idiom, flag clears located in the drain itself when its helper is read through. Added (round 6): where the order of cursor events is inconclusive, 'the iteration after None moves on' is decided by walking the path over every small (number of groups, cursor) start state; helpers that branch on a constant enum argument are folded per call site.",
    "C02": " Added (round 3): min-heap order of the parked outputs on the unsigned index (C04 R4.4) is evaluated here. Added (round 5): the slot map's insert/remove are decided over a linked free list (LIFO or FIFO), bookkeeping fields must be usize (R2.2), Ready(None) also where the only, exhausted group is kept in place, the remaining-counter rule runs on variant-sensitive paths. Added (round 6): the explicit-loop form of 'every group is empty' is recognised per path (complete traversal of the whole vector, every element crossed the true edge of its own is_empty); the collection's own is_empty() observer is followed; drops behind a join are decided per path (moved out / payload-free). Added (round 7): no `&mut` borrow of the slot map's counter / free-list head may escape into a value or a callee (an unwind guard stepping the counter from its destructor) -- R2.3 bookkeeping-borrow-does-not-escape.",
    "C08": " Added (round 5): every reference obtained by Pin::get_unchecked_mut / into_inner_unchecked from a pinned place that holds a type parameter inline (adapters' upstream Option, a wrapper's child) is audited like a slot reference (R8.2): Option::take / mem::replace / moves out of it are reported.",
    "C03": " Added (round 4): the decrement is the owner's last touch of the block (R3.11). Added: lock discipline of the per-slot flag (R3.9), slot-map/waker-list capacity agreement and MARK index provenance (R3.8), plain (non-atomic) writes / &mut borrows / ptr::replace-style primitives on the shared block only in the constructor and the freeing function (R3.10), compile_fail witnesses (E3) in the quick tier. Added (round 5): reference counting per vtable entry is sensitive to the constant a shared helper is called with; a lock guard of the shared block released after the reference was given up is a touch of freed memory (R3.11); the guard is followed into a struct that wraps it (R3.9). Added (round 6): R3.5(e) -- the byte offset between header and items is evaluated in a 16-bit wrapping model for every header size 0..=96 and alignment <= 128 and must equal size_of::<Header>() rounded up to align_of::<Item>() (what Layout::extend places); helpers around the primitives that only construct them, that apply a callable they were given, or that branch on a parameter's variant are read at their call sites; MARK-ALL primitives are recognised by role.",
    "C05": " The slot-map semantics that make 'vacated' mean 'dropped in place and invisible to the accessor' (C02 R2.3) are evaluated in this check. Added (round 5): per-arrival form of 'child poll behind the dequeue' and of `set(None)` after the upstream ended; a caller that consumes (i, x) itself need not return it. Added (round 6): the accessor's answer may be the verdict of an inlined helper / an expanded combinator taking a function item (`get_slot(key).and_then(Slot::project)`): decided per return path.",
    "C04": " Added (round 4): who may number (R4.7). Added: completeness of the live-task enumeration used by the re-base (R4.3b). Added (round 5): the re-base guard is decided by its meaning in an 8-bit model of usize (holds wherever the live window may wrap; the re-based window is contiguous); position counters may live in a nested private struct; numbering through a captured closure is read through (closure specialisation). Added (round 6): reserve-then-roll-back numbering (step, ask the queue, inverse step on refusal) is accepted when every path through the undo returns Err and carries exactly [step, inverse] of a Wrapping counter; flat_map enumeration also through a helper's generic next.",
    "C06": " Added: exhaustive, vacancy-guarded release loops (R6.6), no path of a buffer struct's Drop impl avoids the release loop except on buffer emptiness or needs_drop::<element type>() == false (R6.7); shared: vacate<=>Ready (C02 R2.1/R2.3), waker allocation freed exactly once (C03 R3.1/R3.4). Added (round 5): Vec::from_raw_parts re-owning a pointer that Box::into_raw disowned in the same function; index-loop form of the whole-buffer release; output buffer inside a private wrapper struct; stored user closures are not children. Added (round 6): R6.6 every-vacant-entry-but-the-excluded-one-is-released -- an iteration of the release loop that does not reach the release has crossed 'slot occupied', an equality of the index with a loop-independent value, or needs_drop == false (an ordering test skips written entries).",
    "C07": " Added: the slot map's FromIterator builds a full map -- every element Occupied, counter = len(storage) -- so capacity() == number of inputs (R7.6); who-may-vacate (C02 R2.2) so that unwind guards or other code cannot vacate a slot without an output; direct-drain forms of poll are handled. Added (round 5): Vec::from_raw_parts(ptr, len, cap) over the taken buffer must use that buffer's own length for both (R7.2); cancellation of the remaining futures only after the buffer was given up (R2.2); bookkeeping width (R2.2). Added (round 6): the safety direction of C06 R6.6 (every release guarded by the vacancy of the same index) is evaluated here -- a destructor run on an unwritten entry is a value no input produced; type parameters named at the call (`poll_settled::<F, KeepAll>`) are bound when a generic helper is read through.",
    "C09": " Added: the limit reaches the slot storage unchanged through every constructor on the way (R9.4, with C02 R2.7). Guard semantics are decided by a finite-grid entailment on the closed form of the fill guard (pull ==> running < capacity; no pull ==> running(+parked) >= capacity), with the exact-shape rule as fallback; the assume-guarantee links (C02 R2.1/R2.4, C15 R15.3/R15.4) are evaluated in this check. Added (round 5): guards kept in a variable (re-evaluated after each push), follower fields of the upstream Option, constants carried through aggregates are folded along each path (never arithmetic results), tail-forwarded inner polls, calls through a crate-private trait are devirtualised when the generic helper is inlined. Added (round 6): C02 R2.3 is kept as a shared link (the fill guard reads the slot map's counter; a slot that drops out of the free list while the counter goes down makes the guard admit a pull the insert refuses). Added (round 7): R9.2 / R9.3 run over every function that pulls from the upstream and answers a Poll (a `poll_progress` added next to poll_next), with the queue's own drive methods (Poll<()>, Ready only under the collection poll's Ready(None)) as inner-poll events.",
    "C10": " Added (round 4): termination observers defined on the adapter structs (FusedStream or inherent) must read the upstream and the whole queue incl. parked outputs (R10.6). Added: the upstream is given up (set(None)) only directly after it returned Ready(None); adapter constructors and the capacity chain (C09 R9.1/R9.4) are evaluated here because a clamped or zero capacity stalls the adapter. The assume-guarantee links (C02 R2.1/R2.4, C15 R15.3/R15.4) are evaluated in this check. Added (round 5): per-path return classification of the adapter model, tail-forwarded inner polls, follower fields. Added (round 6): the refusal direction of C09 R9.2 is evaluated here (it is the assumption under which the path model reads a refusing guard as 'saturated'); an upstream item moved out before its variant is inspected is an upstream error when the path finds it Err; returned errors are peeled along the path to the upstream poll's own error. Added (round 7): C04 R4.1 / R4.7 are evaluated here (an accepted future whose index never comes into turn is an upstream item that is pulled but never delivered); a probe of the upstream kept in a flag speaks about the moment it was evaluated (a stale `upstream_done` is reported by R10.4).",
    "C11": " Added (round 3): an exhausted group is removed order-preservingly and put back only if it was the last or the only one (R1.7); every enqueue in the crate, including the owner-side marking primitive, is guarded by the flag (R1.2). Also evaluates the wake/poll handshake (C01), Occupied-only polling (C05 R5.1), slot-map all-or-none (C02 R2.3), and that the unbounded push inserts exactly once on every path. Added (round 5): R11.3 -- MergeUnbounded answers Pending only if some group answered Pending in this call or a test that every group is empty (other outcome Ready(None)) was crossed after the last poll; found defect D8 (repaired, fix: 586a86a). Added (round 6): a Pending path that left an explicit whole-vector emptiness traversal early has seen a non-empty group (R11.3). Added (round 7): C06 R6.5 (no live drop of a value owning a source outside Drop) is evaluated here for the functions of the merge types.",
    "C12": " Added: every Waker::wake* call in the crate is on the caller's task waker (the crate never invokes a child slot waker itself). Added (round 5): thin forwarders of the marking primitive are read through (their caller carries the role).",
    "C13": " Added (round 3): budget sanity ceiling (<= 65536 child polls per call); the group-turn rules of C01 R1.7 are evaluated here. Service order within a group: children are polled only when their own entry is dequeued (C05 R5.1) and a merged stream that yielded is re-queued at the tail (C01 R1.6) -- both evaluated here. The budget cell may count up or down, directly or through a &mut borrow of it (helper inlined); exhaustion must lead, on every feasible path, out of the loop through a self-wake to a Pending return. The budget must admit at least one child poll; every loop cycle that polls a child passes the increment and the comparison. Added (round 5): R13.3 -- a dequeued slot is polled or found vacant before the next dequeue / return (never re-queued unpolled); budgets written as `let Some(rest) = budget.checked_sub(1) else {..}`; the two D4 findings are repaired (fix: 8d6672b) and no longer listed. Added (round 6): event paths that contradict a constant / variant they carry themselves are dropped. Added (round 7): R13.4 who may move the round-robin cursor -- outside poll_next and the constructors only a store that leaves at most one group behind or moves the old cursor down (following groups removed in front of it).",
    "C14": " Added (round 4): who may vacate a slot (C02 R2.2) is evaluated here. Added: no spurious queue entries (R14.4): every enqueue in the crate only on the flag's false->true transition, and marking loops only over occupied slots (a full map built by FromIterator, C07 R7.6); the budget licence of a self-wake is decided with C13's budget-cell analysis. Added (round 5): the licence 'a dequeued child was polled' requires a child poll between that dequeue and the self-wake (a stale entry licenses nothing); a transient enum carrying the borrowed child waker out of a helper is not a stored waker. Added (round 6): every edge on which the budget cell tests as exhausted licenses the self-wake. Added (round 7): R14.5 -- a function that vacates slots wholesale through a slot-map method other than REMOVE must empty the ready queue itself (or consume the collection); otherwise every stale entry burns budget and self-wakes.",
    "C15": " Added (round 4): every function named len / is_empty / is_terminated on the collection types (inherent or from any trait) is an observer; who may vacate (C02 R2.2). Added (round 3): size_hint is the fourth observer (C17 R17.3 evaluated here). Added: try-push forwarders have no side effects of their own (R15.2), every group of an unbounded collection has capacity >= 1 (R15.5). Added (round 5): len() of an ordered collection may be the wrapping distance of its position counters (then the index discipline R4.1-R4.3 is evaluated here too); group capacities evaluated per path. Added (round 6): refusal is side-effect free also when the forwarder reserves and rolls back: every refusing return path carries no effect or exactly a Wrapping step followed by its inverse (R15.2). Added (round 7): R15.5 also covers adopted groups (a bounded collection received by value and moved whole into the groups of an unbounded one needs a dominating capacity() >= 1 test).",
    "C16": " Added (round 4): the guard rules cover every function that polls an upstream (not only poll_next); out-of-turn outputs are held only in the counted heap (C02 R2.5). The guard is decided by finite-grid entailment (a pull is admitted only when running + parked < capacity) with the exact-shape rule as fallback; C15 R15.3 (len = running + parked) is evaluated in this check. Added (round 5): a guard kept in a variable must be the same formula at every definition and be re-evaluated after every push; counter-window form of len(). Added (round 7): C02 R2.3 (incl. the bookkeeping-borrow rule) is kept as a shared link: `running` in the guard is the slot map's counter.",
    "C18": " Added (round 4): every function of the unbounded types that appends a freshly built group obeys the growth discipline (not only push); a group leaves the vector only where its own poll reported Ready(None) (shared with C11). Added (round 5): the last group may be retained by not removing it (edge conditions over (number of groups, cursor) decided on a grid); fresh-group capacities evaluated per path. Added (round 6): an allocating site may sit behind a join (`if let Some(next) = place_or_grow(..)`): every constant-feasible arrival has crossed 'no group yet' or 'last group refused'. Added (round 7): R18.5 who may shrink the groups vector -- the vector operations of every loop-free path of a non-poll_next function are replayed on 2..4 group identities; reported where the last (largest) group is gone.",
    "C17": " Added (round 3): the index discipline of the ordered collections (C04 R4.1) is evaluated here -- a lost item falsifies the lower bound. Handles match, Option::and_then and map/unwrap_or forms of the bound computation; C15 R15.3 is evaluated in this check. Added (round 5): a merge may override size_hint only with a per-path true bound (None; Some(0) where no source is held; checked sum over every source's hint); helper methods of the collections (buffered_size_hint) are read through. Added (round 6): C04 R4.3 (re-base keeps the live window contiguous) is evaluated here next to R4.1.",
}

NOT_APPLICABLE = {}

PENDING = {}


def main():
    checks = []
    for pid in sorted(CLAIMS):
        c = CLAIMS[pid]
        checks.append({
            "property_id": pid,
            "quick_cmd": "./check %s --tier quick" % pid,
            "thorough_cmd": "./check %s --tier thorough" % pid,
            "evidence_file": "/verif/evidence/%s.json" % pid,
            "replay_cmd_template": "./check %s --replay {path}" % pid,
            "engine": "fbfacts+rules",
            "level_claimed": {"category": "other", "text": c["text"] + SHARED.get(pid, ""), "design_ref": "DESIGN.md §4 " + pid + ", §11, §12"},
            "level_note": c["note"],
            "technique": c["technique"],
        })
    props = [json.loads(l)["id"] for l in open(os.path.join(VERIF, "properties.jsonl"))]
    na = []
    for pid in props:
        if pid in CLAIMS:
            continue
        reason = NOT_APPLICABLE.get(pid) or PENDING.get(pid) or \
            "static rule set for this property is not built yet in this tree (see DESIGN.md §4 for the planned rules); no claim is made"
        na.append({"property_id": pid, "reason": reason})
    man = {
        "version": 1,
        "setup_cmd": "cd /verif/engine/fbfacts && CARGO_NET_OFFLINE=true cargo +nightly build --offline",
        "hooks": {
            "guard": "futures_buffered_verif",
            "enable": "none needed: static analysis reads /repo's working tree as it is (no instrumentation, no cfg-guarded hook was added)",
            "baseline_off_cmd": "cd /repo && cargo test --workspace --no-fail-fast --offline --lib --tests",
            "source_commits": [],
            "add_only": True,
        },
        "engines": [
            {"name": "fbfacts", "path": "/verif/engine/fbfacts", "serves_properties": sorted(CLAIMS),
             "kind_free_text": "rustc_private driver (nightly) injected as RUSTC_WORKSPACE_WRAPPER under cargo check: dumps items, "
                               "impls and MIR with resolved callees of /repo's working tree as JSON facts"},
            {"name": "rules", "path": "/verif/engine/rules", "serves_properties": sorted(CLAIMS),
             "kind_free_text": "Python rule layer: CFG/dominators/loops, value provenance, variant-edge facts, drop-flag pruning, "
                               "who-may tables; one module per property (cXX.py); mutants.py = sensitivity corpus runner"},
        ],
        "checks": checks,
        "not_applicable": na,
        "notes": "Technique family: static analysis only. Every check re-extracts facts from /repo's current working tree on every "
                 "run (fresh cargo target dir), never executes crate code. Genuine defects found: see known_findings.json and DESIGN.md §5.",
    }
    with open(os.path.join(VERIF, "MANIFEST.json"), "w") as fh:
        json.dump(man, fh, indent=1)
    print("MANIFEST.json: %d checks, %d not_applicable" % (len(checks), len(na)))


if __name__ == "__main__":
    main()
