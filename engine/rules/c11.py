"""C11 -- merge yields the union of its sources, each in its own order (structural part)."""
import re

from lib_facts import place_str, fn_name
from lib_flow import (strip_refs, expr_calls, expr_str, variant_facts, blocks_with, first_entries, flag_search, must_pass_flags)
from lib_inter import returned_exprs
from lib_drops import live_drops
from roles import roles, direct_sites, callee_body, RE_STREAM_POLL_NEXT
from c01 import _site_label, d_loc, group_loop_fns
import c01
import c02
import c05

EXPLANATION = (
    "Static decision of: R11.1 in the bounded merge's poll_next (the only function that polls sources): on the drained "
    "(i, Some(x)) path x is exactly the returned item, the slot i is re-armed (C01 R1.6) and not removed, and the function "
    "returns without draining again (at most one item per call, so a source is polled again only after its previous item "
    "left: per-source order); on (i, None) the source i is removed (C05 R5.2) and the loop continues; Pending / Ready(None) "
    "are constructed only where the drain returned Pending / Ready(None) (None iff no source left by C02 R2.4); no live "
    "normal-path drop of an item; R11.2 the unbounded merge's push only appends (to the last group or a fresh group pushed "
    "at the end) and never removes / reorders groups; its poll_next forwards Some(x) of the inner group unchanged, removes a "
    "group only where that group's poll returned Ready(None) (an exhausted, hence empty, group) and returns Ready(None) "
    "only behind groups.is_empty(). Shared: C01 R1.7 (all groups polled before Pending). NOT decided: the multiset-union "
    "statement over all scripts.")
ASSUMPTIONS = [
    "inner drain: Ready(None) iff the slot map is empty (C02 R2.4)",
    "sources obey the Stream contract",
]

ITEM = lambda t: t["k"] == "alias" and re.search(r"Stream::Item$", t["name"]) is not None


def r11_1(ctx, R):
    ctx.rule("R11.1", "bounded merge: item path returns exactly the drained payload after re-arming slot i, without removal "
                      "and without another drain; None path removes i; Pending/None constructed only under the drain's "
                      "Pending/None facts; no live drop of an item")
    c01.r1_6(ctx, R)
    ctx.rule("R1.6", "see C01 R1.6 (shared)")
    c05.r5_2(ctx, R, only_in=c02.COLLECTIONS)
    ctx.rule("R5.2", "see C05 R5.2 (shared)")
    ctx.rule("R2.1", "see C02 R2.1 (shared, evaluated as part of R5.2)")
    n = 0
    for b, (dbb, dt, dfn) in c02.future_drain_callers(ctx, R, RE_STREAM_POLL_NEXT):
        n += 1
        fl = ctx.flow(b)
        vf = variant_facts(b, fl)
        dest = place_str(dt["dest"])
        inner = "((%s as Ready).0 as Some).0.1" % dest
        some_r = blocks_with(vf, [(dest, "Ready"), ("(%s as Ready).0" % dest, "Some"), (inner, "Some")])
        ents = first_entries(b, fl, dbb, some_r)
        # returns at most one item per call: from the item region no path reaches the drain call again
        redrain = False
        for e in ents:
            visited, hits = flag_search(b, fl, e, stop={dbb})
            if dbb in hits:
                redrain = True
        ctx.ob("R11.1", b, "at-most-one-item-per-call", bool(ents) and not redrain, b.loc(dbb), "item-region entries %s" % sorted(ents))
        for rb, e in returned_exprs(ctx, b):
            if e[0] == "agg" and e[1].endswith("Poll::Ready") and e[2][0][0] == "agg" and e[2][0][1].endswith("Option::Some"):
                v = e[2][0][2][0]
                ok = v[0] == "proj" and v[1][0] == "call" and v[1][3] == dbb and v[2] == ("@Ready", ".0", "@Some", ".0", ".1", "@Some", ".0") and rb in some_r | _after(b, some_r)
                ctx.ob("R11.1", b, "returned-item-is-drained-payload", ok, b.loc(rb), expr_str(v))
            elif e[0] == "agg" and e[1].endswith("Poll::Ready") and e[2][0][0] == "agg" and e[2][0][1].endswith("Option::None"):
                fs = vf.get(rb, frozenset())
                ok = (dest, "Ready") in fs and ("(%s as Ready).0" % dest, "None") in fs
                if not ok:
                    ok = _arrivals_know(b, fl, rb, {dest: "Ready", "(%s as Ready).0" % dest: "None"})
                ctx.ob("R11.1", b, "none-only-forwarded", ok, b.loc(rb), str(sorted(fs)))
            elif e[0] == "agg" and e[1].endswith("Poll::Pending"):
                fs = vf.get(rb, frozenset())
                ok = (dest, "Pending") in fs or _arrivals_know(b, fl, rb, {dest: "Pending"})
                ctx.ob("R11.1", b, "pending-only-forwarded", ok, b.loc(rb), str(sorted(fs)))
            else:
                ctx.ob("R11.1", b, "unexpected-return-value", False, b.loc(rb), expr_str(e))
        lds = live_drops(ctx, b, ITEM)
        ctx.ob("R11.1", b, "no-live-item-drop", not lds, d_loc(b), "; ".join(place_str(p) for _, p, _ in lds if p))
    ctx.floor("R11.1", "bounded-merge-poll_next", n, 1)


def _after(b, region):
    out = set()
    for r in region:
        out |= b.reachable(r)
    return out


GROUP_VEC_OK = r"core::slice::<impl \[T\]>::last_mut$|alloc::vec::Vec::<T, A>::push$|DerefMut>::deref_mut$|Deref>::deref$|" \
               r"alloc::vec::Vec::<T, A>::(len|is_empty|last|iter|as_slice)$|core::slice::<impl \[T\]>::(iter|len|last)$"


def r11_2(ctx, R):
    ctx.rule("R11.2", "unbounded merge: push uses the groups vector only through last_mut / push (append-only, sources "
                      "never migrate); poll_next forwards the inner Some(x) unchanged, calls Vec::remove only under that "
                      "group's Ready(None) fact; Ready(None) only behind groups.is_empty() (C02 R2.4 instance)")
    n = 0
    for b in ctx.facts.fn_bodies():
        if not re.search(r"^merge_unbounded::MergeUnbounded::<\w+>::push$", b.path):
            continue
        n += 1
        fl = ctx.flow(b)
        bad = []
        for bb, t, fn in b.calls():
            if fn is None or b.is_cleanup(bb) or not t["args"]:
                continue
            a0 = strip_refs(fl.operand_expr(t["args"][0]))
            on_groups = a0[0] == "proj" and a0[2][-1] == ".groups"
            if not on_groups and a0[0] == "call" and re.search(r"deref_mut$", a0[1] or ""):
                inner = strip_refs(a0[2][0])
                on_groups = inner[0] == "proj" and inner[2][-1] == ".groups"
            if on_groups and not re.search(GROUP_VEC_OK, fn_name(fn) or ""):
                bad.append("%s at %s" % (fn_name(fn), b.loc(bb)))
        ctx.ob("R11.2", b, "push-is-append-only", not bad, d_loc(b), "; ".join(bad))
        # every push is accepted: exactly one successful insertion on every return path (no silently dropped source)
        pins = c02.push_path_insertions(ctx, b)
        badp = [(p, k) for p, k in pins if k != 1]
        ctx.ob("R11.2", b, "push-inserts-exactly-once-on-every-path", bool(pins) and not badp, d_loc(b),
               "%d return paths; insertion counts of the bad ones: %s" % (len(pins), [k for _, k in badp[:4]]), path=badp[0][0] if badp else None)
        lds = live_drops(ctx, b, lambda t: t["k"] == "param" and not t["name"].startswith("impl "))
        ctx.ob("R11.2", b, "push-drops-no-source", not lds, d_loc(b), "; ".join("%s at %s" % (place_str(p), b.loc(bb)) for bb, p, how in lds))
        # pushing a new group: the stream goes into that fresh group before it is appended
        pushes = [(bb, t) for bb, t, fn in direct_sites(b, r"alloc::vec::Vec::<.*>::push$")]
        ctx.ob("R11.2", b, "appends-groups-at-the-end", len(pushes) >= 1, d_loc(b), "%d Vec::push sites" % len(pushes))
    ctx.floor("R11.2", "unbounded-merge-push", n, 1)
    for b in group_loop_fns(ctx):
        if "merge_unbounded" not in b.path:
            continue
        fl = ctx.flow(b)
        vf = variant_facts(b, fl)
        inner = [(bb, t) for bb, t, fn in b.calls() if fn and not b.is_cleanup(bb)
                 and re.search(RE_STREAM_POLL_NEXT, fn["def"]) and callee_body(ctx.facts, fn) is not None]
        for ibb, it in inner:
            dest = place_str(it["dest"])
            for rb, e in returned_exprs(ctx, b):
                if e[0] == "agg" and e[1].endswith("Poll::Ready") and e[2][0][0] == "agg" and e[2][0][1].endswith("Option::Some"):
                    v = e[2][0][2][0]
                    ok = v[0] == "proj" and v[1][0] == "call" and v[1][3] == ibb and v[2] == ("@Ready", ".0", "@Some", ".0")
                    ctx.ob("R11.2", b, "forwards-inner-item-unchanged", ok, b.loc(rb), expr_str(v))
    group_removal_rule(ctx, R, "R11.2", only="merge_unbounded")
    c02.r2_4(ctx, R, c02.r2_3(ctx, R)["INSERT"][0])
    ctx.obs = [o for o in ctx.obs if not o.rule.startswith("R2.3")]
    ctx.rule_texts.pop("R2.3", None)
    ctx.rule("R2.4", "see C02 R2.4 (shared): Ready(None) only behind emptiness")
    c01.r1_7(ctx, R)
    ctx.rule("R1.7", "see C01 R1.7 (shared): every group polled with the caller's cx before Pending")


def _arrivals_know(b, fl, rb, req):
    """On every constant-feasible arrival at rb the path knowledge contains all of `req` (the drain's answer is carried to this
    return through the verdict enum of an inlined helper)."""
    from lib_flow import arrival_knowledge
    try:
        ak = arrival_knowledge(b, fl, rb, const_feasible=True)
    except RuntimeError:
        return False
    return bool(ak) and all(all(k_.get(p_) == v_ for p_, v_ in req.items()) for k_ in ak)


def group_removal_rule(ctx, R, rid, only=None):
    """A group leaves the vector of an unbounded collection only where its own poll has just reported Ready(None) -- never
    before it is polled, never while it may still hold children (shared by C11 and C18)."""
    n = 0
    for b in group_loop_fns(ctx):
        if only and only not in b.path:
            continue
        fl = ctx.flow(b)
        vf = variant_facts(b, fl)
        inner = [(bb, t) for bb, t, fn in b.calls() if fn and not b.is_cleanup(bb)
                 and re.search(RE_STREAM_POLL_NEXT, fn["def"]) and callee_body(ctx.facts, fn) is not None]
        for ibb, it in inner:
            dest = place_str(it["dest"])
            for rbb, rt, rfn in direct_sites(b, r"alloc::vec::Vec::<.*>::(remove|swap_remove|pop|truncate|clear|drain)$"):
                n += 1
                fs = vf.get(rbb, frozenset())
                ok = (dest, "Ready") in fs and ("(%s as Ready).0" % dest, "None") in fs and rfn["def"].endswith("::remove")
                ctx.ob(rid, b, "group-removed-only-when-exhausted@%s" % _site_label(b, rbb), ok, b.loc(rbb), str(sorted(fs)))
    return n


def _left_emptiness_traversal(ctx, b, fl, path):
    """The path stepped through the plain iterator over the whole groups vector and left it where a crate `is_empty` of the
    element answered false: it has seen a group that still holds a source."""
    for a_, b_ in zip(path, path[1:]):
        for lab in fl.edge_labels(a_).get(b_, []):
            if lab[0] == "bool" and lab[2] is False and lab[1][0] == "call" and (lab[1][1] or "") in ctx.facts.bodies \
                    and re.search(r"::is_empty$", lab[1][1]) and lab[1][2]:
                base = strip_refs(lab[1][2][0])
                while base[0] == "proj" and not (base[2][:2] == ("@Some", ".0") and base[1][0] == "call"
                                                 and re.search(r"core::iter::Iterator>?::next$", base[1][1] or "")):
                    base = strip_refs(base[1])
                if base[0] != "proj":
                    continue
                nx = base[1]
                it = strip_refs(nx[2][0])
                if c02.plain_whole_iter(it):
                    return True
    return False


def r11_3(ctx, R):
    ctx.rule("R11.3", "the unbounded merge answers Pending only while some source is pending: on every feasible path of "
                      "MergeUnbounded::poll_next that returns Pending, a group polled in this call answered Pending -- or the path has "
                      "crossed a test of the groups' emptiness whose other outcome returns Ready(None).  (A source can end without "
                      "yielding, so several groups can run dry in one pass; a pass that removed / retained only exhausted groups "
                      "must end the stream, not park the task with nothing registered.)")
    from groups import cursor_events
    from c01 import group_loop_fns
    n = 0
    for b in group_loop_fns(ctx):
        if not re.search(r"^<merge_\w+::", b.path):
            continue
        n += 1
        ce = cursor_events(ctx, R, b)
        if ce is None:
            ctx.ob("R11.3", b, "pending-only-while-a-source-is-pending", False, d_loc(b), "cannot identify the group loop")
            continue
        fl = ctx.flow(b)

        def emptiness_test_crossed(path):
            """an edge of a switch on an emptiness observer of the groups (is_empty / all(is_empty) / len == 0) is crossed"""
            for a_, b_ in zip(path, path[1:]):
                for lab in fl.edge_labels(a_).get(b_, []):
                    if lab[0] != "bool":
                        continue
                    x = lab[1]
                    names = [c[1] or "" for c in expr_calls(x)] + ([x[1] or ""] if x[0] == "call" else [])
                    # a test over the SOURCES held (every group empty of streams), not over the vector of groups: the vector keeps
                    # its last group even when that group holds nothing
                    own = re.match(r"^<([\w:]+)<", b.path).group(1)
                    if c02.all_groups_empty_test(ctx, b, x) is not None:
                        return True
                    if any(n_ in ctx.facts.bodies and n_.startswith(own + "::") and re.search(r"::(is_empty|len)$", n_) for n_ in names):
                        return True
            return False
        bad = None
        npend = 0
        for path, ev in ce[1]:
            if not ev or ev[-1][0] != "RET" or ev[-1][1] != "Pending":
                continue
            npend += 1
            polls = [e for e in ev if e[0] == "P"]
            if any(e[1] == "Pending" for e in polls):
                continue
            if not polls:
                continue          # nothing was polled: the path is the loop falling through with no iteration (len == 0 is excluded earlier)
            last_p = max(e[2] for e in polls)
            if emptiness_test_crossed(path[last_p:]):
                continue
            # the explicit-loop form of the test: the path left a whole-groups traversal early (some group is not empty)
            # while the traversal's completion returns Ready(None)
            if _left_emptiness_traversal(ctx, b, fl, path[last_p:]):
                continue
            bad = (path, [(e[0], e[1]) for e in ev])
            break
        ctx.ob("R11.3", b, "pending-only-while-a-source-is-pending", bad is None and npend > 0, d_loc(b),
               "%d Pending paths; %s" % (npend, "all justified" if bad is None else "unjustified: %s" % (bad[1],)), path=bad[0] if bad else None)
    ctx.floor("R11.3", "unbounded-merge-poll_next", n, 1)


def run(ctx):
    R = roles(ctx)
    R.pop_fn, R.drain_fn, R.mark_fn, R.remove_fn
    r11_1(ctx, R)
    r11_2(ctx, R)
    r11_3(ctx, R)
    # a source that is dropped while it may still hold items never yields them: the stray-drop rule of C06, for the merge types
    import c06
    before = len(ctx.obs)
    c06.r6_5(ctx, R)
    ctx.obs = ctx.obs[:before] + [o for o in ctx.obs[before:] if "merge_" in str(o.fn) or o.label.startswith("floor:")]
    ctx.rule("R6.5", "see C06 R6.5 (shared, functions of the merge types): outside Drop impls no live drop of a value owning a source, "
                     "except an exhausted group where its poll reported Ready(None)")
    for fn_ in (c01.r1_1, c01.r1_2, c01.r1_3, c01.r1_4, c01.r1_5, c01.r1_8):
        fn_(ctx, R)
    ctx.rule("R1.x", "see C01 (shared): wake/poll handshake -- a source whose wake-up is lost never yields its remaining items")
    c05.r5_1(ctx, R)
    ctx.rule("R5.1", "see C05 R5.1 (shared): only the Occupied slot of the popped index is polled")
    c02.r2_3(ctx, R)
    ctx.rule("R2.3", "see C02 R2.3 (shared): slot-map insert/remove all-or-none")
