"""C10 -- adapters consume upstream once, in order, fused, and end exactly when done."""
import re

from lib_facts import place_str, fn_name
from lib_flow import strip_refs, expr_calls, expr_str
from lib_inter import deep_leaves, returned_exprs
from lib_drops import live_drops
from roles import roles, direct_sites, callee_body, RE_STREAM_POLL_NEXT
from c01 import _site_label, d_loc
from adapters import adapter_fns, AdapterModel, simulate, ev_str
import c05

EXPLANATION = (
    "Path-sensitive static decision over the event sequences of every feasible path of the five adapter poll functions "
    "(see C09) plus provenance checks: R10.1 fused typestate: the upstream is polled only through the Some arm of "
    "Option::as_pin_mut, never in abstract state stream=None, and every Ready(None) is followed by set(None) before any "
    "further upstream poll or return; R10.2 every pulled item reaches exactly one insertion before the next upstream poll, "
    "inner poll or return, the inserted value is (the closure applied to) that very item, every insertion is of a freshly "
    "pulled item, and no item-typed value is dropped on a normal path; R10.3 an upstream error returns immediately as the "
    "residual of that poll's Break payload with no insertion, no set(None) and no inner poll in between; R10.4 "
    "Ready(None)/completion is returned only in abstract state inner=None and stream=None, and Pending is never returned in "
    "that state; R10.5 documented limit semantics: for_each_concurrent documents limit 0 as 'no limit'; re-running the "
    "abstract replay without the n>=1 assumption must not admit a path that returns Pending with the upstream present, "
    "never polled in this call, and nothing in flight. NOT decided: exact multiset equality over all upstream scripts.")
ASSUMPTIONS = [
    "inner collection: Ready(None) iff empty (C02 R2.4)",
    "loops unrolled to 3 visits per block",
    "R10.1-R10.4 under n >= 1; R10.5 covers limit 0 for the adapter whose documentation defines it",
]


def r10_1(ctx, R, ms):
    ctx.rule("R10.1", "fused: no upstream poll in abstract state stream=None; U(None) is followed by SETNONE before the "
                      "next U or the return; SETNONE occurs only directly after U(None) (the upstream is never given up on any "
                      "other evidence)")
    c05.r5_4(ctx, R)
    ctx.rule("R5.4", "see C05 R5.4 (shared): upstream polled only via as_pin_mut Some arm; None => set(None) must-pass-through")
    for m in ms:
        bad = []
        n = 0
        for path, ev in m.all_event_paths(3):
            feas, st = simulate(ev)
            if not feas:
                continue
            n += 1
            if st["polled_after_none"]:
                bad.append((ev, "upstream polled after it was gone"))
            for i, e in enumerate(ev):
                if e[0] == "U" and e[1] == "None":
                    ok = False
                    for f in ev[i + 1:]:
                        if f[0] == "SETNONE":
                            ok = True
                            break
                        if f[0] in ("U", "RET"):
                            break
                    if not ok:
                        bad.append((ev, "Ready(None) from upstream not followed by set(None)"))
                # the upstream is given up only after it reported its own end (size_hint and the like are advisory)
                if e[0] == "SETNONE":
                    prev = [f for f in ev[:i] if f[0] in ("U", "SETNONE")]
                    if not (prev and prev[-1][0] == "U" and prev[-1][1] == "None"):
                        bad.append((ev, "upstream dropped (set(None)) without having returned Ready(None) in this call"))
        ctx.ob("R10.1", m.b, "fused-on-all-feasible-paths", not bad and n > 0, d_loc(m.b),
               "%d feasible paths; violating: %s" % (n, (ev_str(bad[0][0]) + " [" + bad[0][1] + "]") if bad else "-"))


def r10_2(ctx, R, ms):
    ctx.rule("R10.2", "every pulled item is pushed once: after U(Some) exactly one PUSH occurs before the next U / I / RET; "
                      "each PUSH follows a U(Some) with no PUSH in between; the pushed operand is (the closure applied to) the "
                      "Some payload of that upstream poll; no live normal-path drop of an upstream-item-typed value")
    for m in ms:
        b, fl = m.b, m.fl
        bad = []
        n = 0
        for path, ev in m.all_event_paths(3):
            feas, st = simulate(ev)
            if not feas:
                continue
            pending_item = False
            for e in ev:
                if e[0] == "U":
                    if pending_item:
                        bad.append((ev, "item pulled but not pushed before the next upstream poll"))
                    pending_item = e[1] == "Some"
                    if pending_item:
                        n += 1
                elif e[0] == "PUSH":
                    if not pending_item:
                        bad.append((ev, "push without a freshly pulled item"))
                    pending_item = False
                elif e[0] in ("I", "RET"):
                    if pending_item:
                        bad.append((ev, "item pulled but not pushed before %s" % e[0]))
                        pending_item = False
        ctx.ob("R10.2", b, "pulled-item-pushed-exactly-once", not bad and n > 0, d_loc(b),
               "%d pulled-item events; violating: %s" % (n, (ev_str(bad[0][0]) + " [" + bad[0][1] + "]") if bad else "-"))
        # provenance of the pushed value
        for pbb, how in m.pushes.items():
            t = b.term(pbb)
            ups = set(m.up_sites)

            def is_item(v):
                # direct: payload of the upstream poll (possibly through `?`)
                calls = expr_calls(v)
                if not any(c[3] in ups for c in calls):
                    return False
                if v[0] == "call" and re.search(r"FnMut::call_mut$", v[1] or ""):
                    arg = v[2][1]
                    return any(c[3] in ups for c in expr_calls(arg)) and "@Some" in repr(arg)
                return v[0] == "proj" and "@Some" in v[2]
            v = fl.operand_expr(t["args"][-1])
            from_item = is_item(v)
            if not from_item:
                # the value may reach the push through a join (the poll wrapped in a helper with an early return): decide on
                # every feasible path
                vs = m.path_exprs(pbb, t["args"][-1])
                from_item = bool(vs) and all(is_item(x) for x in vs)
                v = vs[0] if vs else v
            ctx.ob("R10.2", b, "pushed-value-is-the-pulled-item@%s" % _site_label(b, pbb), from_item, b.loc(pbb), expr_str(v))
        # the upstream's item type: the associated type of a type PARAMETER (the item of the crate's own inner queue, which an
        # inlined generic helper names `<FuturesUnorderedBounded<F> as Stream>::Item`, is an output, not an upstream item)
        def _is_up_item(t):
            if not (t["k"] == "alias" and re.search(r"Stream::Item$|TryStream::Ok$", t["name"]) is not None):
                return False
            a0 = (t.get("args") or [None])[0]
            at = ctx.facts.types.get(a0) if isinstance(a0, str) else None
            return at is None or at.get("k") in ("param", "alias")
        lds = live_drops(ctx, b, _is_up_item)
        ctx.ob("R10.2", b, "no-live-drop-of-upstream-item", not lds, d_loc(b), "; ".join(place_str(p) for _, p, _ in lds if p))


def r10_3(ctx, R, ms):
    ctx.rule("R10.3", "errors: U(Err) is immediately followed by RET(Err) (no PUSH / SETNONE / inner poll between); the "
                      "value returned is FromResidual of that poll's Break payload")
    n = 0
    for m in ms:
        b, fl = m.b, m.fl
        paths = m.all_event_paths(3)
        # a try-adapter: the upstream poll goes through `?`, or its Some(Err(_)) outcome is matched explicitly
        up_branches = {k_: v_ for k_, v_ in m.branches.items() if v_[1] in m.up_sites}     # `?` on the upstream poll's own result
        if not up_branches and not any(e[0] == "U" and e[1] == "Err" for _, ev in paths for e in ev):
            continue
        n += 1
        bad = []
        k = 0
        for path, ev in paths:
            feas, st = simulate(ev)
            if not feas:
                continue
            for i, e in enumerate(ev):
                if e[0] == "U" and e[1] == "Err":
                    k += 1
                    if not (i + 1 < len(ev) and ev[i + 1] == ("RET", "Err")):
                        bad.append(ev)
                if e[0] == "RET" and e[1] == "Err" and not (i > 0 and ev[i - 1][0] == "U" and ev[i - 1][1] == "Err"):
                    bad.append(ev)
        ctx.ob("R10.3", b, "upstream-error-returns-immediately", not bad and k > 0, d_loc(b),
               "%d error events; violating: %s" % (k, ev_str(bad[0]) if bad else "-"))
        for rb, e in returned_exprs(ctx, b):
            if e[0] == "call" and "FromResidual" in (e[1] or ""):
                src = e[2][0]
                ok = src[0] == "proj" and src[2][:2] == ("@Break", ".0") and src[1][0] == "call" and src[1][3] in m.branches
                if not ok:
                    # the residual is that of a `?` on an inlined helper's Result: along every path returning here it must
                    # unwrap to the upstream poll's own error
                    from lib_flow import PathEval
                    vs = []
                    for path, ev in paths:
                        if rb not in path or not simulate(ev)[0]:
                            continue
                        r_ = PathEval(b, path).local_expr(0)
                        if r_[0] == "call" and "FromResidual" in (r_[1] or ""):
                            vs.append(r_)
                    if vs and all(_peels_to_upstream_error(m, v) for v in vs):
                        ok, src = True, vs[0]
                ctx.ob("R10.3", b, "returned-error-is-the-upstream-residual", ok, b.loc(rb), expr_str(src)[:300])
            elif _explicit_err(e) is not None:
                src = _explicit_err(e)
                ok = _err_src_ok(m, src)
                if not ok:
                    # the error travels through an inlined helper's Result (a join): decide on every path returning here
                    from lib_flow import PathEval
                    vs = []
                    for path, ev in paths:
                        if path[-1] != rb and rb not in path:
                            continue
                        if not simulate(ev)[0]:
                            continue
                        pe = _explicit_err(PathEval(b, path).local_expr(0))
                        if pe is not None:
                            vs.append(pe)
                    if vs and all(_err_src_ok(m, v) for v in vs):
                        ok, src = True, vs[0]
                ctx.ob("R10.3", b, "returned-error-is-the-upstream-residual", ok, b.loc(rb), expr_str(src))
        # inner outputs (Result) are forwarded unchanged: covered by RET(Forward)/RET(Some) provenance in R10.4
    ctx.floor("R10.3", "try-adapters", n, 2)


def _peels_to_upstream_error(m, e, depth=0):
    """e is the upstream poll's own error, possibly re-wrapped on the way: from_residual(x), branch(x)@Break.0, Err{x}, x@Err.0."""
    if depth > 8:
        return False
    if e[0] == "ref":
        return _peels_to_upstream_error(m, e[1], depth + 1)
    if e[0] == "call" and "FromResidual" in (e[1] or "") and e[2]:
        return _peels_to_upstream_error(m, e[2][0], depth + 1)
    if e[0] == "call" and re.search(r"Try>::branch$", e[1] or "") and e[2]:
        return _peels_to_upstream_error(m, e[2][0], depth + 1)
    if e[0] == "agg" and e[1].endswith("Result::Err") and e[2]:
        return _peels_to_upstream_error(m, e[2][0], depth + 1)
    if e[0] == "proj":
        if e[1][0] == "call" and e[1][3] in m.up_sites:
            # the poll's Break residual (`poll?`) or the Err payload of its Ready(Some(item))
            return e[2][-2:] == ("@Err", ".0") or e[2][:2] == ("@Break", ".0")
        if e[1][0] == "call" and e[1][3] in m.branches and e[2][:2] == ("@Break", ".0"):
            return True
        if e[2][:2] in (("@Break", ".0"), ("@Err", ".0")):
            rest = e[2][2:]
            inner = e[1] if not rest else e[1]
            return _peels_to_upstream_error(m, inner, depth + 1)
    return False


def _err_src_ok(m, src):
    """`src` is the upstream poll's own error: its Some(Err(e)) payload, or the payload of the Result an `?` on that poll
    produced (`from_residual(branch(poll)@Break.0)@Err.0`)."""
    if src[0] == "proj" and src[2][-2:] == ("@Err", ".0") and src[1][0] == "call":
        c = src[1]
        if c[3] in m.up_sites:
            return True
        if "FromResidual" in (c[1] or "") and re.search(r"Result<", c[1] or ""):
            x = c[2][0]
            return x[0] == "proj" and x[2][:2] == ("@Break", ".0") and x[1][0] == "call" and x[1][3] in m.branches
    return False


def _explicit_err(e):
    """payload of Poll::Ready(Some(Err(payload))) or None"""
    if e[0] == "agg" and e[1].endswith("Poll::Ready") and e[2] and e[2][0][0] == "agg" and e[2][0][1].endswith("Option::Some"):
        v = e[2][0][2][0]
        if v[0] == "agg" and v[1].endswith("Result::Err") and v[2]:
            return v[2][0]
    return None


def r10_4(ctx, R, ms):
    ctx.rule("R10.4", "termination: every feasible path returning Ready(None) / completion ends in abstract state "
                      "inner=None and stream=None; no feasible path returns Pending in that state; Ready(Some(v)) returns the "
                      "inner queue's output unchanged")
    for m in ms:
        b, fl = m.b, m.fl
        bad = []
        n = 0
        for path, ev in m.all_event_paths(3):
            feas, st = simulate(ev)
            if not feas:
                continue
            rk = ev[-1][1]
            done = st["last_I"] == "None" and st["stream"] == "None"
            if rk in ("None", "Done", "Forward:None"):
                n += 1
                if not done:
                    bad.append((ev, "ends while inner=%s stream=%s" % (st["last_I"], st["stream"])))
            if rk in ("Pending", "Forward:Pending") and done:
                bad.append((ev, "Pending although nothing is left"))
        ctx.ob("R10.4", b, "ends-exactly-when-done", not bad and n > 0, d_loc(b),
               "%d terminating paths; violating: %s" % (n, (ev_str(bad[0][0]) + " [" + bad[0][1] + "]") if bad else "-"))
        for rb, e in returned_exprs(ctx, b):
            if e[0] == "agg" and e[1].endswith("Poll::Ready") and e[2][0][0] == "agg" and e[2][0][1].endswith("Option::Some"):
                v = e[2][0][2][0]
                if _explicit_err(e) is not None:
                    continue    # an error surfaced by an explicit arm: R10.3 decides where it may come from
                ok = any(c[3] in m.inner for c in expr_calls(v)) and v[0] == "proj"
                ctx.ob("R10.4", b, "yielded-value-is-inner-output", ok, b.loc(rb), expr_str(v))


def r10_5(ctx, R, ms):
    ctx.rule("R10.5", "documented limit semantics: a public adapter constructor whose documentation gives limit 0 a meaning "
                      "('no limit') must not, when replayed without the n>=1 assumption, admit a feasible path that returns "
                      "Pending with the upstream present, not polled in this call and nothing in flight")
    n = 0
    for p, f in ctx.facts.fns.items():
        if not f["effective_pub"]:
            continue
        doc = f["docs"].lower()
        if not re.search(r"limit of zero|zero is interpreted|no limit", doc):
            continue
        n += 1
        # which adapter does it construct?
        tgt = f["output"].split("<")[0]
        for m in ms:
            if m.struct != tgt:
                continue
            bad = []
            for path, ev in m.all_event_paths(3):
                feas, st = simulate(ev, cap_ge_1=False)
                if not feas:
                    continue
                rk = ev[-1][1]
                polled = any(e[0] == "U" for e in ev)
                if rk in ("Pending", "Forward:Pending") and not polled and st["stream"] != "None" and st["last_I"] == "None":
                    bad.append(ev)
            bad.sort(key=len)
            # is the limit compared with 0 / converted before reaching the bounded constructor?
            handles_zero = False
            cb = ctx.facts.bodies.get(p)
            for bname in (p,):
                bb_ = ctx.facts.bodies.get(bname)
                if bb_ is not None:
                    flb = ctx.flow(bb_)
                    for sb in range(bb_.n):
                        for tg_, labs in flb.edge_labels(sb).items():
                            for lab in labs:
                                if lab[0] in ("bool", "int") and "param" in repr(lab[1]) and ("'0'" in repr(lab[1]) or lab[0] == "int"):
                                    handles_zero = True
            ctx.ob("R10.5", p, "limit-0-documented-as-unlimited", not bad or handles_zero, d_loc(cb) if cb else "",
                   "doc promises a meaning for 0; with capacity 0 the path [%s] returns Pending without ever polling upstream" % (
                       ev_str(bad[0]) if bad else "-"))
    ctx.floor("R10.5", "constructors-with-documented-limit-0", n, 1)


def r10_6(ctx, R, ms, counter):
    ctx.rule("R10.6", "termination observers of the adapters: any `is_terminated` / `is_done` / `is_empty` style observer "
                      "defined on an adapter struct (inherent or through a trait such as FusedStream) that reports 'finished' "
                      "reads the upstream Option AND the whole queue -- running futures and, for the ordered adapters, parked "
                      "outputs -- otherwise a consumer that trusts it stops while items are still owed")
    import c15
    structs = {}
    for m in ms:
        if m.struct:
            structs[m.struct] = (m.qfield, m.qty or "")
    n = 0
    for b in ctx.facts.fn_bodies():
        mm = re.match(r"^<?([\w:]+)(?:::<[^>]*>|<.*> as [\w:]+>)::(is_terminated|is_done|is_finished)$", b.path)
        if not mm or mm.group(1) not in structs:
            continue
        n += 1
        qfield, qty = structs[mm.group(1)]
        ordered = qty.startswith("futures_ordered")
        s_ = c15.state_set(ctx, b, counter, set())
        fl = ctx.flow(b)
        from lib_inter import deep_leaves
        lv = deep_leaves(ctx, b, fl.local_expr(0), 4)
        for bb in range(b.n):
            t = b.term(bb)
            if t["k"] == "switch" and not b.is_cleanup(bb):
                lv |= deep_leaves(ctx, b, fl.operand_expr(t["discr"]), 4)
        reads_stream = any(x[0] == "field" and x[1] == ".stream" for x in lv) or any(x[0] == "call" and re.search(r"Option::<.*>::(is_none|is_some)$", x[1] or "") for x in lv)
        ok = "running" in s_ and (("heap" in s_) or not ordered) and reads_stream
        ctx.ob("R10.6", b, "reports-finished-only-when-nothing-is-owed", ok, d_loc(b),
               "reads upstream: %s; queue state read: %s (needs running%s)" % (reads_stream, sorted(s_), " + heap" if ordered else ""))
    ctx.ob("R10.6", "<crate>", "termination observers on adapter structs examined", True, "", "%d" % n)


def run(ctx):
    R = roles(ctx)
    R.insert_fn
    ms = [AdapterModel(ctx, R, b) for b in adapter_fns(ctx, R)]
    ctx.floor("R10.0", "adapter-poll-functions", len(ms), 5)
    r10_1(ctx, R, ms)
    r10_2(ctx, R, ms)
    r10_3(ctx, R, ms)
    r10_4(ctx, R, ms)
    r10_5(ctx, R, ms)
    import c02
    import shared_links
    res = c02.r2_3(ctx, R)
    ctx.obs = [o for o in ctx.obs if not o.rule.startswith("R2.3")]
    ctx.rule_texts.pop("R2.3", None)
    if res["INSERT"][0]:
        shared_links.adapter_links(ctx, R, res["INSERT"][0], res["INSERT"][1])
        # a limit that does not reach the storage unchanged can stall the adapter (capacity 0) or truncate it
        import c09
        from adapters import AdapterModel as _AM
        c09.r9_1(ctx, R, ms)
        ctx.rule("R9.1", "see C09 R9.1 (shared): every adapter constructor builds its queue by the bounded `new` applied to its own limit parameter")
        c09.r9_4(ctx, R, res["INSERT"][0], res["INSERT"][1])
        r10_6(ctx, R, ms, res["INSERT"][0])
        # the ordered adapters rely on the ordered queue handing out everything it accepted, in order: the index discipline
        import c04
        ot = c04.ordered_types(ctx)
        c04.r4_1(ctx, R, ot)
        c04.r4_7(ctx, R, ot)
        ctx.rule("R4.1", "see C04 R4.1 / R4.7 (shared): index discipline of the ordered collections and who may number -- an accepted future "
                         "whose index never comes into turn is an upstream item that is pulled but never delivered, and the adapter never ends")
        # the path model reads a refusing fill guard as "the queue is saturated" (so "Pending, upstream present and not polled,
        # nothing in flight" is infeasible): that reading is C09 R9.2's refusal direction, re-established here
        before = len(ctx.obs)
        c09.r9_2(ctx, R, ms, res["INSERT"][0])
        keep = ("guard-refuses-only-when-saturated", "has-fill-guard", "guard-operands")
        ctx.obs = ctx.obs[:before] + [o for o in ctx.obs[before:] if o.label.startswith(keep)]
        ctx.rule("R9.2", "see C09 R9.2 (shared, refusal direction): the fill guard refuses a pull only when the queue is saturated -- "
                         "a guard that refuses while nothing is in flight never polls upstream and parks the task with nothing registered")
        ctx.rule("R9.4", "see C09 R9.4 (shared): the limit reaches the slot storage unchanged")
