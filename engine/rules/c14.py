"""C14 -- no busy-spinning: the task is woken only for a reason."""
import re

from lib_facts import place_str, fn_name
from lib_flow import strip_refs, expr_calls, expr_str, variant_facts
from roles import (roles, direct_sites, sites, callee_body, RE_NOTIFY, RE_CTX_WAKER, RE_WAKE, RE_DW_REGISTER, RE_ENQUEUE)
from c01 import _site_label, d_loc, _flag_false_edge_blocks, _writes_true_before, _empty_variants, pending_assign_blocks, enq_guarded
import c13

EXPLANATION = (
    "Static decision of who may wake the task and when: R14.1 the only calls of Waker::wake/wake_by_ref on the caller's "
    "task waker in library code are the two licensed self-wakes of the drain function (one dominated by the exceeding edge "
    "of the per-poll budget comparison, one by the 'queue inconsistent' arm of the dequeue); no other function and no other "
    "arm (in particular not the plain 'queue empty' arm, not the adapters, not the group loops) wakes the task; every use "
    "of Context::waker(cx) flows only into the registration or into one of those two wakes; R14.2 DiatomicWaker::notify is "
    "called at exactly one site, dominated by the not-queued -> queued transition of the slot flag under its lock; the "
    "push/re-arm primitive does not notify; R14.3 the task waker is never stored or cloned by the crate (no Waker-typed "
    "struct field, no Waker::clone call) except through DiatomicWaker::register. The '(held + 2) polls' figure is not decided.")
ASSUMPTIONS = [
    "DiatomicWaker::notify wakes only the registered waker; register replaces the previous one",
    "children that do not wake themselves do not cause enqueues",
]


def r14_1(ctx, R):
    ctx.rule("R14.1", "who-may-wake-the-task: TASK-WAKE sites = 2, both in DRAIN, one behind the budget-exceeding edge, one "
                      "behind the dequeue's 'inconsistent' variant; every other Waker::wake* call in the crate is a violation; "
                      "Context::waker results flow only into registration or those wakes")
    drains = {d.path for d in R.drain_fns}
    n = 0
    for b in ctx.facts.fn_bodies():
        fl = ctx.flow(b)
        for bb, t, fn in direct_sites(b, RE_WAKE):
            n += 1
            if b.path not in drains:
                # licensed only as the exit of a constant per-call budget (work is left over and the call gives way)
                lic = False
                for head, body in b.loops().items():
                    for sb in body:
                        for tgt, labs in fl.edge_labels(sb).items():
                            for lab in labs:
                                if lab[0] == "bool" and lab[1][0] == "binop" and lab[1][1] in ("Gt", "Ge") and lab[2] is True \
                                        and lab[1][3][0] == "const" and lab[1][2][0] == "multi" and b.dominates(tgt, bb):
                                    # the counted local is only ever initialised by a constant and incremented by a constant
                                    l_ = lab[1][2][1]
                                    defs_ok = all(k_ == "assign" and (fl.rvalue_expr(nd["rv"], db)[0] == "const" or
                                                                       c13._inc_of_local(fl.rvalue_expr(nd["rv"], db), l_) is not None)
                                                  for (db, ix, k_, nd) in fl.defs.get(l_, []))
                                    lic = lic or defs_ok
                ctx.ob("R14.1", b, "wake-outside-drain@%s" % _site_label(b, bb), lic, b.loc(bb),
                       "task woken outside the drain function; licensed as a constant-budget exit: %s" % lic)
                continue
            d = b
            vf = variant_facts(d, fl)
            # every feasible arrival at the wake needs a licence of its own: the budget's exhausted edge was crossed, or the
            # latest dequeue reported "inconsistent" (neither empty nor a slot), or a dequeued child was polled in this
            # iteration; an arrival under the plain "queue empty" outcome spins the task
            from lib_flow import sensitive_paths
            budget_edges = set()
            polls_ = [pb for pb, _, _ in R.child_poll_sites(d)]
            for head, body in d.loops().items():
                inside = [p_ for p_ in polls_ if p_ in body]
                if not inside:
                    continue
                fb = c13.find_budget(ctx, R, d, fl, head, body, inside)
                if fb is not None:
                    budget_edges.add((fb["sb"], fb["tgt"]))
                    budget_edges.update(fb.get("all_edges", []))
            for (h2, body2, nbb, tgt, lo, hi) in c13.range_budgets(ctx, d):
                for sb_ in body2:
                    if tgt in d.normal_succ(sb_) and tgt not in body2:
                        budget_edges.add((sb_, tgt))
            pops = R.pop_sites(d)
            licences = set()
            unlicensed = None
            on_empty = False
            arrivals = 0
            try:
                for kind_, pth, know in sensitive_paths(d, fl, 2):
                    for i_, x_ in enumerate(pth):
                        if x_ != bb:
                            continue
                        arrivals += 1
                        lic = None
                        if any((pth[j], pth[j + 1]) in budget_edges for j in range(i_)):
                            lic = "budget-exhausted"
                        for pbb, pt, pfn in pops:
                            dest = place_str(pt["dest"])
                            v_ = know[i_].get(dest)
                            if v_ is None:
                                continue
                            if v_ in set(_empty_variants(ctx, R, pt["dest"]["ty"])):
                                if lic is None:
                                    on_empty = True
                            elif v_ in set(_payload(ctx, pt["dest"]["ty"])):
                                # a slot was dequeued: the licence is that its child WAS polled since (it may have re-woken itself
                                # while the budget ran out); a dequeued entry that turned out vacant / stale licenses nothing
                                last_pop = max([j for j in range(i_) if pth[j] == pbb] or [-1])
                                if any(pth[j] in polls_ for j in range(last_pop + 1, i_)):
                                    lic = lic or "after-a-dequeued-child-was-polled"
                                elif lic is None:
                                    on_empty = True
                            else:
                                lic = lic or "queue-inconsistent"
                        if lic is None:
                            unlicensed = pth[:i_ + 1]
                        else:
                            licences.add(lic)
            except RuntimeError:
                unlicensed = []
            if on_empty:
                ctx.ob("R14.1", d, "wake-on-plain-empty@%s" % _site_label(d, bb), False, d.loc(bb), "self-wake although the queue was empty / the dequeued entry was stale and nothing was polled: spins the task")
            licensed = ", ".join(sorted(licences)) if (arrivals and unlicensed is None and not on_empty) else None
            is_task = bb in {x[0] for x in R.task_wake_sites(d)}
            ctx.ob("R14.1", d, "licensed-self-wake@%s" % _site_label(d, bb), licensed is not None and is_task, d.loc(bb),
                   "licence: %s; receiver is the caller's task waker: %s" % (licensed, is_task))
    ctx.floor("R14.1", "task-wake-sites", n, 1)
    for b in ctx.facts.fn_bodies():
        allw = direct_sites(b, RE_WAKE)
        task = {x[0] for x in R.task_wake_sites(b)} if allw else set()
        for bb, t, fn in allw:
            if bb not in task:
                ctx.ob("R14.1", b, "wake-of-a-non-task-waker@%s" % _site_label(b, bb), False, b.loc(bb),
                       "the crate invokes a waker that is not its caller's task waker (a child slot waker notifies the task): %s" %
                       expr_str(strip_refs(ctx.flow(b).operand_expr(t["args"][0]))))
    # uses of Context::waker
    m = 0
    for b in ctx.facts.fn_bodies():
        fl = ctx.flow(b)
        for bb, t, fn in direct_sites(b, RE_CTX_WAKER):
            m += 1
            l = t["dest"]["l"]
            ok = True
            sinks = []
            work = [l]
            seen = set()
            while work:
                x = work.pop()
                if x in seen:
                    continue
                seen.add(x)
                for ub, ui, node in fl.uses_of_local(x):
                    if ui == "term" and node["k"] == "call":
                        f = node["func"]
                        nm = fn_name(f.get("fn")) if f["k"] == "const" else None
                        cb = callee_body(ctx.facts, f.get("fn")) if f["k"] == "const" else None
                        if nm and (re.search(RE_WAKE, nm) or re.search(RE_DW_REGISTER, nm)):
                            sinks.append(nm.split("::")[-1])
                        elif cb is not None and cb in R.register_fns:
                            sinks.append("register")
                        else:
                            ok = False
                            sinks.append("OTHER:" + str(nm))
                    elif ui != "term" and node["k"] == "assign" and not node["place"]["p"]:
                        work.append(node["place"]["l"])
            ctx.ob("R14.1", b, "ctx.waker()-flows-only-to-register/self-wake@%s" % _site_label(b, bb), ok, b.loc(bb), "sinks: %s" % sinks)
    ctx.floor("R14.1", "Context::waker-sites", m, 2)


def _payload(ctx, ty_key):
    t = ctx.facts.types.get(ty_key)
    adt = ctx.facts.adts.get(t["name"]) if t and t["k"] == "adt" else None
    return [v["name"] for v in adt["variants"] if v["fields"]] if adt else []


def r14_2(ctx, R):
    ctx.rule("R14.2", "notify only on the transition: exactly one DiatomicWaker::notify site, dominated by the 'flag was "
                      "false' edge with true written under the lock; MARK (push / re-arm) contains no notify")
    n = 0
    for b in ctx.facts.fn_bodies():
        ns = direct_sites(b, RE_NOTIFY)
        if not ns:
            continue
        falseb = _flag_false_edge_blocks(ctx, R, b)
        for bb, t, fn in ns:
            n += 1
            ok = all(enq_guarded(ctx, R, b, bb))
            ctx.ob("R14.2", b, "notify-behind-false->true@%s" % _site_label(b, bb), ok, b.loc(bb))
    ctx.floor("R14.2", "notify-sites", n, 1)
    for mk in R.mark_fns:
        from roles import reaches
        ctx.ob("R14.2", mk, "mark-does-not-notify", not reaches(ctx.facts, mk, RE_NOTIFY, 2), d_loc(mk))


def r14_3(ctx, R):
    ctx.rule("R14.3", "no clone-and-wake-later: no crate struct field of type Waker / Option<Waker>; no call of "
                      "<Waker as Clone>::clone or Waker::clone_from in library code")
    bad = []
    # the dequeue's own result type may carry the slot's *borrowed* waker (ManuallyDrop<Waker>) out of POP: a transient return
    # value that only DRAIN consumes, not a stored waker
    pop_ret = R.pop_fn.locals[0].split("<")[0]
    for p, adt in ctx.facts.adts.items():
        for v in adt["variants"]:
            for f in v["fields"]:
                if re.search(r"(^|[<( ])core::task::Waker($|[>,) ])", f["ty"]):
                    if p == pop_ret and f["ty"] == "core::mem::ManuallyDrop<core::task::Waker>":
                        continue
                    # the same borrowed waker carried on by a transient value (an enum a helper returns to the drain loop): a
                    # type that no struct, enum or static of the crate stores and that is not reachable from outside cannot keep a
                    # waker between polls
                    stored = adt.get("effective_pub") or any(
                        re.search(r"(^|[<( ,\[])%s($|[<>,) \]])" % re.escape(p), g["ty"])
                        for q, other in ctx.facts.adts.items() if q != p for w in other["variants"] for g in w["fields"])
                    if f["ty"] == "core::mem::ManuallyDrop<core::task::Waker>" and not stored:
                        continue
                    bad.append("%s.%s: %s" % (p, f["name"], f["ty"]))
    ctx.ob("R14.3", "<crate>", "no-Waker-typed-field", not bad, "", str(bad))
    clones = []
    for b in ctx.facts.fn_bodies():
        for bb, t, fn in b.calls():
            if fn and re.search(r"Clone>::clone$|Clone::clone$|clone_from$", fn["def"]) and any(
                    "core::task::Waker" in (a["place"]["ty"] if a["k"] != "const" else a["ty"]) for a in t["args"]):
                clones.append(b.loc(bb))
    ctx.ob("R14.3", "<crate>", "no-Waker-clone", not clones, "", str(clones))


def r14_4(ctx, R):
    ctx.rule("R14.4", "no spurious queue entries: (a) every enqueue in the crate -- on the wake path and in the marking "
                      "primitive -- happens only on the flag's false->true transition (a node is never linked twice); (b) a "
                      "marking loop over 0..n is applied only to a slot map that is full (n = len()/capacity() of a map built "
                      "by FromIterator) or with n = len() of the map it marks: vacant slots are never queued, so a poll does "
                      "not burn its budget (and self-wake) on entries that have no child")
    from c01 import enq_guarded
    from roles import RE_ENQUEUE
    n = 0
    for b in ctx.facts.fn_bodies():
        for bb, t, fn in direct_sites(b, RE_ENQUEUE):
            n += 1
            f_, w_ = enq_guarded(ctx, R, b, bb)
            ctx.ob("R14.4", b, "enqueue-only-on-false->true@%s" % _site_label(b, bb), f_ and w_, b.loc(bb),
                   "flag observed false before: %s; true written before: %s" % (f_, w_))
    ctx.floor("R14.4", "enqueue-sites", n, 2)
    sm = R.slot_enum[1]
    m = 0
    for b, ss in R.callers_of(R.mark_fn):
        fl = ctx.flow(b)
        for sbb, st, sfn in ss:
            idx = fl.operand_expr(st["args"][-1])
            rng = None
            if R.is_mark_all(callee_body(ctx.facts, sfn)):
                # MARK-ALL of the list: the range is 0..header.len, i.e. 0..(the capacity the list was constructed with here)
                recv = strip_refs(idx)
                for c in [recv] + expr_calls(recv):
                    if c[0] == "call" and (c[1] or "").endswith("::new") and c[1] in ctx.facts.bodies and c[2]:
                        rng = ("agg", "core::ops::Range::Range", (("const", "usize", "0"), c[2][0]))
            for c in expr_calls(idx):
                if c[1] and "Range" in c[1] and c[1].endswith("::next"):
                    it = strip_refs(c[2][0])
                    while it[0] == "call" and (it[1] or "").endswith("into_iter"):
                        it = strip_refs(it[2][0])
                    if it[0] == "agg" and it[1].endswith("Range::Range"):
                        rng = it
            if rng is None:
                continue
            m += 1
            hi = strip_refs(rng[2][1])
            ok = False
            det = expr_str(hi)
            if hi[0] == "call" and re.search(r"::(len|capacity)$", hi[1] or "") and hi[2]:
                src = strip_refs(hi[2][0])
                built = [c for c in [src] + expr_calls(src) if c[0] == "call"]
                from_iter = any(re.search(r"^<%s<.*> as core::iter::FromIterator<" % re.escape(sm), c[1] or "") for c in built)
                empty_new = any((c[1] or "").startswith(sm + "::") and (c[1] or "").endswith("::new") for c in built)
                if from_iter:
                    ok = True
                    det += " of a map built by FromIterator (full: C07 R7.6)"
                elif empty_new and hi[1].endswith("::len"):
                    ok = True
                    det += " = len() of a fresh map (marks nothing)"
                elif empty_new:
                    det += " = capacity of an EMPTY map: every vacant slot is queued"
            ctx.ob("R14.4", b, "mark-all-loop-only-over-occupied-slots@%s" % _site_label(b, sbb), ok, b.loc(sbb), det)
    ctx.floor("R14.4", "mark-all-loops", m, 1)
    import c02
    before = len(ctx.obs)
    c02.r2_2(ctx, R)
    # a slot-map method that vacates wholesale (through REMOVE or by writing the free variant itself) is judged at ITS callers by
    # R14.5 (they must empty the ready queue): for this property that is the question, not who called REMOVE
    bulk = {v.path for v in R.bulk_vacate_fns}
    ctx.obs = ctx.obs[:before] + [o for o in ctx.obs[before:] if str(o.fn) not in bulk]
    ctx.rule("R2.2", "see C02 R2.2 (shared): slots are vacated only by callers of the drain (which has just dequeued that slot's entry) "
                     "-- or wholesale by a function that empties the ready queue itself (R14.5)")
    import c07
    c07.r7_6(ctx, R)
    ctx.rule("R7.6", "see C07 R7.6 (shared): the slot map's FromIterator builds a full map")


def r14_5(ctx, R):
    ctx.rule("R14.5", "vacating slots in bulk: the drain vacates a slot only after that slot's queue entry was dequeued (C02 R2.2), so "
                      "the ready queue never holds entries of vacant slots beyond late wakes. A function that vacates slots wholesale "
                      "through a slot-map method other than REMOVE (`clear`, `retain` ...) leaves the entries of those slots queued: "
                      "each one is dequeued later, finds no child, consumes one unit of the per-poll budget, and an exhausted budget "
                      "self-wakes the task -- polls that wake the task although no child waker was invoked. Such a function must empty "
                      "the ready queue itself (it reaches POP), or consume the collection")
    pops = {p.path for p in R.pop_fns}
    n = 0
    for v in R.bulk_vacate_fns:
        for f, ss in R.callers_of(v):
            if f.path.startswith(R.slot_enum[1]):
                continue          # another slot-map method: judged at its own callers
            n += 1
            reaches_pop = any((fn_name(fn) or "") in pops or
                              (callee_body(ctx.facts, fn) is not None and any((fn_name(f2) or "") in pops for _, _, f2 in callee_body(ctx.facts, fn).calls() if f2))
                              for _, _, fn in f.calls() if fn)
            by_value = bool(f.arg_count) and not (f.locals[1] or "").startswith("&") and "Pin<" not in (f.locals[1] or "")
            ctx.ob("R14.5", f, "bulk-vacate-empties-the-ready-queue@%s" % _site_label(f, ss[0][0]), reaches_pop or by_value, f.loc(ss[0][0]),
                   "%s vacates slots wholesale; the function dequeues the ready queue: %s; consumes the collection: %s" % (v.path.split("::")[-1], reaches_pop, by_value))
    ctx.ob("R14.5", "<crate>", "bulk vacating call sites examined", True, "", "%d" % n)


def run(ctx):
    R = roles(ctx)
    R.pop_fn, R.drain_fn, R.mark_fn
    r14_5(ctx, R)
    r14_1(ctx, R)
    r14_2(ctx, R)
    r14_3(ctx, R)
    r14_4(ctx, R)
