"""C15 -- capacity and observer contract (len, is_empty, try_push, is_terminated)."""
import re

from lib_facts import place_str, fn_name
from lib_flow import strip_refs, expr_calls, expr_str, variant_facts
from lib_inter import deep_leaves, returned_exprs
from roles import roles, direct_sites, callee_body, reaches
from c01 import _site_label, d_loc
import c02
import c06
import c04
import c16

EXPLANATION = (
    "Static decision of: R15.1 every constructor reachable from the public API that takes a capacity is free of "
    "capacity-derived subtraction (Sub / SubWithOverflow / checked_sub) that is not dominated by a guard on the same "
    "parameter, in itself and in every crate function it reaches (so capacity 0 and 1 construct); Add/Mul overflow on the "
    "capacity is exempt (fails only for capacities whose allocation cannot succeed); R15.2 refusal is side-effect free "
    "(slot-map insert effects all-or-none with 'none' exactly on Err (C02 R2.3), closure not called, nothing dropped, push* "
    "panics only after the refusal and stores nothing before (C06 R6.3)); R15.3 observers read the counting fields and "
    "siblings agree: slot map len/is_empty/capacity, and for each of the four collections the state read by len, is_empty "
    "and is_terminated is the same set ({running counter} / {remaining counter}, plus the parked heap for the ordered ones), "
    "ordered len is exactly running + parked; R15.4 the slot-map insert refuses exactly where the slot at the free-list head "
    "does not exist, and the unbounded push has no refusing path (C02 R2.6). NOT decided: observer values over all histories "
    "(needs the free-list data-structure invariant).")
WITNESSES = "thorough"  # E3 compile_fail witnesses (tier in which they run)
ASSUMPTIONS = [
    "dev-profile MIR with overflow checks on (thorough tier repeats without them: the rule looks at the Sub operator, not at the Assert)",
    "BinaryHeap::with_capacity / Vec::with_capacity(0) do not panic",
]

CTOR_RE = r"::(new|with_capacity|buffered_ordered|buffered_unordered|for_each_concurrent|try_buffered_ordered|try_buffered_unordered)$"


def ctor_closure(ctx):
    roots = [b for b in ctx.facts.fn_bodies() if re.search(CTOR_RE, b.path) and b.kind != "Closure"
             and any(b.locals[i] == "usize" for i in range(1, b.arg_count + 1))]
    seen = {}
    work = list(roots)
    depth = {b.path: 0 for b in roots}
    while work:
        b = work.pop()
        if b.path in seen:
            continue
        seen[b.path] = b
        if depth[b.path] >= 4:
            continue
        for bb, t, fn in b.calls():
            cb = callee_body(ctx.facts, fn)
            if cb is not None and cb.path not in seen and any(cb.locals[i] == "usize" for i in range(1, cb.arg_count + 1)):
                depth.setdefault(cb.path, depth[b.path] + 1)
                work.append(cb)
    return roots, list(seen.values())


def r15_1(ctx, R):
    ctx.rule("R15.1", "constructors cannot panic on the capacity: in every function of the constructor closure no Sub-family "
                      "operation (or usize::checked_sub / unchecked_sub) has a left operand derived from a usize parameter "
                      "unless a comparison on that parameter dominates it; saturating_sub / wrapping_sub are fine")
    roots, fns = ctor_closure(ctx)
    n = 0
    for b in fns:
        fl = ctx.flow(b)
        uparams = {i for i in range(1, b.arg_count + 1) if b.locals[i] == "usize"}
        sites = []
        for bb in range(b.n):
            if b.is_cleanup(bb):
                continue
            for i, s in enumerate(b.stmts(bb)):
                if s["k"] == "assign" and s["rv"]["k"] == "binop" and s["rv"]["op"] in ("Sub", "SubWithOverflow", "SubUnchecked"):
                    lhs = fl.operand_expr(s["rv"]["a"])
                    sites.append((bb, lhs, s["rv"]["op"], b.loc(bb, i)))
            t = b.term(bb)
            if t["k"] == "call" and t["func"]["k"] == "const" and "fn" in t["func"] and \
                    re.search(r"core::num::<impl usize>::(unchecked_sub|strict_sub)$", t["func"]["fn"]["def"]):
                sites.append((bb, fl.operand_expr(t["args"][0]), "unchecked_sub", b.loc(bb)))
            if t["k"] == "call" and t["func"]["k"] == "const" and "fn" in t["func"] and \
                    re.search(r"core::option::Option::<.*>::(unwrap|expect|unwrap_unchecked)$", t["func"]["fn"]["def"]):
                recv = fl.operand_expr(t["args"][0])
                for c in expr_calls(recv):
                    if re.search(r"core::num::<impl usize>::checked_sub$", c[1] or ""):
                        sites.append((bb, c[2][0], "checked_sub().unwrap", b.loc(bb)))
        for bb, lhs, op, loc in sites:
            lv = fl.leaves(lhs)
            ps = {x[1] for x in lv if x[0] == "param" and x[1] in uparams}
            if not ps:
                continue
            n += 1
            guarded = False
            for sb in range(b.n):
                for tgt, labs in fl.edge_labels(sb).items():
                    for lab in labs:
                        if lab[0] in ("bool", "int") and b.dominates(tgt, bb) and len(b.pred[tgt]) == 1:
                            if any(x[0] == "param" and x[1] in ps for x in fl.leaves(lab[1])):
                                guarded = True
            ctx.ob("R15.1", b, "capacity-derived-subtraction:%s" % op, guarded, loc, "lhs %s" % expr_str(lhs))
        ctx.ob("R15.1", b, "constructor-closure-function-scanned", True, d_loc(b), "%d subtraction sites" % len(sites))
    ctx.floor("R15.1", "constructor-roots", len(roots), 9)
    ctx.floor("R15.1", "constructor-closure", len(fns), 10)


STATE_HEAP = "heap"


def state_set(ctx, b, counter, rem_fields, _depth=0, _seen=None):
    """Which state does an observer read: subset of {counter, rem, heap}."""
    fl = ctx.flow(b)
    lv = deep_leaves(ctx, b, fl.local_expr(0), 4)
    # control dependence: `a && b` lowers to a branch on `a`; observers are tiny, so every branch condition counts
    for bb in range(b.n):
        t = b.term(bb)
        if t["k"] == "switch" and not b.is_cleanup(bb):
            lv |= deep_leaves(ctx, b, fl.operand_expr(t["discr"]), 4)
    s = set()
    # observers built on other observers of the crate (adapter -> ordered queue -> inner queue -> slot map): what the callee
    # reads -- including through ITS branches -- is read
    _seen = _seen or {b.path}
    if _depth < 5:
        for bb, t, fn in b.calls():
            cb = ctx.facts.bodies.get(fn_name(fn)) if fn else None
            if cb is not None and not b.is_cleanup(bb) and cb.path not in _seen and cb.n <= 12 and \
                    re.search(r"::(len|is_empty|is_terminated|capacity|is_full)$", cb.path):
                _seen.add(cb.path)
                s |= state_set(ctx, cb, counter, rem_fields, _depth + 1, _seen)
    if ("field", counter) in lv:
        s.add("running")
    # the wrapping distance of an ordered collection's two position counters = running + parked (see c04.window_form)
    import c04
    e0 = fl.local_expr(0)
    if c04.window_form(ctx, b, e0) is not None or any(c04.window_form(ctx, b, c_) is not None for c_ in expr_calls(e0)):
        s |= {"running", "heap"}
        ctx._window_form_used = True
    for rf in rem_fields:
        if ("field", rf) in lv:
            s.add("remaining")
    if any(x[0] == "call" and re.search(r"BinaryHeap::<.*>::(len|is_empty)$", x[1] or "") for x in lv):
        s.add("heap")
    return s


def r15_3(ctx, R, counter):
    ctx.rule("R15.3", "observers read the counting fields, siblings agree: slot map len = counter, is_empty = counter == 0, "
                      "capacity = slots.len(); per collection len / is_empty / is_terminated read the same state set "
                      "(unordered: {running} or {remaining}; ordered: + {heap}); ordered len is exactly inner + heap length")
    sm = R.slot_enum[1]
    slots_field = R.slot_enum[2]
    for nm in ("len", "is_empty", "capacity"):
        b = ctx.facts.bodies.get("%s::<F>::%s" % (sm, nm))
        if b is None:
            ctx.ob("R15.3", sm, "slot-map-observer:" + nm, False, "", "missing")
            continue
        e = ctx.flow(b).local_expr(0)
        # decided on the closed form of the observer (crate observers it calls are expanded): for every (r, c) of a small
        # grid the returned value is r / (r == 0) / c
        import lib_arith
        want = {"len": lambda r, c: r, "is_empty": lambda r, c: r == 0, "capacity": lambda r, c: c}[nm]
        try:
            ret = e
            if ret[0] == "multi":
                ret = lib_arith._and_or_form(ctx, b, ctx.flow(b))
                if ret is None:
                    raise lib_arith.Unknown("no closed form")
            ok = True
            for c_ in range(5):
                for r_ in range(c_ + 1):
                    v = lib_arith.evaluate(ctx, b, ret, {"r": r_, "p": 0, "c": c_}, counter, slots_field)
                    if v != want(r_, c_) or isinstance(v, bool) != isinstance(want(r_, c_), bool):
                        ok = False
        except (lib_arith.Unknown, lib_arith.Undefined):
            ok = False
        ctx.ob("R15.3", b, "slot-map-observer:" + nm, ok, d_loc(b), expr_str(e))
    # remaining-counter field of the unbounded collection = the field its poll_next decrements
    rem_fields = set()
    from lib_flow import self_field_stores, is_inc_of
    from c01 import group_loop_fns
    for b in group_loop_fns(ctx):
        fl = ctx.flow(b)
        for (bb, i, fld, val, root, pe) in self_field_stores(b, fl):
            if is_inc_of(val, fld) == -1:
                rem_fields.add(fld)
    table = {
        "futures_unordered_bounded::FuturesUnorderedBounded": {"running"},
        "futures_unordered::FuturesUnordered": {"remaining"},
        "futures_ordered_bounded::FuturesOrderedBounded": {"running", "heap"},
        "futures_ordered::FuturesOrdered": {"remaining", "heap"},
    }
    for ty, want in table.items():
        obs = {}
        allobs = {}
        for b in ctx.facts.fn_bodies():
            # inherent or trait-provided (FusedStream / any other trait): every function of that name on the type counts -- an
            # inherent method shadows the trait's
            m = re.match(r"^(?:<)?%s(?:::<\w+>|<\w+> as [\w:]+>)::(len|is_empty|is_terminated)$" % re.escape(ty), b.path)
            if m:
                obs[m.group(1)] = (b, state_set(ctx, b, counter, rem_fields))
                allobs.setdefault(m.group(1), []).append((b, obs[m.group(1)][1]))
        for nm in ("len", "is_empty", "is_terminated"):
            if nm not in obs:
                ctx.ob("R15.3", ty, "observer-present:" + nm, False, "", "")
                continue
            alt = {("running" if x == "remaining" else x) for x in want}   # summing the groups' own counters is as good
            for b, s in allobs[nm]:
                ctx.ob("R15.3", b, "observer-reads:%s" % ",".join(sorted(want)), s == want or s == alt, d_loc(b), "reads %s" % sorted(s))
        if "heap" in want and "len" in obs:
            b = obs["len"][0]
            e = c16._norm(ctx.flow(b).local_expr(0))
            ok = e[0] == "binop" and e[1] == "Add" and any(x[0] == "call" and re.search(r"BinaryHeap::<.*>::len$", x[1] or "") for x in (e[2], e[3])) \
                and any(x[0] == "call" and re.search(r"Futures(Unordered|UnorderedBounded)::<.*>::len$", x[1] or "") for x in (e[2], e[3]))
            if not ok and c04.window_form(ctx, b, ctx.flow(b).local_expr(0)) is not None:
                ok = True        # incoming - outgoing (wrapping): the same number, given the linked index discipline
                ctx._window_form_used = True
            ctx.ob("R15.3", b, "ordered-len=inner.len()+heap.len()", ok, d_loc(b), expr_str(e))
    ctx.floor("R15.3", "remaining-counter-fields", len(rem_fields), 1)
    if getattr(ctx, "_window_form_used", False):
        c04.window_links(ctx, R)


def r15_2b(ctx, R):
    ctx.rule("R15.2", "refusal is side-effect free: = R2.3 + R6.3, and in every try-push forwarder (returns Result<(), X>, "
                      "reaches the slot-map insert) no store to a field of self and no AddAssign/SubAssign on a field of self "
                      "happens in the forwarder's own body (counter updates live in the closure that runs only on acceptance)")
    ins = R.insert_fn
    n = 0
    for b in ctx.facts.fn_bodies():
        if b.kind == "Closure" or not re.match(r"core::result::Result<\(\), \w+>$", b.locals[0]):
            continue
        if not reaches(ctx.facts, b, re.escape(ins.path) + "$", 3) or b.path == ins.path:
            continue
        n += 1
        fl = ctx.flow(b)
        from lib_flow import self_field_stores
        bad = [b.loc(bb, i) for (bb, i, fld, val, root, pe) in self_field_stores(b, fl)]
        for bb, t, fn in b.calls():
            if fn and not b.is_cleanup(bb) and re.search(r"core::ops::(AddAssign|SubAssign|BitXorAssign|MulAssign)", fn["def"]):
                a0 = strip_refs(fl.operand_expr(t["args"][0]))
                if a0[0] == "proj" and strip_refs(a0[1])[0] == "param":
                    bad.append(b.loc(bb))
        if b.path.endswith("::try_push_with"):
            # the push primitive itself: its only effect besides the insert is MARK on the success path (C01 R1.5)
            bad = []
        if bad:
            # effects in the forwarder's own body are still refusal-free if every REFUSING return path (returns `Err`) carries
            # none, or carries exactly a step of a wrapping counter followed by its inverse (reserve, then hand back)
            eff = {}
            for (bb, i, fld, val, root, pe) in self_field_stores(b, fl):
                eff.setdefault(bb, []).append(("store", fld, None))
            for bb, t, fn in b.calls():
                if fn and not b.is_cleanup(bb) and re.search(r"core::ops::(AddAssign|SubAssign|BitXorAssign|MulAssign)", fn["def"]):
                    a0 = strip_refs(fl.operand_expr(t["args"][0]))
                    if a0[0] == "proj" and strip_refs(a0[1])[0] == "param":
                        wr = "Wrapping<" in (fn.get("def_str") or fn.get("res") or "")
                        kind = "add" if "AddAssign" in fn["def"] else ("sub" if "SubAssign" in fn["def"] else "other")
                        eff.setdefault(bb, []).append((kind if wr else "other", a0[2][-1], expr_str(fl.operand_expr(t["args"][1]))))
            from lib_flow import sensitive_paths, path_const_feasible, PathEval
            refusing_dirty = None
            nref = 0
            try:
                for kind_, path, know in sensitive_paths(b, fl, 2):
                    if kind_ != "return":
                        continue
                    r = PathEval(b, path).local_expr(0)
                    if not (r[0] == "agg" and r[1].endswith("Result::Err")):
                        continue
                    if not path_const_feasible(b, path):
                        continue
                    nref += 1
                    seq = [e for x in path for e in eff.get(x, [])]
                    # cancel adjacent inverse pairs on the same field with the same operand
                    st = []
                    for e in seq:
                        if st and e[0] in ("add", "sub") and st[-1][0] in ("add", "sub") and st[-1][0] != e[0] and st[-1][1:] == e[1:]:
                            st.pop()
                        else:
                            st.append(e)
                    if st:
                        refusing_dirty = [b.loc(x) for x in path if x in eff]
                        break
            except RuntimeError:
                refusing_dirty = ["path enumeration gave up"]
            if refusing_dirty is None and nref > 0:
                bad = []
        ctx.ob("R15.2", b, "forwarder-has-no-own-side-effects", not bad, d_loc(b), "side effects at %s" % bad)
    ctx.floor("R15.2", "try-push-forwarders", n, 4)


def r15_4(ctx, R, head):
    ctx.rule("R15.4", "accept iff not full: INSERT builds Err only where the lookup of the slot at the free-list head "
                      "returned None; every other path inserts (C02 R2.3); unbounded push has no refusing path (C02 R2.6)")
    ins = R.insert_fn
    fl = ctx.flow(ins)
    vf = variant_facts(ins, fl)
    n = 0
    for rb, e in returned_exprs(ctx, ins):
        if e[0] == "agg" and e[1].endswith("Result::Err"):
            n += 1
            ok = False
            det = ""
            for (p, v) in vf.get(rb, frozenset()):
                m = re.match(r"_(\d+)$", p)
                if m and v == "None":
                    src = fl.local_expr(int(m.group(1)))
                    if src[0] == "call" and src[1] in ctx.facts.bodies:
                        key = src[2][-1]
                        if key[0] == "proj" and key[2][-1] == head:
                            ok = True
                            det = "%s(self.%s) is None" % (src[1].split("::")[-1], head[1:])
            # `let Some(x) = .. else` lowers to an otherwise edge: accept the 'not Some' form
            if not ok:
                for sb in range(ins.n):
                    for tgt, labs in fl.edge_labels(sb).items():
                        for lab in labs:
                            if lab[0] in ("variant", "notvariants") and ins.dominates(tgt, rb) and len(ins.pred[tgt]) == 1:
                                isnone = (lab[0] == "variant" and lab[2] == "None") or (lab[0] == "notvariants" and "Some" in lab[2])
                                src = lab[1]
                                if isnone and src[0] == "call" and src[1] in ctx.facts.bodies:
                                    key = src[2][-1]
                                    if key[0] == "proj" and key[2][-1] == head:
                                        ok = True
                                        det = "%s(self.%s) is not Some" % (src[1].split("::")[-1], head[1:])
            if not ok:
                # lookup written out in place (or inlined): every feasible path arriving at the refusal knows that
                # slots.get_mut(self.HEAD) -- possibly behind `?` -- produced None
                from lib_flow import arrival_knowledge
                slots_field = R.slot_enum[2]

                def head_lookup(x):
                    x = strip_refs(x)
                    if x[0] == "call" and (x[1] or "").endswith("::branch") and x[2]:
                        x = strip_refs(x[2][0])
                    if x[0] != "call" or not x[2]:
                        return False
                    key = strip_refs(x[2][-1])
                    if not (key[0] == "proj" and key[2] and key[2][-1] == head):
                        return False
                    if x[1] in ctx.facts.bodies:
                        return True
                    return bool(re.search(r"core::slice::<impl \[T\]>::get_mut$", x[1] or "")) and ("." + slots_field) in repr(x[2][0])
                ks = arrival_knowledge(ins, fl, rb)
                allk = bool(ks)
                for k in ks:
                    hit = False
                    for p, v in k.items():
                        m = re.match(r"_(\d+)$", p)
                        if m and v in ("None", "Break") and head_lookup(fl.local_expr(int(m.group(1)))):
                            hit = True
                    allk = allk and hit
                if allk:
                    ok = True
                    det = "slots.get_mut(self.%s) is None on all %d feasible arrivals" % (head[1:], len(ks))
            ctx.ob("R15.4", ins, "refuses-only-when-no-slot-at-free-head", ok, ins.loc(rb), det)
    ctx.floor("R15.4", "refusal-returns", n, 1)


def r15_5(ctx, R):
    ctx.rule("R15.5", "the unbounded collections accept every push: every group they create has capacity >= 1 (a "
                      "constant >= 1, capacity(last) * c with c >= 2 -- inductively >= 1 --, max(_, const >= 1), or a "
                      "parameter behind a dominating `> 0` / `!= 0` / `>= 1` test), so that doubling always makes room")
    n = 0
    for b in ctx.facts.fn_bodies():
        if not re.search(r"^(<)?(futures_unordered::FuturesUnordered|merge_unbounded::MergeUnbounded)", b.path):
            continue
        fl = ctx.flow(b)
        for bb, t, fn in b.calls():
            if fn is None or b.is_cleanup(bb) or not re.search(r"FuturesUnorderedBounded::<.*>::new$", fn_name(fn) or ""):
                continue
            n += 1
            c = fl.operand_expr(t["args"][0])
            if c[0] == "proj" and c[2] == (".0",):
                c = c[1]
            ok = False
            det = expr_str(c)

            def _pos(c_):
                if c_[0] == "proj" and c_[2] == (".0",):
                    c_ = c_[1]
                if c_[0] == "const":
                    return int(c_[2]) >= 1
                return c_[0] == "binop" and c_[1].startswith("Mul") and c_[3][0] == "const" and int(c_[3][2]) >= 2 and \
                    c_[2][0] == "call" and (c_[2][1] or "").endswith("::capacity")
            if c[0] == "multi":
                from lib_flow import path_exprs
                try:
                    cs_ = path_exprs(b, fl, bb, t["args"][0])
                except RuntimeError:
                    cs_ = []
                if cs_ and all(_pos(x_) for x_ in cs_):
                    ok = True
                    det = " | ".join(expr_str(x_) for x_ in cs_) + " (each >= 1)"
            if ok:
                pass
            elif c[0] == "const":
                ok = int(c[2]) >= 1
            elif c[0] == "binop" and c[1].startswith("Mul") and c[3][0] == "const" and int(c[3][2]) >= 2 and c[2][0] == "call" and (c[2][1] or "").endswith("::capacity"):
                ok = True
                det += " (>= 1 by induction over the groups)"
            elif c[0] == "call" and re.search(r"::max$", c[1] or "") and any(a[0] == "const" and int(a[2]) >= 1 for a in c[2]):
                ok = True
            else:
                src = strip_refs(c)
                if src[0] == "param":
                    for sb in range(b.n):
                        for tgt, labs in fl.edge_labels(sb).items():
                            for lab in labs:
                                if lab[0] == "bool" and b.dominates(tgt, bb) and len(b.pred[tgt]) == 1 and lab[1][0] == "binop":
                                    op, a_, k_ = lab[1][1], strip_refs(lab[1][2]), lab[1][3]
                                    if a_ == src and k_[0] == "const":
                                        kv = int(k_[2])
                                        pos = (op == "Gt" and kv >= 0 and lab[2]) or (op == "Ge" and kv >= 1 and lab[2]) or \
                                              (op == "Ne" and kv == 0 and lab[2]) or (op == "Eq" and kv == 0 and not lab[2]) or \
                                              (op == "Le" and kv == 0 and not lab[2]) or (op == "Lt" and kv == 1 and not lab[2])
                                        if pos:
                                            ok = True
                                            det += " behind `%s %s %s` = %s" % (expr_str(a_), op, kv, lab[2])
            ctx.ob("R15.5", b, "group-capacity>=1@%s" % _site_label(b, bb), ok, b.loc(bb), det)
    ctx.floor("R15.5", "group-construction-sites", n, 5)
    # a group that comes from outside (a bounded collection handed to a function of the unbounded type: `From<Bounded>`,
    # `adopt(group)`, `extend_groups(..)`) has whatever capacity its owner gave it -- 0 included: it may become a group only
    # behind a test that its capacity is >= 1
    BND = r"(futures_unordered_bounded::FuturesUnorderedBounded|merge_bounded::MergeBounded)<"
    k = 0
    for b in ctx.facts.fn_bodies():
        if b.kind == "Closure" or not re.search(r"^(<)?(futures_unordered::FuturesUnordered|merge_unbounded::MergeUnbounded)", b.path):
            continue
        fl = ctx.flow(b)
        for pi in range(1, b.arg_count + 1):
            ty = b.locals[pi] or ""
            if not re.search(BND, ty) or ty.startswith("&"):
                continue
            # ... moved whole into an array / Vec / struct literal (not consumed through its own API)
            adopted = []
            for bb in range(b.n):
                if b.is_cleanup(bb):
                    continue
                for s_ in b.stmts(bb):
                    if s_["k"] == "assign" and s_["rv"]["k"] == "aggregate" and s_["rv"].get("agg") != "closure":
                        if any(o["k"] in ("move", "copy") and not o["place"]["p"] and strip_refs(fl.operand_expr(o)) == ("param", pi)
                               for o in s_["rv"]["ops"]):
                            adopted.append(bb)
                t_ = b.term(bb)
                if t_["k"] == "call" and re.search(r"alloc::vec::Vec::<.*>::(push|insert)$", fn_name((t_["func"].get("fn"))) or ""):
                    if strip_refs(fl.operand_expr(t_["args"][-1])) == ("param", pi):
                        adopted.append(bb)
            if not adopted:
                continue
            k += 1
            ok = False
            for sb in range(b.n):
                for tgt, labs in fl.edge_labels(sb).items():
                    for lab in labs:
                        if lab[0] != "bool" or lab[1][0] != "binop":
                            continue
                        op, a_, k_ = lab[1][1], strip_refs(lab[1][2]), lab[1][3]
                        if a_[0] == "call" and (a_[1] or "").endswith("::capacity") and a_[2] and strip_refs(a_[2][0]) == ("param", pi) and k_[0] == "const":
                            kv = int(k_[2])
                            pos = (op == "Gt" and kv >= 0 and lab[2]) or (op == "Ge" and kv >= 1 and lab[2]) or (op == "Ne" and kv == 0 and lab[2]) or \
                                  (op == "Eq" and kv == 0 and not lab[2]) or (op == "Le" and kv == 0 and not lab[2]) or (op == "Lt" and kv == 1 and not lab[2])
                            # every use of the parameter as a group lies behind that edge
                            # every place where the parameter becomes a group lies behind that edge
                            if pos and len(b.pred[tgt]) == 1 and all(b.dominates(tgt, ab) for ab in adopted):
                                ok = True
            ctx.ob("R15.5", b, "adopted-group-has-capacity>=1:param%d" % pi, ok, d_loc(b),
                   "a %s received by value becomes part of the unbounded collection; capacity tested >= 1 first: %s" % (ty.split("<")[0].split("::")[-1], ok))
    ctx.ob("R15.5", "<crate>", "functions adopting foreign groups examined", True, "", "%d" % k)


def run(ctx):
    R = roles(ctx)
    R.insert_fn, R.remove_fn
    r15_1(ctx, R)
    r15_5(ctx, R)
    res = c02.r2_3(ctx, R)
    ctx.rule("R2.3", "see C02 R2.3 (shared): slot-map insert/remove effects all-or-none; none exactly on refusal")
    counter, head = res["INSERT"]
    ctx.need(counter is not None and head is not None, "COUNTER/HEAD")
    c06.r6_3(ctx, R)
    ctx.rule("R6.3", "see C06 R6.3 (shared): refusal returns the argument, no closure call, push* panics only after refusal")
    r15_2b(ctx, R)
    r15_3(ctx, R, counter)
    r15_4(ctx, R, head)
    c02.r2_6(ctx, R)
    ctx.rule("R2.6", "see C02 R2.6 (shared): unbounded push performs exactly one insertion on every path")
    c02.r2_2(ctx, R)
    ctx.rule("R2.2", "see C02 R2.2 (shared): slots are vacated only by callers of the drain -- anything else (an unwind guard, a clear) "
                     "changes len() without an output having been yielded")
    import c17
    c17.r17_3(ctx, R)
    ctx.rule("R17.3", "see C17 R17.3 (shared): size_hint of every collection is (len(), Some(len())) -- the fourth observer agrees "
                      "with len / is_empty / is_terminated")
