"""C18 -- allocation discipline: bounded family allocates nothing after construction; unbounded only on growth."""
import re

from lib_facts import place_str, fn_name
from lib_flow import strip_refs, expr_calls, expr_str, variant_facts, must_pass_flags, first_entries, only_via
from roles import roles, direct_sites, callee_body
from c01 import _site_label, d_loc, group_loop_fns

EXPLANATION = (
    "May-allocate effect analysis over the crate's resolved call graph with a frozen table of allocating / non-allocating "
    "core+alloc entry points: R18.1 every function of the bounded family (bounded unordered collection, slot map, waker "
    "list incl. the four vtable functions and the Drop impls, bounded merge, buffered_unordered / try_buffered_unordered / "
    "for_each_concurrent adapters, join_all / try_join_all) other than the constructors reaches no allocating callee "
    "(Vec::new().into_boxed_slice() and Box<[T]>::into_vec are the non-allocating conversions; cloning a child waker is a "
    "counter bump by C03 R3.1; user code and the task's own waker are outside the crate); R18.2 in the unbounded "
    "collections' push every allocating call site is dominated by 'no group yet' or by the refusal edge of try_push on the "
    "last group, and the fresh group's capacity is capacity(last) * c with constant c >= 2 (or the minimum-capacity "
    "constant); their poll_next allocates nowhere except Vec::push of the group just Vec::remove'd from the same vector; "
    "R18.3 after removing an exhausted group, if no group is left or the removed group was the last one, pushing it back "
    "is must-pass-through (the largest allocation is retained); R18.4 the ordered collections' poll_next allocate only via "
    "BinaryHeap::push (amortised) and the inner queue; re-base uses only the non-allocating heap<->vec conversions. The "
    "logarithmic bound itself (numeric) is not decided.")
ASSUMPTIONS = [
    "allocation behaviour of the tabled core/alloc entry points (Vec::new, into_boxed_slice on len==cap, into_vec, From<Vec> for BinaryHeap do not allocate)",
    "children, upstreams, closures and the task waker are user code outside the crate (the property's own observation rule)",
    "cordyceps / diatomic-waker / spin operations used here do not allocate (intrusive queue; register clones only the task waker)",
]

ALLOCATING = [
    (r"^alloc::alloc::(alloc|alloc_zeroed|realloc)$", "raw allocation"),
    (r"^alloc::vec::Vec::<.*>::(with_capacity|push|reserve|reserve_exact|resize|resize_with|extend_from_slice|insert|append|split_off|shrink_to_fit|try_reserve)$", "Vec growth"),
    (r"^alloc::boxed::Box::<.*>::(new|pin|new_uninit|new_uninit_slice|from)$", "Box allocation"),
    (r"^alloc::collections::BinaryHeap::<.*>::(push|with_capacity|reserve|append)$", "BinaryHeap growth"),
    (r"(^|<)alloc::vec::Vec<.*> as core::iter::FromIterator|FromIterator<.*>>::from_iter$|^core::iter::Iterator::collect$|Iterator>::collect$", "collect / from_iter"),
    (r"^alloc::slice::<impl \[T\]>::(to_vec|repeat|concat|join)$|ToOwned>::to_owned$", "slice copy"),
    (r"^alloc::(sync::Arc|rc::Rc)::<.*>::new$", "Arc/Rc allocation"),
    (r"^alloc::string::String::|^alloc::fmt::format$", "String"),
    (r"as core::clone::Clone>::clone$", "clone (checked for container types)"),
    (r"^core::iter::Extend::extend$|Extend<.*>>::extend$", "extend"),
]
NON_ALLOC_NOTE = {
    r"alloc::vec::Vec::<.*>::new$": "empty Vec",
    r"alloc::vec::Vec::<.*>::into_boxed_slice$": "no-op when len == capacity (checked: receiver is Vec::new())",
    r"alloc::slice::<impl \[T\]>::into_vec": "Box<[T]> -> Vec<T> reuses the allocation",
    r"alloc::collections::BinaryHeap::<.*>::(into_vec|new|peek_mut|len|is_empty)$": "no allocation",
    r"core::mem::take": "Default::default() of BinaryHeap/Vec is empty",
}

FAMILY = r"^(<)?(futures_unordered_bounded|merge_bounded|slot_map|waker_list|join_all|try_join_all|buffered::unordered|buffered::for_each)::|" \
         r"^(<)?try_buffered::TryBufferUnordered"
CONSTRUCT = r"::(new|with_capacity|from_iter|join_all|try_join_all|default|buffered_unordered|try_buffered_unordered|for_each_concurrent)$"


def direct_alloc_sites(ctx, b):
    """[(bb, callee, why)] allocating call sites of b itself (table lookup + the conditional lines)."""
    fl = ctx.flow(b)
    out = []
    for bb, t, fn in b.calls():
        if fn is None or b.is_cleanup(bb):
            continue
        names = [fn.get("def") or "", fn.get("res") or ""]
        for rx, why in ALLOCATING:
            if any(re.search(rx, n_) for n_ in names):
                if "clone" in why:
                    a = t["args"][0]
                    ty = a["place"]["ty"] if a["k"] != "const" else a["ty"]
                    if not re.search(r"alloc::(vec|boxed|collections|string)", ty):
                        continue
                if "collect" in why or "from_iter" in rx:
                    # from_iter resolving to a crate impl is followed through the call graph instead
                    if callee_body(ctx.facts, fn) is not None:
                        continue
                out.append((bb, names[1] or names[0], why))
                break
        # into_boxed_slice: only on an empty Vec::new()
        if any(re.search(r"alloc::vec::Vec::<.*>::into_boxed_slice$", n_) for n_ in names):
            recv = strip_refs(fl.operand_expr(t["args"][0]))
            empty = recv[0] == "call" and re.search(r"alloc::vec::Vec::<.*>::new$", recv[1] or "") is not None
            if not empty and not re.search(CONSTRUCT, b.path):
                out.append((bb, names[0], "into_boxed_slice of a possibly over-allocated Vec (may reallocate)"))
    return out


def may_alloc(ctx, b, memo, stack=()):
    """-> None or witness chain [(fn, loc, callee, why), ...]."""
    if b.path in memo:
        return memo[b.path]
    if b.path in stack:
        return None
    ds = direct_alloc_sites(ctx, b)
    if ds:
        bb, callee, why = ds[0]
        memo[b.path] = [(b.path, b.loc(bb), callee, why)]
        return memo[b.path]
    for bb, t, fn in b.calls():
        if fn is None or b.is_cleanup(bb):
            continue
        cb = callee_body(ctx.facts, fn)
        if cb is not None and cb.path != b.path:
            w = may_alloc(ctx, cb, memo, stack + (b.path,))
            if w:
                memo[b.path] = [(b.path, b.loc(bb), cb.path, "calls")] + w
                return memo[b.path]
    # closures created here run as part of this function's callees
    memo[b.path] = None
    return None


def r18_1(ctx, R, memo):
    ctx.rule("R18.1", "bounded family: every non-constructor function (incl. vtable entries, Drop impls, poll functions, "
                      "observers, Debug) has may_alloc = false under the frozen table")
    n = 0
    for b in ctx.facts.fn_bodies():
        if not re.search(FAMILY, b.path):
            continue
        if re.search(CONSTRUCT, b.path) or re.search(r"::layout$", b.path):
            continue
        if b.kind == "Closure" and re.search(CONSTRUCT, b.j.get("parent_fn") or ""):
            continue
        n += 1
        w = may_alloc(ctx, b, memo)
        ctx.ob("R18.1", b, "no-allocation-after-construction", w is None, d_loc(b),
               " -> ".join("%s@%s [%s: %s]" % (x[0].split("::")[-1], x[1], x[2], x[3]) for x in (w or [])))
    ctx.floor("R18.1", "post-construction-functions", n, 30)
    # constructors do allocate (sanity: the table is live)
    ctor = ctx.facts.bodies.get("waker_list::WakerList::new")
    ctx.ob("R18.1", "<crate>", "table-is-live(constructor allocates)", ctor is not None and may_alloc(ctx, ctor, memo) is not None, "", "")


def _field_ty(ctx, b, fname):
    """Type of field `fname` of the struct whose method b is."""
    for path, adt in ctx.facts.adts.items():
        if adt["kind"] == "struct" and (b.path.startswith(path + "::") or b.path.startswith("<" + path)):
            for f in adt["variants"][0]["fields"]:
                if f["name"] == fname:
                    return f["ty"]
    return None


def r18_2(ctx, R, memo):
    ctx.rule("R18.2", "unbounded family: in push every allocating site is dominated by the None arm of last_mut or the Err "
                      "edge of try_push(last); new capacity = capacity(last) * c, c >= 2, or the minimum-capacity constant; "
                      "poll_next allocates only via Vec::push of the group just Vec::remove'd from the same vector")
    n = 0
    UNB = r"(futures_unordered::FuturesUnordered|merge_unbounded::MergeUnbounded)"
    for b in ctx.facts.fn_bodies():
        is_push = re.search(r"^%s::<\w+>::push$" % UNB, b.path) is not None
        if not is_push:
            # any other function of the unbounded types that appends a freshly built group to the vector (an `extend`, an
            # `append`, a `reserve` ...) is held to the same growth discipline; the constructors build the first group
            if not re.search(r"^<?%s(::<|<)" % UNB, b.path) or b.kind == "Closure":
                continue
            if re.match(r"%s<" % UNB, b.locals[0]):
                continue        # returns the collection itself: new / with_capacity / from_iter / default
            builds = [1 for bb_, t_, fn_ in b.calls() if fn_ and not b.is_cleanup(bb_) and
                      re.search(r"(FuturesUnorderedBounded|MergeBounded)::<.*>::(new|with_capacity)$|FromIterator", fn_name(fn_) or "")]
            appends = [1 for bb_, t_, fn_ in direct_sites(b, r"alloc::vec::Vec::<.*>::(push|insert|extend|append)$")]
            if not (builds and appends):
                continue
        n += 1
        fl = ctx.flow(b)
        vf = variant_facts(b, fl)
        lasts = [(bb, place_str(t["dest"])) for bb, t, fn in direct_sites(b, r"core::slice::<impl \[T\]>::last_mut$")]
        # the refusal must be the one reported by try_push on the last group: its destination has no other definition
        tries = [(bb, place_str(t["dest"])) for bb, t, fn in b.calls() if fn and not b.is_cleanup(bb) and re.search(r"::try_push$", fn_name(fn) or "")
                 and not t["dest"]["p"] and fl.single_def(t["dest"]["l"]) not in (None, "param")
                 and strip_refs(fl.operand_expr(t["args"][0]))[0] in ("proj", "call", "multi")]
        sites = list(direct_alloc_sites(ctx, b))
        for bb, t, fn in b.calls():
            cb = callee_body(ctx.facts, fn)
            if cb is not None and not b.is_cleanup(bb) and may_alloc(ctx, cb, memo):
                sites.append((bb, cb.path, "crate callee that may allocate"))
        try_bbs = {bb for bb, _ in tries}
        last_bbs = {bb for bb, _ in lasts} | {bb for bb, t, fn in direct_sites(b, r"core::slice::<impl \[T\]>::last$")}

        def is_groups_vec(x):
            x = strip_refs(x)
            return x[0] == "proj" and strip_refs(x[1])[0] == "param" and x[2] and x[2][-1].startswith(".") and \
                re.search(r"Vec<(futures_unordered_bounded::FuturesUnorderedBounded|merge_bounded::MergeBounded)<", _field_ty(ctx, b, x[2][-1][1:]) or "") is not None

        def no_group_edge(lab):
            x = lab[1]
            if lab[0] == "variant" and lab[2] == "None" or lab[0] == "notvariants" and "Some" in lab[2]:
                return x[0] == "call" and x[3] in last_bbs
            if lab[0] == "bool" and x[0] == "call" and re.search(r"Vec::<.*>::is_empty$|core::slice::<impl \[T\]>::is_empty$", x[1] or "") and lab[2] is True:
                return is_groups_vec(x[2][0]) or any(is_groups_vec(c_[2][0]) for c_ in expr_calls(x[2][0]) if c_[2])
            if lab[0] == "bool" and x[0] == "binop" and ((x[1] == "Eq" and lab[2] is True) or (x[1] == "Ne" and lab[2] is False)):
                for l_, r_ in ((x[2], x[3]), (x[3], x[2])):
                    if r_[0] == "const" and r_[2] == "0" and l_[0] == "call" and re.search(r"Vec::<.*>::len$", l_[1] or "") and is_groups_vec(l_[2][0]):
                        return True
            return False

        def refused_edge(lab):
            x = lab[1]
            if lab[0] == "variant" and lab[2] == "Err" or lab[0] == "notvariants" and "Ok" in lab[2]:
                return x[0] == "call" and x[3] in try_bbs
            if lab[0] == "bool" and x[0] == "call" and x[2] and (((x[1] or "").endswith("::is_err") and lab[2] is True) or ((x[1] or "").endswith("::is_ok") and lab[2] is False)):
                y = strip_refs(x[2][0])
                return y[0] == "call" and y[3] in try_bbs
            return False
        reg_none = only_via(b, fl, no_group_edge)
        reg_err = only_via(b, fl, refused_edge)
        for bb, callee, why in sites:
            fs = vf.get(bb, frozenset())
            no_group = any((d, "None") in fs for _, d in lasts) or bb in reg_none
            last_full = any((d, "Err") in fs for _, d in tries) or bb in reg_err
            if not (no_group or last_full):
                # the refusal may come back as the verdict of an inlined helper (`if let Some(next) = place_or_grow(..)`), tested
                # again after a join: decide on every feasible arrival
                from lib_flow import all_arrivals_cross_cf
                try:
                    ok_, na_, bad_ = all_arrivals_cross_cf(b, fl, bb, lambda lab: no_group_edge(lab) or refused_edge(lab))
                except RuntimeError:
                    ok_ = False
                if ok_:
                    last_full = "every one of %d feasible arrivals" % na_
            ctx.ob("R18.2", b, "alloc-only-on-growth@%s" % _site_label(b, bb), bool(no_group or last_full), b.loc(bb),
                   "%s (%s); behind 'no group yet': %s, behind 'last group refused': %s" % (callee.split("::")[-1], why, no_group, last_full))
        # capacities of fresh groups
        for bb, t, fn in b.calls():
            if fn and not b.is_cleanup(bb) and re.search(r"FuturesUnorderedBounded::<.*>::new$", fn_name(fn) or ""):
                c0 = fl.operand_expr(t["args"][0])
                cands = [c0]
                if c0[0] == "multi":
                    # the capacity reaches the constructor through a join (`last().map_or(MIN, |t| t.capacity() * 2)`): what it is
                    # on each feasible path
                    from lib_flow import path_exprs
                    try:
                        cands = path_exprs(b, fl, bb, t["args"][0]) or [c0]
                    except RuntimeError:
                        cands = [c0]
                ok = True
                dets = []
                for c in cands:
                    if c[0] == "proj" and c[2] == (".0",):
                        c = c[1]
                    okc = False
                    if c[0] == "const":
                        okc = int(c[2]) >= 1
                        dets.append("minimum capacity constant %s" % c[2])
                    elif c[0] == "binop" and c[1].startswith("Mul"):
                        a, k = c[2], c[3]
                        okc = a[0] == "call" and (a[1] or "").endswith("::capacity") and k[0] == "const" and int(k[2]) >= 2
                        dets.append("%s" % expr_str(c))
                    else:
                        dets.append(expr_str(c))
                    ok = ok and okc
                det = " | ".join(dets)
                ctx.ob("R18.2", b, "fresh-group-capacity-doubles@%s" % _site_label(b, bb), ok, b.loc(bb), det)
    ctx.floor("R18.2", "unbounded-push-fns", n, 2)
    for b in group_loop_fns(ctx):
        fl = ctx.flow(b)
        sites = list(direct_alloc_sites(ctx, b))
        for bb, t, fn in b.calls():
            cb = callee_body(ctx.facts, fn)
            if cb is not None and not b.is_cleanup(bb) and may_alloc(ctx, cb, memo):
                sites.append((bb, cb.path, "crate callee that may allocate"))
        removes = [(bb, t) for bb, t, fn in direct_sites(b, r"alloc::vec::Vec::<.*>::remove$")]
        for bb, callee, why in sites:
            t = b.term(bb)
            ok = False
            if re.search(r"Vec::<.*>::push$", callee):
                val = fl.operand_expr(t["args"][1])
                vec = strip_refs(fl.operand_expr(t["args"][0]))
                for rbb, rt in removes:
                    rvec = strip_refs(fl.operand_expr(rt["args"][0]))
                    if val[0] == "call" and val[3] == rbb and vec == rvec and b.dominates(rbb, bb):
                        ok = True
            ctx.ob("R18.2", b, "poll_next-alloc-site@%s" % _site_label(b, bb), ok, b.loc(bb), "%s (%s); re-push of the removed group: %s" % (callee.split("::")[-1], why, ok))


def r18_3(ctx, R):
    ctx.rule("R18.3", "largest group retained: after Vec::remove of an exhausted group, on the true edge of "
                      "groups.is_empty() and on the true edge of cursor == groups.len() the removed group is pushed back "
                      "(must-pass-through) before the loop continues or the function returns")
    for b in group_loop_fns(ctx):
        fl = ctx.flow(b)
        removes = [(bb, t) for bb, t, fn in direct_sites(b, r"alloc::vec::Vec::<.*>::remove$")]
        pushes = []
        for bb, t, fn in direct_sites(b, r"alloc::vec::Vec::<.*>::push$"):
            val = fl.operand_expr(t["args"][1])
            if val[0] == "call" and any(val[3] == rbb for rbb, _ in removes):
                pushes.append(bb)
        def guarded_not_last(rbb):
            """remove dominated by the true edge of `cursor + 1 < groups.len()` (the removed group is not the last one)."""
            for sb in range(b.n):
                for tgt, labs in fl.edge_labels(sb).items():
                    for lab in labs:
                        if lab[0] == "bool" and lab[2] is True and lab[1][0] == "binop" and lab[1][1] == "Lt" and b.dominates(tgt, rbb) and len(b.pred[tgt]) == 1:
                            l_, r_ = lab[1][2], lab[1][3]
                            if l_[0] == "proj" and l_[2] == (".0",):
                                l_ = l_[1]
                            plus1 = l_[0] == "binop" and l_[1].startswith("Add") and l_[3][0] == "const" and l_[3][2] == "1"
                            is_len = r_[0] == "call" and re.search(r"Vec::<.*>::len$", r_[1] or "") is not None
                            if plus1 and is_len:
                                return True
            return False
        all_guarded = bool(removes) and all(guarded_not_last(rbb) for rbb, _ in removes)
        if removes and not all_guarded and not pushes:
            # any other test that keeps the last group out of the removal (e.g. `match groups.len() - at { 1 => keep, _ => remove }`)
            from groups import removal_never_of_last, cursor_events
            ce = cursor_events(ctx, R, b)
            inner_ = [bb for bb, t, fn in b.calls() if fn and not b.is_cleanup(bb)
                      and re.search(r"futures_core::Stream::poll_next$|as futures_core::Stream>::poll_next$", fn["def"])]
            if ce is not None and len(inner_) == 1:
                all_guarded = all(removal_never_of_last(ctx, b, fl, inner_[0], rbb, ce[0])[0] for rbb, _ in removes)
        ctx.ob("R18.3", b, "has-remove-and-push-back", bool(removes) and (len(pushes) >= 2 or all_guarded), d_loc(b),
               "remove %d push-back %d; every removal guarded by 'not the last group': %s" % (len(removes), len(pushes), all_guarded))
        if all_guarded:
            continue
        for rbb, rt in removes:
            k = 0
            for sb in range(b.n):
                if not b.dominates(rbb, sb):
                    continue
                for tgt, labs in fl.edge_labels(sb).items():
                    for lab in labs:
                        if lab[0] != "bool" or lab[2] is not True:
                            continue
                        c = lab[1]
                        is_empty = c[0] == "call" and re.search(r"Vec::<.*>::is_empty$", c[1] or "") is not None
                        was_last = c[0] == "binop" and c[1] == "Eq" and any(x[0] == "call" and re.search(r"Vec::<.*>::len$", x[1] or "") for x in (c[2], c[3]))
                        if is_empty or was_last:
                            k += 1
                            stops = b.returns() + [h for h in b.loops()]
                            ok = must_pass_flags(b, fl, tgt, stops, pushes)
                            ctx.ob("R18.3", b, "push-back-when-%s" % ("no-group-left" if is_empty else "removed-was-last"), ok, b.loc(sb))
            ctx.ob("R18.3", b, "retention-tests-present", k >= 2, b.loc(rbb), "%d retention conditions after the removal" % k)


def r18_4(ctx, R, memo):
    ctx.rule("R18.4", "ordered: the only direct allocating callee of the ordered poll_next functions is BinaryHeap::push; "
                      "no collect / from_iter / to_vec / clone on the re-base path")
    n = 0
    for b in ctx.facts.fn_bodies():
        if not re.search(r"^<futures_ordered(_bounded)?::.* as futures_core::Stream>::poll_next$", b.path):
            continue
        n += 1
        ds = direct_alloc_sites(ctx, b)
        bad = [x for x in ds if not re.search(r"BinaryHeap::<.*>::push$", x[1])]
        ctx.ob("R18.4", b, "only-heap-push-allocates", not bad, d_loc(b), "; ".join("%s at %s" % (x[1], b.loc(x[0])) for x in bad))
    ctx.floor("R18.4", "ordered-poll_next", n, 2)


def r18_5(ctx, R):
    ctx.rule("R18.5", "who may shrink the groups vector: outside poll_next (R18.3) and the constructors, a function of an unbounded "
                      "collection that removes groups must keep the last one -- the largest allocation, the one `push` doubles from. "
                      "Decided by replaying the vector operations of every loop-free return path on lists of 2..4 group identities "
                      "(truncate / clear / pop / remove / swap_remove / swap / push of a removed group, indices evaluated over the "
                      "list's length); reported only where the replay shows the last group gone while others existed (an operation "
                      "the replay cannot follow, e.g. `retain` with a closure, is left undecided)")
    from groups import _eval_nc, _NoVal
    from lib_flow import sensitive_paths
    UNB = r"(futures_unordered::FuturesUnordered|merge_unbounded::MergeUnbounded)"
    loops = {b.path for b in group_loop_fns(ctx)}
    n = 0
    for b in ctx.facts.fn_bodies():
        if b.kind == "Closure" or b.path in loops or not re.search(r"^<?%s(::<|<| )" % UNB, b.path):
            continue
        if re.match(r"%s<" % UNB, b.locals[0] or ""):
            continue
        ops = {}
        for bb, t, fn in direct_sites(b, r"alloc::vec::Vec::<.*>::(truncate|clear|pop|remove|swap_remove|push|drain|retain|split_off|dedup\w*)$|core::slice::<impl \[T\]>::swap$"):
            ops[bb] = ((fn_name(fn) or "").split("::")[-1], t)
        if not any(k in ("truncate", "clear", "pop", "remove", "swap_remove", "drain", "split_off") for k, _ in ops.values()):
            continue
        fl = ctx.flow(b)
        # the vector operated on must be the groups vector
        def on_groups(t):
            x = strip_refs(fl.operand_expr(t["args"][0]))
            for c in [x] + list(expr_calls(x)):
                pass
            return ".groups" in repr(x)
        if not any(on_groups(t) for _, t in ops.values()):
            continue
        n += 1
        bad = None
        try:
            for kind, path, know in sensitive_paths(b, fl, 1):
                if kind != "return":
                    continue
                for size in (2, 3, 4):
                    lst = list(range(size))
                    removed = {}
                    unknown = False
                    popped = {}          # pop site -> the variant its result must have had on this replay
                    for j_, bb in enumerate(path):
                        # a path that takes the `None` arm of a pop that (on this replay) returned Some is not this replay's path
                        if j_ + 1 < len(path):
                            for lab in fl.edge_labels(bb).get(path[j_ + 1], []):
                                if lab[0] == "variant" and strip_refs(lab[1])[0] == "call" and strip_refs(lab[1])[3] in popped \
                                        and lab[2] in ("Some", "None") and lab[2] != popped[strip_refs(lab[1])[3]]:
                                    unknown = True
                        if unknown:
                            break
                        if bb not in ops or not on_groups(ops[bb][1]):
                            continue
                        k, t = ops[bb]
                        def ev(a):
                            return int(_eval_nc(fl.operand_expr(a), len(lst), 0, "<no cursor>"))
                        try:
                            if k == "clear":
                                lst = []
                            elif k == "truncate":
                                lst = lst[:ev(t["args"][1])]
                            elif k == "pop":
                                popped[bb] = "Some" if lst else "None"
                                if lst:
                                    removed[bb] = lst.pop()
                            elif k == "remove":
                                removed[bb] = lst.pop(ev(t["args"][1]))
                            elif k == "swap_remove":
                                i = ev(t["args"][1])
                                removed[bb] = lst[i]
                                lst[i] = lst[-1]
                                lst.pop()
                            elif k == "swap":
                                i, j = ev(t["args"][1]), ev(t["args"][2])
                                lst[i], lst[j] = lst[j], lst[i]
                            elif k == "push":
                                v = fl.operand_expr(t["args"][-1])
                                src = [c[3] for c in [v] + list(expr_calls(v)) if c[0] == "call" and c[3] in removed]
                                lst.append(removed[src[0]] if src else 100 + len(lst))
                            else:
                                unknown = True
                        except (_NoVal, IndexError, TypeError, ValueError):
                            unknown = True
                        if unknown:
                            break
                    if not unknown and (size - 1) not in lst and len(lst) < size:
                        bad = (path, size, lst)
                        break
                if bad:
                    break
        except RuntimeError:
            pass
        ctx.ob("R18.5", b, "shrinking-keeps-the-largest-group", bad is None, d_loc(b),
               "replayed on 2..4 groups: the last group is kept" if bad is None else
               "with %d groups the function leaves %s: the last (largest) group is dropped" % (bad[1], bad[2]), path=bad[0] if bad else None)
    ctx.ob("R18.5", "<crate>", "group-shrinking functions outside poll_next examined", True, "", "%d" % n)


def run(ctx):
    R = roles(ctx)
    memo = {}
    r18_5(ctx, R)
    r18_1(ctx, R, memo)
    r18_2(ctx, R, memo)
    r18_3(ctx, R)
    import c11
    k = c11.group_removal_rule(ctx, R, "R18.3")
    ctx.floor("R18.3", "group-removal-sites", k, 2)
    r18_4(ctx, R, memo)
