#!/usr/bin/env python3
"""Run all 18 checks against behaviour-preserving refactorings kept under /verif/benign/<name>/patch.diff
(written by independent sub-agents, each confirmed to keep the 44 baseline tests green).  Any report is a FALSE ALARM.
  benign.py run [name ...]"""
import glob, json, os, sys
HERE = os.path.dirname(os.path.abspath(__file__))
VERIF = os.path.dirname(os.path.dirname(HERE))
sys.path.insert(0, HERE)
import seeded


def main():
    names = sys.argv[2:] if len(sys.argv) > 2 else None
    dirs = sorted(d for d in glob.glob(os.path.join(VERIF, "benign", "*")) if os.path.isfile(os.path.join(d, "patch.diff")))
    if names:
        dirs = [d for d in dirs if os.path.basename(d) in names]
    res = []
    for d in dirs:
        r = seeded.run_seed(d)
        res.append(r)
        st = "silent" if r["status"] == "MISSED" else ("FALSE-ALARM" if r["status"] == "reported" else r["status"])
        print("%-10s %-12s %s" % (r["seed"], st, ",".join(r.get("reported_by", []))))
        for p in r.get("reported_by", [])[:4]:
            for v in r["details"][p][:2]:
                print("      %s: %s" % (p, v[:220]))
    json.dump(res, open(os.path.join(VERIF, "benign", "RESULTS.json"), "w"), indent=1)
    print("benign refactorings: %d, silent: %d" % (len(res), sum(1 for r in res if r["status"] == "MISSED")))


if __name__ == "__main__":
    main()
