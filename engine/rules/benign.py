#!/usr/bin/env python3
"""Run all 18 checks against behaviour-preserving refactorings kept under /verif/benign/<name>/patch.diff
(written by independent sub-agents, each confirmed to keep the 44 baseline tests green).  Any report is a FALSE ALARM.
  benign.py run [name ...]"""
import glob, json, os, sys
HERE = os.path.dirname(os.path.abspath(__file__))
VERIF = os.path.dirname(os.path.dirname(HERE))
sys.path.insert(0, HERE)
import seeded


def additive():
    """Corrected twins of the ADDITIVE seeded changes (additive_twins/<name>): a correct new API, confirmed against the property
    its seed attacked only -- so only that property's own check is expected to stay silent (the other 17 are reported for
    information: a correct `clear()` for C18 may still leave stale queue entries, which is C14's business)."""
    dirs = sorted(d for d in glob.glob(os.path.join(VERIF, "additive_twins", "*")) if os.path.isfile(os.path.join(d, "patch.diff")))
    res = []
    for d in dirs:
        meta = json.load(open(os.path.join(d, "meta.json")))
        own = "C" + os.path.basename(d)[1:3]
        r = seeded.run_seed(d)
        r["own_property"] = own
        r["own_silent"] = own not in r.get("reported_by", [])
        res.append(r)
        print("%-8s own check %s: %-9s others reporting: %s" % (r["seed"], own, "silent" if r["own_silent"] else "REPORTED",
                                                               ",".join(p for p in r.get("reported_by", []) if p != own) or "-"))
        if not r["own_silent"]:
            for v in r["details"][own][:2]:
                print("      %s: %s" % (own, v[:220]))
    json.dump(res, open(os.path.join(VERIF, "additive_twins", "RESULTS.json"), "w"), indent=1)
    print("additive twins: %d, own check silent: %d" % (len(res), sum(1 for r in res if r["own_silent"])))


def main():
    if len(sys.argv) > 1 and sys.argv[1] == "additive":
        return additive()
    names = sys.argv[2:] if len(sys.argv) > 2 else None
    dirs = sorted(d for d in glob.glob(os.path.join(VERIF, "benign", "*")) if os.path.isfile(os.path.join(d, "patch.diff")))
    if names:
        dirs = [d for d in dirs if os.path.basename(d) in names]
    res = []
    for d in dirs:
        r = seeded.run_seed(d)
        res.append(r)
        st = "silent" if r["status"] == "MISSED" else ("FALSE-ALARM" if r["status"] == "reported" else r["status"])
        print("%-10s %-12s %s" % (r["seed"], st, ",".join(r.get("reported_by", []))))
        for p in r.get("reported_by", [])[:4]:
            for v in r["details"][p][:2]:
                print("      %s: %s" % (p, v[:220]))
    json.dump(res, open(os.path.join(VERIF, "benign", "RESULTS.json"), "w"), indent=1)
    print("benign refactorings: %d, silent: %d" % (len(res), sum(1 for r in res if r["status"] == "MISSED")))


if __name__ == "__main__":
    main()
