"""Sensitivity corpus (DESIGN §6): single-edit mutants of /repo, each applied to a scratch copy outside
/repo and /verif; the owning property's rules are re-run on the copy (static analysis only) and the
evidence records which mutants were reported and by which rule instance.

A mutant is a JSON file  mutants/<PROP>/<name>.json :
  {"file": "src/x.rs", "old": "<exact text, unique>", "new": "<replacement>", "breaks": "...", "expect": ["R1.4"]}
(text replacement against the *current* tree; if `old` is absent or not unique the mutant is skipped as stale).

CLI:  mutants.py run <PROP> [name]     run the corpus of a property (or one mutant), print a table
      mutants.py all                   run every property's corpus
"""
import glob
import json
import os
import shutil
import subprocess
import sys
import tempfile
from concurrent.futures import ThreadPoolExecutor

HERE = os.path.dirname(os.path.abspath(__file__))
VERIF = os.path.dirname(os.path.dirname(HERE))
MUT_DIR = os.path.join(VERIF, "mutants")


def corpus(prop):
    out = []
    for p in sorted(glob.glob(os.path.join(MUT_DIR, prop, "*.json"))):
        with open(p) as fh:
            m = json.load(fh)
        m["name"] = os.path.splitext(os.path.basename(p))[0]
        out.append(m)
    return out


def copy_tree(repo, dst):
    files = subprocess.check_output(["git", "-C", repo, "ls-files"], text=True).split()
    for f in files:
        if f.startswith(("benches/", "tests/", ".github/")):
            continue
        src = os.path.join(repo, f)
        if not os.path.exists(src):
            continue
        d = os.path.join(dst, f)
        os.makedirs(os.path.dirname(d), exist_ok=True)
        shutil.copy2(src, d)
    # benches are declared in Cargo.toml: keep the manifest valid without copying them
    man = os.path.join(dst, "Cargo.toml")
    txt = open(man).read()
    if "[[bench]]" in txt:
        txt = txt[:txt.index("[[bench]]")]
        open(man, "w").write(txt)


def apply_edits(root, m):
    edits = m.get("edits") or [m]
    for e in edits:
        p = os.path.join(root, e["file"])
        if not os.path.exists(p):
            return "stale: file missing"
        s = open(p).read()
        if s.count(e["old"]) != 1:
            return "stale: anchor text occurs %d times" % s.count(e["old"])
        open(p, "w").write(s.replace(e["old"], e["new"]))
    return None


def run_one(prop, m, repo):
    scratch = tempfile.mkdtemp(prefix="fbmut.")
    try:
        root = os.path.join(scratch, "repo")
        os.makedirs(root)
        copy_tree(repo, root)
        err = apply_edits(root, m)
        if err:
            return {"mutant": m["name"], "status": "skipped", "why": err}
        ev = os.path.join(scratch, "ev")
        r = subprocess.run([sys.executable, os.path.join(HERE, "run.py"), prop, "--repo", root, "--tier", "quick",
                            "--evidence-dir", ev, "--no-mutants"], stdout=subprocess.PIPE, stderr=subprocess.STDOUT,
                           text=True)
        out = r.stdout
        if "fact extraction failed" in out:
            return {"mutant": m["name"], "status": "does-not-compile", "why": out[-800:]}
        viol = [l.strip()[len("violated: "):].split("  at ")[0] for l in out.splitlines() if l.strip().startswith("violated: ")]
        anchor = [l.strip() for l in out.splitlines() if "reason=anchor lost" in l]
        if m.get("benign"):
            return {"mutant": m["name"], "status": "FALSE-ALARM" if r.returncode != 0 else "silent", "benign": True,
                    "reported_by": viol[:6] + anchor[:1], "breaks": m.get("breaks", "")}
        return {"mutant": m["name"], "status": "reported" if r.returncode == 1 else "MISSED",
                "reported_by": viol[:6] + anchor[:1], "breaks": m.get("breaks", "")}
    finally:
        shutil.rmtree(scratch, ignore_errors=True)


def sensitivity(prop, repo="/repo", only=None):
    ms = [m for m in corpus(prop) if only is None or m["name"] == only]
    if not ms:
        return {"mutants_applied": 0, "mutants_reported": 0, "mutants": []}
    with ThreadPoolExecutor(max_workers=min(16, len(ms))) as ex:
        res = list(ex.map(lambda m: run_one(prop, m, repo), ms))
    applied = [r for r in res if r["status"] in ("reported", "MISSED")]
    ben = [r for r in res if r["status"] in ("silent", "FALSE-ALARM")]
    return {
        "mutants_applied": len(applied),
        "mutants_reported": sum(1 for r in applied if r["status"] == "reported"),
        "benign_variants_applied": len(ben),
        "benign_variants_silent": sum(1 for r in ben if r["status"] == "silent"),
        "mutants_skipped": [r["mutant"] + ": " + r.get("why", "")[:80] for r in res
                            if r["status"] not in ("reported", "MISSED", "silent", "FALSE-ALARM")],
        "mutants": res,
    }


def main():
    if len(sys.argv) < 2:
        print(__doc__)
        return
    if sys.argv[1] == "run":
        prop = sys.argv[2].upper()
        only = sys.argv[3] if len(sys.argv) > 3 else None
        r = sensitivity(prop, os.environ.get("VERIF_REPO", "/repo"), only)
        for m in r["mutants"]:
            print("%-8s %-40s %-10s %s" % (prop, m["mutant"], m["status"], "; ".join(m.get("reported_by", []))[:200] or m.get("why", "")[:300]))
        print("%s: applied %d reported %d" % (prop, r["mutants_applied"], r["mutants_reported"]))
    elif sys.argv[1] == "all":
        tot_a = tot_r = 0
        for d in sorted(os.listdir(MUT_DIR)):
            if not os.path.isdir(os.path.join(MUT_DIR, d)):
                continue
            r = sensitivity(d, os.environ.get("VERIF_REPO", "/repo"))
            for m in r["mutants"]:
                print("%-8s %-40s %-10s %s" % (d, m["mutant"], m["status"], "; ".join(m.get("reported_by", []))[:160] or m.get("why", "")[:200]))
            tot_a += r["mutants_applied"]
            tot_r += r["mutants_reported"]
        print("TOTAL applied %d reported %d" % (tot_a, tot_r))


if __name__ == "__main__":
    main()
