"""C06 -- every future and every output dropped exactly once; nothing leaks (structural part)."""
import re

from lib_facts import place_str, fn_name, callee_matches
from lib_flow import (strip_refs, expr_calls, expr_str, variant_facts, feasible_cfg, enumerate_paths)
from lib_inter import returned_exprs
from lib_drops import live_drops, owns, is_output_like
from roles import roles, direct_sites, callee_body, reaches, RE_PIN_SET
from c01 import _site_label, d_loc, group_loop_fns as c01_group_loop_fns
import c07

EXPLANATION = (
    "Static decision of the ownership shape behind exactly-once drop: R6.1 every crate struct that writes into a "
    "MaybeUninit<T> buffer it owns has a Drop impl that reaches assume_init_drop / drop_in_place / assume_init_read on "
    "that buffer (MaybeUninit-ownership rule); R6.2 leak-capable APIs (mem::forget, ManuallyDrop::new, Box::leak, "
    "Box::into_raw, Vec::set_len, ptr::write, MaybeUninit::write) occur only at the frozen, reasoned sites: "
    "ManuallyDrop::new only over a Waker, Box::into_raw only immediately re-owned by Box::from_raw of the same pointer, "
    "ptr::write only of non-generic waker-list structs, MaybeUninit::write only into buffers covered by R6.1; R6.3 a "
    "refused insertion returns its argument, never calls the wrapping closure and drops nothing; push* panics only "
    "after the refusal and writes nothing before; R6.4 no struct field holds a child/output-typed value behind "
    "ManuallyDrop, a raw pointer or NonNull, and behind MaybeUninit only the R6.1 buffers; R6.5 no live normal-path drop "
    "of a child-owning value outside Drop impls except the reasoned table (an exhausted group); outputs: C02 R2.5. "
    "NOT decided: exactly-once for every cancel point as a global fact (these are necessary conditions + language drop glue).")
WITNESSES = "thorough"  # E3 compile_fail witnesses (tier in which they run)
ASSUMPTIONS = [
    "dev-profile MIR at mir-opt-level=0 represents the source",
    "language drop glue drops Pin<Box<[Slot<F>]>>, BinaryHeap and Vec contents exactly once",
    "vacant queue slot <=> output written (C07 I7) is what the Drop impls rely on",
]

RE_RELEASE = r"assume_init_drop$|core::ptr::drop_in_place$|assume_init_read$|core::mem::MaybeUninit::<.*>::assume_init$"


def r6_1(ctx, R, mus):
    ctx.rule("R6.1", "MaybeUninit-ownership: a struct with a MaybeUninit<T> field that some crate function writes "
                     "(MaybeUninit::write / as_mut_ptr) must have a Drop impl whose body (<= 2 crate call levels) reaches "
                     "assume_init_drop / drop_in_place / assume_init_read")
    n = 0
    for sp, fields in mus.items():
        writers = []
        for b in c07.impl_fns_of(ctx, sp):
            fl = ctx.flow(b)
            for bb, t, fn in direct_sites(b, c07.RE_MU_WRITE + r"|as_mut_ptr$"):
                tgt = strip_refs(fl.operand_expr(t["args"][0]))
                if c07.field_of(tgt) and c07.field_of(tgt)[1:] in fields:
                    writers.append((b, bb))
        if not writers:
            continue
        n += 1
        drops = [i for i in ctx.facts.impls if i["trait"] == "core::ops::Drop" and re.match(re.escape(sp) + r"<", i["self_ty"])]
        ok = False
        det = "no Drop impl"
        if drops:
            det = "Drop impl present but releases nothing"
            for item in drops[0]["items"]:
                db = ctx.facts.bodies.get(item)
                if db is not None and reaches(ctx.facts, db, RE_RELEASE, 2):
                    # the released elements must come from the buffer field
                    ok = _releases_field(ctx, db, fields, 2)
                    det = "Drop reaches a release of the buffer field: %s" % ok
        ctx.ob("R6.1", sp, "writes-into-MaybeUninit=>Drop-releases", ok, ctx.facts.adts[sp]["span"]["f"].split("/repo/")[-1],
               "%s; writer sites: %s" % (det, [w[0].loc(w[1]) for w in writers[:3]]))
    ctx.floor("R6.1", "buffer-structs-with-writers", n, 2)


def _releases_field(ctx, body, fields, depth):
    fl = ctx.flow(body)
    for bb, t, fn in direct_sites(body, RE_RELEASE):
        e = fl.operand_expr(t["args"][0])
        # element comes from iterating the field or from a buffer moved out of the field by mem::replace
        for c in [e] + expr_calls(e):
            pass
        txt = repr(e)
        if any(("." + f) in txt for f in fields):
            return True
    if depth > 0:
        for bb, t, fn in body.calls():
            cb = callee_body(ctx.facts, fn)
            if cb is not None and cb.path != body.path and _releases_field(ctx, cb, fields, depth - 1):
                return True
    return False


LEAK_APIS = {
    "forget": r"core::mem::forget$",
    "ManuallyDrop::new": r"core::mem::ManuallyDrop::<.*>::new$",
    "Box::leak": r"alloc::boxed::Box::<.*>::leak$",
    "Box::into_raw": r"alloc::boxed::Box::<.*>::into_raw(_with_allocator)?$",
    "Vec::set_len": r"alloc::vec::Vec::<.*>::set_len$",
    "Vec::from_raw_parts": r"alloc::vec::Vec::<.*>::from_raw_parts",
    "ptr::write": r"core::ptr::write(_unaligned|_volatile)?$|core::ptr::mut_ptr::<impl \*mut T>::write$",
    "MaybeUninit::write": c07.RE_MU_WRITE,
    "ManuallyDrop::take/into_inner": r"core::mem::ManuallyDrop::<.*>::(take|into_inner|drop)$",
}


def r6_2(ctx, R, mus):
    ctx.rule("R6.2", "leak-API table: forget/leak/set_len/from_raw_parts: none; ManuallyDrop::new: only over "
                     "core::task::Waker (borrowed child waker); Box::into_raw: result flows only into Box::from_raw in the "
                     "same function with no other call between; ptr::write: only values whose type mentions no type "
                     "parameter (waker-list header/items); MaybeUninit::write: only into R6.1 buffers")
    counts = {}
    for b in ctx.facts.fn_bodies():
        fl = ctx.flow(b)
        for api, rx in LEAK_APIS.items():
            for bb, t, fn in direct_sites(b, rx):
                if t["span"]["x"] and api in ("ManuallyDrop::new",) and False:
                    continue
                counts[api] = counts.get(api, 0) + 1
                ok = False
                det = ""
                if api == "Vec::from_raw_parts":
                    # re-owning a buffer that Box::into_raw has just disowned in the same function (Box<[T]> -> Vec<T>); the
                    # lengths are C07 R7.2's obligation
                    pe_ = strip_refs(fl.operand_expr(t["args"][0]))
                    x_ = pe_
                    while (x_[0] == "call" and re.search(r"<impl \*(mut|const) T>::cast(_mut|_const)?$", x_[1] or "") and x_[2]) or x_[0] == "cast":
                        x_ = strip_refs(x_[2][0] if x_[0] == "call" else x_[2])
                    ok = x_[0] == "call" and re.search(r"alloc::boxed::Box::<.*>::into_raw$", x_[1] or "") is not None
                    det = "pointer = %s" % expr_str(pe_)[:160]
                elif api in ("forget", "Box::leak", "Vec::set_len", "ManuallyDrop::take/into_inner"):
                    ok = False
                    det = "leak-capable API not in the table"
                elif api == "ManuallyDrop::new":
                    a = t["args"][0]
                    ty = a["place"]["ty"] if a["k"] != "const" else a["ty"]
                    ok = ty == "core::task::Waker"
                    det = "argument type %s" % ty
                elif api == "Box::into_raw":
                    dest = t["dest"]["l"]
                    # all uses of the raw pointer end in Box::from_raw, reached without an intervening call
                    fr = [(fb, ft) for fb, ft, ffn in direct_sites(b, r"alloc::boxed::Box::<.*>::from_raw$")
                          if any(c[3] == bb for c in expr_calls(fl.operand_expr(ft["args"][0])))]
                    adjacent = False
                    for fb, ft in fr:
                        # blocks strictly between into_raw and from_raw contain no calls
                        if b.normal_succ(bb) == [fb]:
                            adjacent = True
                    ok = bool(fr) and adjacent
                    det = "re-owned by from_raw in the next block: %s" % adjacent
                    if not ok:
                        # ... or by Vec::from_raw_parts of (a cast of) the same pointer, with nothing but pointer casts between
                        frp = [(fb, ft) for fb, ft, ffn in direct_sites(b, r"alloc::vec::Vec::<.*>::from_raw_parts$")
                               if any(c[3] == bb for c in expr_calls(fl.operand_expr(ft["args"][0])))]
                        for fb, ft in frp:
                            between = True
                            x_ = bb
                            for _ in range(6):
                                nx = b.normal_succ(x_)
                                if nx == [fb]:
                                    break
                                if len(nx) != 1:
                                    between = False
                                    break
                                x_ = nx[0]
                                tt_ = b.term(x_)
                                if tt_["k"] == "call" and not (tt_["func"]["k"] == "const" and "fn" in tt_["func"] and re.search(
                                        r"<impl \*(mut|const) T>::cast(_mut|_const)?$", tt_["func"]["fn"]["def"])):
                                    between = False
                                    break
                            else:
                                between = False
                            if between:
                                ok = True
                                det = "re-owned by Vec::from_raw_parts of the same pointer (only pointer casts in between)"
                elif api == "ptr::write":
                    a = t["args"][1]
                    ty = a["place"]["ty"] if a["k"] != "const" else a["ty"]
                    generic = ctx.facts.type_mentions(ty, lambda x, c: x["k"] in ("param", "alias"))
                    ok = not generic
                    det = "written type %s (generic=%s)" % (ty, generic)
                elif api == "MaybeUninit::write":
                    tgt = strip_refs(fl.operand_expr(t["args"][0]))
                    fld = c07.field_of(tgt)
                    ok = any(fld and fld[1:] in fs for fs in mus.values())
                    det = "target %s" % expr_str(tgt)
                ctx.ob("R6.2", b, "%s@%s" % (api, _site_label(b, bb)), ok, b.loc(bb), det)
    ctx.floor("R6.2", "ManuallyDrop::new-sites", counts.get("ManuallyDrop::new", 0), 1)
    ctx.floor("R6.2", "Box::into_raw-sites", counts.get("Box::into_raw", 0), 2)
    ctx.floor("R6.2", "ptr::write-sites", counts.get("ptr::write", 0), 2)
    ctx.floor("R6.2", "MaybeUninit::write-sites", counts.get("MaybeUninit::write", 0), 2)


def r6_3(ctx, R):
    ctx.rule("R6.3", "refusal returns the argument: in INSERT every path returning Err carries the `arg` parameter, "
                     "calls no closure and drops no Arg/child value; every try_push* forwards the refusal payload; every "
                     "push* reaches its panic only on the is_err edge and stores nothing to self before it")
    ins = R.insert_fn
    fl = ctx.flow(ins)
    succ, _ = feasible_cfg(ins, fl)
    closure_calls = {bb for bb, t, fn in ins.calls() if fn and re.search(r"core::ops::FnMut::call_mut$|FnOnce::call_once$|Fn::call$", fn["def"])}
    closure_calls |= {bb for bb in range(ins.n) if ins.term(bb)["k"] == "call" and ins.term(bb)["func"]["k"] != "const"}
    bad = 0
    nerr = 0
    for k, p in enumerate_paths(ins, succ):
        if k != "return":
            continue
        is_err = any(s["k"] == "assign" and s["place"]["l"] == 0 and s["rv"]["k"] == "aggregate" and s["rv"].get("variant") == "Err"
                     for b_ in p for s in ins.stmts(b_))
        if is_err:
            nerr += 1
            if any(b_ in closure_calls for b_ in p):
                bad += 1
    ctx.ob("R6.3", ins, "refusal-path-calls-no-closure", bad == 0 and nerr >= 1, d_loc(ins), "%d refusal paths, %d call the closure" % (nerr, bad))
    lds = live_drops(ctx, ins, lambda t: t["k"] == "param" and not t["name"].startswith("impl "))
    ctx.ob("R6.3", ins, "insert-drops-no-arg-or-child", not lds, d_loc(ins),
           "; ".join("%s at %s" % (place_str(p), ins.loc(bb)) for bb, p, how in lds))
    # try_push* forwarders: functions returning Result<(), X> that call (transitively) INSERT
    n = 0
    for b in ctx.facts.fn_bodies():
        if not re.match(r"core::result::Result<\(\), \w+>$", b.locals[0]):
            continue
        if not reaches(ctx.facts, b, re.escape(ins.path) + "$", 3):
            continue
        n += 1
        fl2 = ctx.flow(b)
        ok = True
        det = []
        for bb, e in returned_exprs(ctx, b):
            # every Err the function can return must derive from the callee's refusal payload
            if e[0] == "agg" and e[1].endswith("Result::Err"):
                src = e[2][0]
                if not any(True for c in expr_calls(src)):
                    ok = False
                    det.append("Err built from %s" % expr_str(src))
        lds2 = live_drops(ctx, b, lambda t: t["k"] == "param" and not t["name"].startswith("impl "))
        if lds2:
            ok = False
            det.append("drops %s" % [place_str(p) for _, p, _ in lds2])
        ctx.ob("R6.3", b, "try_push-forwards-refusal", ok, d_loc(b), "; ".join(det))
    ctx.floor("R6.3", "try_push-forwarders", n, 4)
    # push*: panic only behind is_err
    m = 0
    for b in ctx.facts.fn_bodies():
        pan = [(bb, t) for bb, t, fn in b.calls() if fn and not b.is_cleanup(bb)
               and re.search(r"core::panicking::panic(_fmt|_display)?$", fn["def"]) and not t["span"]["x"] or
               (fn and not b.is_cleanup(bb) and re.search(r"core::panicking::panic_fmt$", fn["def"]))]
        if not pan or b is R.insert_fn:
            continue
        if not reaches(ctx.facts, b, re.escape(R.insert_fn.path) + "$", 4):
            continue          # not an accepting push (e.g. the ready-queue's own `push(index)`): nothing to refuse
        fl2 = ctx.flow(b)
        for bb, t in pan:
            m += 1
            ok = bb in refusal_region(ctx, R, b, fl2)
            stores = [s for (sbb, i, s) in fl2.stores if b.dominates(sbb, bb) and not b.is_cleanup(sbb)]
            ctx.ob("R6.3", b, "panic-only-after-refusal@%s" % _site_label(b, bb), ok and not stores, b.loc(bb),
                   "behind is_err: %s, stores before panic: %d" % (ok, len(stores)))
    ctx.floor("R6.3", "push-panics", m, 4)


def refusal_region(ctx, R, b, fl):
    """Blocks of b reachable only across an edge on which the Result of a try-variant (a crate function returning
    Result<(), X> that reaches INSERT) is known to be Err: is_err() true / is_ok() false / the Err arm of a match."""
    def is_try_call(x):
        x = strip_refs(x)
        return x[0] == "call" and x[1] in ctx.facts.bodies and re.match(r"core::result::Result<\(\), \w+>$", ctx.facts.bodies[x[1]].locals[0]) \
            and reaches(ctx.facts, ctx.facts.bodies[x[1]], re.escape(R.insert_fn.path) + "$", 3)

    def refusal(lab):
        x = lab[1]
        if lab[0] == "bool" and x[0] == "call" and x[2]:
            nm = x[1] or ""
            if (nm.endswith("::is_err") and lab[2] is True) or (nm.endswith("::is_ok") and lab[2] is False):
                return is_try_call(x[2][0])
            return False
        if lab[0] == "variant" and lab[2] == "Err":
            return is_try_call(x)
        if lab[0] == "notvariants" and "Ok" in lab[2]:
            return is_try_call(x)
        return False
    seen = set()
    work = [0]
    while work:
        x = work.pop()
        if x in seen:
            continue
        seen.add(x)
        labs = fl.edge_labels(x)
        for y in b.normal_succ(x):
            if any(refusal(l_) for l_ in labs.get(y, [])):
                continue
            work.append(y)
    return {x for x in range(b.n) if x not in seen and not b.is_cleanup(x)}


def _reaches_return(b, bb):
    seen = set()
    work = [bb]
    while work:
        x = work.pop()
        if x in seen:
            continue
        seen.add(x)
        if b.term(x)["k"] == "return":
            return True
        work.extend(b.normal_succ(x))
    return False


def child_param(t):
    return t["k"] == "param" and not t["name"].startswith("impl ")


def r6_4(ctx, R, mus):
    ctx.rule("R6.4", "ownership shape: no crate struct/enum field type mentions a type parameter or Future::Output/"
                     "Stream::Item under ManuallyDrop, a raw pointer or NonNull; under MaybeUninit only the R6.1 buffers")
    n = 0
    for path, adt in ctx.facts.adts.items():
        for v in adt["variants"]:
            for f in v["fields"]:
                bad = []

                def visit(t, c, key):
                    if (t["k"] in ("param", "alias")) and any(x in ("core::mem::ManuallyDrop", "ptr", "core::ptr::NonNull") for x in c):
                        bad.append(("raw/ManuallyDrop", c))
                    if (t["k"] in ("param", "alias")) and "core::mem::MaybeUninit" in c:
                        base_ = getattr(c07.mu_structs, "base", {})
                        if not ((path in mus and f["name"] in mus[path]) or (path in base_ and f["name"] in base_[path])):
                            bad.append(("MaybeUninit", c))
                ctx.facts.walk_type(f["ty"], visit)
                n += 1
                if bad or (t_generic(ctx, f["ty"])):
                    ctx.ob("R6.4", path, "field:%s.%s" % (v["name"], f["name"]), not bad, "", "%s %s" % (f["ty"], bad[:1]))
    ctx.floor("R6.4", "fields-walked", n, 30)


def t_generic(ctx, ty):
    return ctx.facts.type_mentions(ty, lambda x, c: x["k"] in ("param", "alias"))


GROUP_TYPES = r"^(futures_unordered_bounded::FuturesUnorderedBounded|merge_bounded::MergeBounded)<"


def _replaces_whole_self(ctx, b, fl, bb, p, ty):
    """The dropped place is `*self` itself (assignment of a new value to the whole receiver) or a local that received
    mem::replace / mem::take / mem::swap of `self`; `ty` is the receiver's own type."""
    if b.arg_count < 1:
        return False
    self_ty = b.locals[1]
    for pre in ("&mut ", "&"):
        if self_ty.startswith(pre):
            self_ty = self_ty[len(pre):]
            break
    else:
        return False
    if ty != self_ty:
        return False
    if p["l"] == 1 and [e["k"] for e in p["p"]] == ["deref"]:
        return True
    if not p["p"]:
        e = fl.local_expr(p["l"])
        if e[0] == "call" and re.search(r"core::mem::(replace|take)$", e[1] or "") and e[2] and strip_refs(e[2][0]) == ("param", 1):
            return True
    return False


def _fresh_empty_container(ctx, b, fl, p):
    """The dropped place is field f of a local that is the result of a crate constructor every return of which builds f as an
    empty container (`Vec::new()`, `BinaryHeap::new()`, `VecDeque::new()`): nothing a user gave us is in it."""
    flds = [e for e in p["p"] if e["k"] == "field"]
    if len(flds) != 1 or len(p["p"]) != 1:
        return False
    whole = [d_ for d_ in fl.defs.get(p["l"], []) if d_[2] != "partial"]
    if len(whole) != 1 or whole[0][2] != "call":
        return False
    src = strip_refs(fl.call_expr(whole[0][3], whole[0][0]))
    if not (src[0] == "call" and (src[1] or "") in ctx.facts.bodies):
        return False
    # the field is written at most once after the construction (the replacement this drop belongs to)
    if sum(1 for d_ in fl.defs.get(p["l"], []) if d_[2] == "partial" and not b.is_cleanup(d_[0])) > 1:
        return False
    cb = ctx.facts.bodies[src[1]]
    rets = returned_exprs(ctx, cb)
    if not rets:
        return False
    for rb, e in rets:
        if not (e[0] == "agg" and len(e) > 3 and flds[0]["name"] in e[3]):
            return False
        v = strip_refs(e[2][list(e[3]).index(flds[0]["name"])])
        if not (v[0] == "call" and re.search(r"alloc::(vec::Vec|collections::(binary_heap::)?BinaryHeap|collections::(vec_deque::)?VecDeque)::<.*>::new$", v[1] or "")):
            return False
    return True


def _only_callables(ctx, b, ty):
    """Every type parameter mentioned by `ty` (e.g. Option<F>) is one the body calls: a stored user closure."""
    names = set()
    ctx.facts.walk_type(ty, lambda t, c, key: names.add(t["name"]) if t["k"] == "param" else None)
    return bool(names) and names <= _callable_params(b)


def _callable_params(b):
    """Names of type parameters that the body CALLS (receiver of Fn / FnMut / FnOnce calls): generic callables."""
    out = set()
    for bb, t, fn in b.calls():
        if fn and fn["def"] in ("core::ops::FnMut::call_mut", "core::ops::Fn::call", "core::ops::FnOnce::call_once") and t["args"]:
            a = t["args"][0]
            ty = a["place"]["ty"] if a["k"] in ("copy", "move") else a.get("ty", "")
            for pre in ("&mut ", "&"):
                if ty.startswith(pre):
                    ty = ty[len(pre):]
                    break
            out.add(ty)
    return out


def r6_5(ctx, R):
    ctx.rule("R6.5", "no stray drops of children: outside Drop impls, a live normal-path drop of a value owning a "
                     "child-typed (type parameter) value may only be (a) an exhausted group dropped where the inner poll of "
                     "that group is known Ready(None), (b) a by-value parameter consumed by an extend/from_iter loop "
                     "(iterator adaptors), (c) replacement of Default-emptied containers (take-aware)")
    n = 0
    for b in ctx.facts.fn_bodies():
        if "core::ops::Drop" in b.path:
            continue
        lds = live_drops(ctx, b, child_param)
        if not lds:
            continue
        fl = ctx.flow(b)
        vf = variant_facts(b, fl)
        for bb, p, how in lds:
            n += 1
            ty = p["ty"] if p else "?"
            ok = False
            why = ""
            removed_group = False
            if p and not p["p"]:
                src_ = strip_refs(fl.local_expr(p["l"]))
                removed_group = src_[0] == "call" and re.search(r"alloc::vec::Vec::<.*>::(remove|swap_remove|pop)$", src_[1] or "") is not None and \
                    b in c01_group_loop_fns(ctx)
            if p and (re.search(GROUP_TYPES, ty) or removed_group):
                fs = vf.get(bb, frozenset())
                ok = any(v == "None" for (_, v) in fs) and any(v == "Ready" for (_, v) in fs)
                if not ok:
                    from lib_flow import arrival_knowledge
                    ak = arrival_knowledge(b, fl, bb)
                    ok = bool(ak) and all("None" in k_.values() and "Ready" in k_.values() for k_ in ak)
                why = "group dropped under inner Ready(None): %s" % ok
            elif p and re.search(r"(IntoIter|Map<|Enumerate<|<I as core::iter::IntoIterator>::IntoIter|core::iter::)", ty):
                ok = True
                why = "exhausted iterator adaptor"
            elif p and (ty.startswith("impl FnMut") or ty.startswith("impl Fn") or ty in _callable_params(b) or _only_callables(ctx, b, ty)):
                ok = True
                why = "a callable (closure / poll function) parameter, not a child"
            elif p and re.match(r"core::result::Result<\(\), \w+>$", ty) and re.search(r"::push(_back|_front)?$", b.path):
                # (d) the Result of the try-variant inside a panicking push*: on refusal the rejected child is
                # dropped right before the panic (it was never accepted), on success the Result is ()
                src = fl.local_expr(p["l"]) if not p["p"] else ("unknown",)
                ok = src[0] == "call" and src[1] in ctx.facts.bodies and reaches(ctx.facts, ctx.facts.bodies[src[1]], re.escape(R.insert_fn.path) + "$", 3)
                # ... and the function panics exactly when that result is an Err
                reg = refusal_region(ctx, R, b, fl)
                tested = any(pb_ in reg for pb_, pt_, pf_ in b.calls() if pf_ and re.search(r"core::panicking::panic", pf_["def"]))
                ok = ok and tested
                why = "result of the try-variant in a panicking push (refused child dropped before the panic): %s" % ok
            elif p and bb in refusal_region(ctx, R, b, fl) and not _reaches_return(b, bb):
                # (d') the rejected child taken out of the Err payload and dropped on the refusal path, which only panics
                ok = True
                why = "refused child dropped on the refusal path of a panicking push (no return reachable)"
            elif p and _replaces_whole_self(ctx, b, fl, bb, p, ty):
                # (e) `*self = fresh` / `drop(mem::replace(self, fresh))`: the whole collection is dropped, by its own drop glue,
                # exactly as if the caller had dropped it
                ok = True
                why = "the old value of the whole collection (*self) is dropped when it is replaced"
            elif p and _fresh_empty_container(ctx, b, fl, p):
                ok = True
                why = "the container being replaced was built empty by the constructor called just before (Vec::new() / BinaryHeap::new())"
            elif how == "assume_init_drop" and any(b in c07.impl_fns_of(ctx, sp) for sp in c07.mu_structs(ctx)):
                ok = True
                why = "release helper of a MaybeUninit buffer struct (covered by R6.1 / C07 R7.1)"
            else:
                why = "unreasoned drop of %s" % ty
            ordn = sum(1 for x in lds[:lds.index((bb, p, how))] if (x[1] or {}).get("ty") == ty)
            ctx.ob("R6.5", b, "drop:%s:%s#%d" % (how, ty.split("<")[0], ordn), ok, b.loc(bb), why + " place=" + (place_str(p) if p else "?"))
    ctx.floor("R6.5", "child-owning-drops-examined", n, 2)


def _index_loop_next(ctx, b, fl, e, fields):
    """The released element is `buffer[i]` with i the item of a `0..buffer.len()` range loop (index form of the whole-buffer
    iteration): the Range `next` call (as an expression) or None."""
    e = strip_refs(e)
    if e[0] != "proj":
        return None

    def buf_id(x):
        """the buffer an expression is rooted in: the field itself, or the value taken out of it whole (mem::replace / mem::take)"""
        f_ = c07.field_of(x) or ""
        if f_[1:] in fields:
            return ("field", f_)
        for c_ in ([x] if x[0] == "call" else []) + list(expr_calls(x)):
            if re.search(r"core::mem::(replace|take)$", c_[1] or "") and c_[2] and (c07.field_of(strip_refs(c_[2][0])) or "")[1:] in fields:
                return ("taken", c_[3])
        return None
    bid = buf_id(e)
    if bid is None:
        return None
    for el in e[2]:
        m = re.match(r"\[_(\d+)\]$", el)
        if not m:
            continue
        ie = fl.local_expr(int(m.group(1)))
        for c in expr_calls(ie):
            if (c[1] or "").endswith("::next") and "Range" in (c[1] or ""):
                it = strip_refs(c[2][0])
                while it[0] == "call" and (it[1] or "").endswith("into_iter") and it[2]:
                    it = strip_refs(it[2][0])
                if it[0] == "agg" and it[1].endswith("Range::Range") and it[2][0][0] == "const" and it[2][0][2] == "0":
                    hi = strip_refs(it[2][1])
                    if hi[0] == "call" and re.search(r"core::slice::<impl \[T\]>::len$", hi[1] or "") and hi[2] and \
                            buf_id(strip_refs(hi[2][0])) == bid:
                        return c
    return None


def r6_6(ctx, R, mus):
    ctx.rule("R6.6", "exhaustive release: every function that releases elements of a MaybeUninit buffer (assume_init_drop / "
                     "drop_in_place / assume_init_read) obtains the elements from an iterator over the WHOLE buffer (adaptor "
                     "chain within {iter_mut, enumerate, into_iter, rev, filter, by_ref}: no take/skip/take_while/step_by/...), "
                     "its loop is left only when that iterator is exhausted (no break / early return), and the release is "
                     "guarded by the vacancy test of the slot with the same index (slot i vacant <=> output[i] written)")
    from lib_flow import iterator_chain, loop_exit_edges
    accs = {a.path for a in R.accessor_fns}
    n = 0
    for sp, fields in mus.items():
        for b in c07.impl_fns_of(ctx, sp) + [c for c in ctx.facts.fn_bodies() if c.kind == "Closure" and (c.j.get("parent_fn") or "").startswith(("<" + sp, sp + "::"))]:
            fl = ctx.flow(b)
            rel = direct_sites(b, RE_RELEASE)
            if not rel:
                continue
            for bb, t, fn in rel:
                n += 1
                e = strip_refs(fl.operand_expr(t["args"][0]))
                nexts = [c for c in expr_calls(e) if (c[1] or "").endswith("::next")]
                if b.kind == "Closure" and not nexts:
                    # iterator-adaptor form: the closure is handed to for_each / filter ...: inspect the chain in the parent
                    pb = ctx.facts.bodies.get(b.j.get("parent_fn"))
                    ok = False
                    det = "closure not found in parent"
                    if pb is not None:
                        pfl = ctx.flow(pb)
                        for pbb, pt, pfn in pb.calls():
                            if pfn is None:
                                continue
                            for a in pt["args"]:
                                ae = pfl.operand_expr(a)
                                if ae[0] == "agg" and ae[1] == "closure:" + b.path:
                                    chain, src = iterator_chain(pfl.operand_expr(pt["args"][0]))
                                    bad = [c for c, full in chain if c not in ADAPTORS_OK]
                                    srcfield = c07.field_of(src) or ""
                                    from_buf = srcfield[1:] in fields or any(re.search(c07.RE_REPLACE, c[1] or "") for c in expr_calls(src))
                                    vac = any(c[1] in accs for c in expr_calls(pfl.operand_expr(pt["args"][0]))) or \
                                        any(cl in accs for cb_ in ctx.facts.fn_bodies() if cb_.kind == "Closure" and cb_.j.get("parent_fn") == pb.path
                                            for _, _, f2 in cb_.calls() if f2 for cl in [fn_name(f2)])
                                    ok = not bad and from_buf and vac
                                    det = "chain %s over %s; truncating/unknown adaptors: %s; vacancy test present: %s" % (
                                        [c for c, _ in chain], expr_str(src), bad, vac)
                    ctx.ob("R6.6", b, "release-covers-whole-buffer(adaptor form)@%s" % _site_label(b, bb), ok, b.loc(bb), det)
                    continue
                index_form = None
                if not nexts:
                    index_form = _index_loop_next(ctx, b, fl, e, fields)
                    if index_form is not None:
                        nexts = [index_form]
                if not nexts:
                    ctx.ob("R6.6", b, "released-element-comes-from-an-iterator@%s" % _site_label(b, bb), False, b.loc(bb), expr_str(e))
                    continue
                nx = nexts[0]
                chain, src = iterator_chain(nx[2][0])
                bad = [c for c, full in chain if c not in ADAPTORS_OK]
                srcfield = c07.field_of(src) or ""
                from_buf = srcfield[1:] in fields or any(re.search(c07.RE_REPLACE, c[1] or "") for c in expr_calls(src))
                if index_form is not None:
                    # `for i in 0..buffer.len() { .. buffer[i] .. }`: the index range covers the buffer by construction
                    bad, from_buf = [], True
                ctx.ob("R6.6", b, "iterates-whole-buffer@%s" % _site_label(b, bb), not bad and from_buf, b.loc(bb),
                       "chain %s over %s; truncating/unknown adaptors: %s" % ([c for c, _ in chain], expr_str(src), bad))
                if "core::ops::Drop" not in b.path:
                    # released once: outside the Drop impl the elements are released from a buffer that was moved OUT of
                    # the field (mem::replace / mem::take leave an empty buffer behind), otherwise the Drop impl -- or a
                    # second call -- releases the same elements again
                    taken = any(re.search(c07.RE_REPLACE, c[1] or "") for c in expr_calls(src)) or \
                        (src[0] == "call" and re.search(c07.RE_REPLACE, src[1] or "") is not None)
                    ctx.ob("R6.6", b, "released-from-a-taken-buffer@%s" % _site_label(b, bb), taken, b.loc(bb),
                           "iterated buffer: %s" % expr_str(src))
                exits = loop_exit_edges(b, fl, nx[3])
                early = [(a_, b_) for a_, b_, is_none in (exits or []) if not is_none]
                ctx.ob("R6.6", b, "loop-left-only-on-exhaustion@%s" % _site_label(b, bb), exits is not None and not early, b.loc(nx[3]),
                       "early exits: %s" % [b.loc(a_) for a_, b_ in early])
                # vacancy guard with the same index: every path from the iterator step to the release crosses an edge
                # on which the accessor at that index is known to be vacant (is_none() true / is_some() false / None arm)
                def vacancy_edge(lab):
                    x = lab[1]
                    if lab[0] == "bool" and x[0] == "call" and (((x[1] or "").endswith("::is_none") and lab[2] is True) or
                                                                 ((x[1] or "").endswith("::is_some") and lab[2] is False)):
                        acc = [c for c in expr_calls(x) if c[1] in accs]
                    elif (lab[0] == "variant" and lab[2] == "None") or (lab[0] == "notvariants" and "Some" in lab[2]):
                        acc = [c for c in expr_calls(x) if c[1] in accs] if x[0] == "call" and x[1] in accs else []
                    else:
                        return False
                    if not acc:
                        return False
                    idx = acc[0][2][-1]
                    return any(c[3] == nx[3] for c in expr_calls(idx)) and idx[0] == "proj" and idx[2][-1] == ".0"
                seen_g = set()
                work_g = [nx[3]]
                while work_g:
                    x_ = work_g.pop()
                    if x_ in seen_g:
                        continue
                    seen_g.add(x_)
                    labs_ = fl.edge_labels(x_)
                    for y_ in b.normal_succ(x_):
                        if any(vacancy_edge(l_) for l_ in labs_.get(y_, [])):
                            continue
                        if y_ == nx[3]:
                            continue
                        work_g.append(y_)
                ok_g = bb not in seen_g
                if not ok_g:
                    # the test may be folded into a boolean that is switched on later (`a && matches!(..)`): decide per
                    # flag/variant-feasible path, between the iterator step and the release
                    from lib_flow import sensitive_paths
                    try:
                        arrivals = 0
                        allok = True
                        labs_c = {}
                        for kind_, pth, know in sensitive_paths(b, fl, 2):
                            for i_, x_ in enumerate(pth):
                                if x_ != bb:
                                    continue
                                arrivals += 1
                                j0 = max([j for j in range(i_) if pth[j] == nx[3]] or [0])
                                crossed = False
                                for j in range(j0, i_):
                                    if pth[j] not in labs_c:
                                        labs_c[pth[j]] = fl.edge_labels(pth[j])
                                    if any(vacancy_edge(l_) for l_ in labs_c[pth[j]].get(pth[j + 1], [])):
                                        crossed = True
                                        break
                                if not crossed:
                                    allok = False
                        ok_g = allok and arrivals > 0
                    except RuntimeError:
                        ok_g = False
                if not ok_g:
                    # vacancy test carried by a `filter` adaptor of the iterator itself: its closure returns
                    # is_none(ACCESSOR(.., index of the enumerated element)) (or !is_some(..))
                    for c_ in expr_calls(nx[2][0]):
                        if not ((c_[1] or "").endswith("::filter") and len(c_[2]) == 2):
                            continue
                        cl = c_[2][1]
                        if not (cl[0] == "agg" and cl[1].startswith("closure:")):
                            continue
                        cb = ctx.facts.bodies.get(cl[1][len("closure:"):])
                        if cb is None:
                            continue
                        r_ = ctx.flow(cb).local_expr(0)
                        if r_[0] == "multi":
                            # `a && vacant(i)`: false on the short-circuit arm, the second operand otherwise -- the closure answers
                            # true only where the vacancy test is true
                            cfl_ = ctx.flow(cb)
                            dvals = []
                            for (db_, di_, dk_, dn_) in cfl_.defs.get(0, []):
                                if dk_ == "assign":
                                    dvals.append(cfl_.rvalue_expr(dn_["rv"], db_))
                                elif dk_ == "call":
                                    dvals.append(cfl_.call_expr(dn_, db_))
                            nonconst = [d_ for d_ in dvals if not (d_[0] == "const" and d_[2] == "0")]
                            if len(dvals) == 2 and len(nonconst) == 1:
                                r_ = nonconst[0]
                        neg = False
                        while r_[0] == "unop" and r_[1] == "Not":
                            r_ = r_[2]
                            neg = not neg
                        if r_[0] == "call" and r_[2] and (((r_[1] or "").endswith("::is_none") and not neg) or ((r_[1] or "").endswith("::is_some") and neg)):
                            acc = [a_ for a_ in expr_calls(r_) if a_[1] in accs]
                            if acc:
                                idx = strip_refs(acc[0][2][-1])
                                if idx[0] == "proj" and strip_refs(idx[1]) == ("param", 2) and idx[2] and idx[2][-1] == ".0":
                                    ok_g = True
                ctx.ob("R6.6", b, "release-guarded-by-vacancy-of-same-index@%s" % _site_label(b, bb), ok_g, b.loc(bb))
                # ... and nothing else keeps an entry from being released: an iteration that does not reach the release has
                # crossed an edge saying the slot is still occupied, or that this index IS the one excluded index (`Some(i) ==
                # failed`: equality of the enumerated index with a value that does not depend on the loop), or that the element
                # type needs no drop.  An ordering test (`Some(i) > failed`), a parity test, a bound ... skips written entries.
                def occupied_edge(lab):
                    x = lab[1]
                    if lab[0] == "bool" and x[0] == "call" and (((x[1] or "").endswith("::is_none") and lab[2] is False) or
                                                                 ((x[1] or "").endswith("::is_some") and lab[2] is True)):
                        acc = [c for c in expr_calls(x) if c[1] in accs]
                    elif (lab[0] == "variant" and lab[2] == "Some") or (lab[0] == "notvariants" and "None" in lab[2]):
                        acc = [c for c in expr_calls(x) if c[1] in accs] if x[0] == "call" and x[1] in accs else []
                    else:
                        return False
                    if not acc:
                        return False
                    idx = acc[0][2][-1]
                    return any(c[3] == nx[3] for c in expr_calls(idx)) and idx[0] == "proj" and idx[2][-1] == ".0"

                def excluded_edge(lab):
                    if lab[0] != "bool":
                        return False
                    x = lab[1]
                    ops = None
                    if x[0] == "binop" and x[1] in ("Eq", "Ne"):
                        ops, eq = (x[2], x[3]), x[1] == "Eq"
                    elif x[0] == "call" and len(x[2]) == 2 and re.search(r"PartialEq(<.*>)?>?::(eq|ne)$", x[1] or ""):
                        ops, eq = (x[2][0], x[2][1]), (x[1] or "").endswith("::eq")
                    if ops is None or lab[2] is not eq:
                        return False
                    dep = [any(c[3] == nx[3] for c in expr_calls(o)) or (strip_refs(o)[0] == "call" and strip_refs(o)[3] == nx[3]) for o in ops]
                    if dep[0] == dep[1]:
                        return False
                    mine = strip_refs(ops[0] if dep[0] else ops[1])
                    if mine[0] == "agg" and mine[1].endswith("Option::Some") and mine[2]:
                        mine = strip_refs(mine[2][0])
                    return mine[0] == "proj" and mine[2][-1] == ".0"

                def nodrop_edge(lab):
                    x = lab[1]
                    return lab[0] == "bool" and x[0] == "call" and (x[1] or "").endswith("core::mem::needs_drop") and lab[2] is False
                from lib_flow import sensitive_paths, path_edge_labels
                skipped = None
                nseg = 0
                labs_s = {}
                try:
                    for kind_, pth, know in sensitive_paths(b, fl, 2):
                        steps_ = [j for j, x_ in enumerate(pth) if x_ == nx[3]]
                        for j0, j1 in zip(steps_, steps_[1:]):
                            if bb in pth[j0:j1]:
                                continue
                            nseg += 1
                            ok_seg = False
                            for j in range(j0, j1):
                                if any(occupied_edge(l_) or excluded_edge(l_) or nodrop_edge(l_) for l_ in path_edge_labels(b, fl, pth, j, labs_s)):
                                    ok_seg = True
                                    break
                            if not ok_seg and skipped is None:
                                skipped = pth[j0:j1 + 1]
                    det_s = "%d iterations without a release examined" % nseg if skipped is None else \
                        "an iteration skips the release without the slot being occupied / the index being the excluded one: blocks %s" % (skipped,)
                except RuntimeError as ex_:
                    skipped, det_s = [], str(ex_)
                ctx.ob("R6.6", b, "every-vacant-entry-but-the-excluded-one-is-released@%s" % _site_label(b, bb), skipped is None, b.loc(bb), det_s)
    ctx.floor("R6.6", "release-sites", n, 2)


def r6_7(ctx, R, mus):
    ctx.rule("R6.7", "no way around the release: in the Drop impl of every MaybeUninit-buffer struct (release helpers "
                     "inlined) every entry->return path runs the iterator step of the whole-buffer release loop, except "
                     "across an edge on which the buffer itself is empty (is_empty() / len() == 0 of that field) or on which "
                     "core::mem::needs_drop::<T>() is false for T = exactly the buffer's element type")
    from lib_flow import only_via
    n = 0
    for sp, fields in mus.items():
        adt = ctx.facts.adts[sp]
        elem = None
        for f in adt["variants"][0]["fields"]:
            if f["name"] in fields:
                m = re.search(r"core::mem::MaybeUninit<(.*)>\]?>?$", f["ty"])
                m2 = re.search(r"MaybeUninit<(.+?)>\]>$", f["ty"])
                elem = (m2 or m).group(1) if (m2 or m) else None
        for item in [i for i in ctx.facts.impls if i["trait"] == "core::ops::Drop" and re.match(re.escape(sp) + r"<", i["self_ty"])]:
            for ip in item["items"]:
                b = ctx.facts.bodies.get(ip)
                if b is None:
                    continue
                fl = ctx.flow(b)
                rel = direct_sites(b, RE_RELEASE)
                nxs = set()
                for bb, t, fn in rel:
                    e = strip_refs(fl.operand_expr(t["args"][0]))
                    for c in expr_calls(e):
                        if (c[1] or "").endswith("::next"):
                            nxs.add(c[3])
                    ix = _index_loop_next(ctx, b, fl, e, fields)
                    if ix is not None:
                        nxs.add(ix[3])
                if not nxs:
                    ctx.ob("R6.7", b, "release-loop-present", False, d_loc(b), "no release loop found in the Drop impl (helpers inlined)")
                    continue

                def needs_drop_elem(x):
                    """x is the value of needs_drop::<elem>() (call or a constant defined as that call)"""
                    x = strip_refs(x)
                    if x[0] == "call" and (x[1] or "").endswith("core::mem::needs_drop"):
                        t_ = b.term(x[3])
                        return (t_["func"]["fn"].get("def_args") or [None])[0] == elem
                    if x[0] == "const" and x[2] in ctx.facts.bodies:
                        cb = ctx.facts.bodies[x[2]]
                        calls = [t_ for _, t_, fn_ in cb.calls() if fn_ and fn_["def"] == "core::mem::needs_drop"]
                        return len(calls) == 1 and cb.n <= 3 and (calls[0]["func"]["fn"].get("def_args") or [None])[0] == elem
                    return False

                def exempt(lab):
                    if lab[0] != "bool":
                        return False
                    x = lab[1]
                    if x[0] == "unop" and x[1] == "Not":
                        return exempt(("bool", x[2], not lab[2]))
                    if needs_drop_elem(x):
                        return lab[2] is False
                    if x[0] == "call" and re.search(r"::is_empty$", x[1] or "") and lab[2] is True and x[2]:
                        fld = c07.field_of(strip_refs(x[2][0])) or ""
                        return fld[1:] in fields or any((c07.field_of(strip_refs(c_[2][0])) or "")[1:] in fields for c_ in expr_calls(x[2][0]) if c_[2])
                    if x[0] == "binop" and ((x[1] == "Eq" and lab[2] is True) or (x[1] == "Ne" and lab[2] is False)):
                        for l_, r_ in ((x[2], x[3]), (x[3], x[2])):
                            if r_[0] == "const" and r_[2] == "0" and l_[0] == "call" and (l_[1] or "").endswith("::len") and l_[2] and \
                                    (c07.field_of(strip_refs(l_[2][0])) or "")[1:] in fields:
                                return True
                    return False
                # paths that avoid every iterator step and every exempt edge
                seen = set()
                work = [0]
                bad = None
                while work:
                    x = work.pop()
                    if x in seen or x in nxs:
                        continue
                    seen.add(x)
                    if b.term(x)["k"] == "return":
                        bad = x
                    labs = fl.edge_labels(x)
                    for y in b.normal_succ(x):
                        if any(exempt(l_) for l_ in labs.get(y, [])):
                            continue
                        work.append(y)
                n += 1
                ctx.ob("R6.7", b, "every-path-runs-the-release-loop", bad is None, d_loc(b),
                       "iterator steps at %s; element type %s%s" % ([b.loc(x) for x in sorted(nxs)], elem,
                                                                     "" if bad is None else "; a path returns at %s without running it" % b.loc(bad)))
    ctx.floor("R6.7", "Drop impls of buffer structs", n, 2)


ADAPTORS_OK = ("into_iter", "iter_mut", "iter", "enumerate", "rev", "filter", "by_ref", "as_mut", "deref_mut", "deref")


def run(ctx):
    R = roles(ctx)
    R.insert_fn, R.remove_fn
    mus = c07.mu_structs(ctx)
    r6_1(ctx, R, mus)
    r6_2(ctx, R, mus)
    r6_3(ctx, R)
    r6_4(ctx, R, mus)
    r6_5(ctx, R)
    r6_6(ctx, R, mus)
    r6_7(ctx, R, mus)
    # children are dropped in place when vacated, the waker allocation is released exactly once (shared rules)
    import c02
    import c03
    c02.r2_1(ctx, R, only_in=c02.COLLECTIONS)
    c02.r2_3(ctx, R)
    ctx.rule("R2.1", "see C02 R2.1 (shared): a finished child's slot is vacated (dropped in place) exactly when it returned Ready")
    ctx.rule("R2.3", "see C02 R2.3 (shared): slot-map insert/remove all-or-none")
    inc, dec = c03.rc_fns(ctx)
    free_fns = [b for b in ctx.facts.fn_bodies() if direct_sites(b, r"^alloc::alloc::dealloc$")]
    if len(inc) == 1 and len(dec) == 1 and len(free_fns) == 1:
        c03.r3_1(ctx, R, inc, dec, free_fns[0])
        ctor = c03.alloc_fn(ctx)
        cf = ctx.flow(ctor)
        lay = None
        for bb, t, fn in direct_sites(ctor, r"^alloc::alloc::alloc$"):
            e = cf.operand_expr(t["args"][0])
            if e[0] == "call" and e[1] in ctx.facts.bodies:
                lay = ctx.facts.bodies[e[1]]
        if lay is not None:
            c03.r3_4(ctx, R, dec, free_fns, lay)
        ctx.rule("R3.1", "see C03 R3.1 (shared): waker reference-count protocol")
        ctx.rule("R3.4", "see C03 R3.4 (shared): the waker allocation is freed exactly once, by the last owner")
    else:
        ctx.ob("R3.1", "<crate>", "rc-functions-identified", False, "", "inc %d dec %d free %d" % (len(inc), len(dec), len(free_fns)))
