#!/usr/bin/env python3
"""Developer tool (not a check): establishes once that each catalogued mutant still compiles and passes the
repository's 44-test baseline (so it is invisible to the suite), by running `cargo test --offline --lib --tests`
on scratch copies.  Results -> /verif/mutants/VALIDATION.json."""
import glob, json, os, shutil, subprocess, sys, tempfile
from concurrent.futures import ThreadPoolExecutor
HERE = os.path.dirname(os.path.abspath(__file__))
VERIF = os.path.dirname(os.path.dirname(HERE))
sys.path.insert(0, HERE)
import mutants

WORKERS = 4
BASE = "/tmp/mutval"


def worker(args):
    wid, items = args
    root = os.path.join(BASE, "w%d" % wid)
    tgt = os.path.join(root, "target")
    os.makedirs(root, exist_ok=True)
    if not os.path.exists(tgt):
        shutil.copytree("/repo/target", tgt)
    out = []
    for prop, m in items:
        rp = os.path.join(root, "repo")
        shutil.rmtree(rp, ignore_errors=True)
        os.makedirs(rp)
        files = subprocess.check_output(["git", "-C", "/repo", "ls-files"], text=True).split()
        for f in files:
            d = os.path.join(rp, f)
            os.makedirs(os.path.dirname(d), exist_ok=True)
            shutil.copy2(os.path.join("/repo", f), d)
        err = mutants.apply_edits(rp, m)
        if err:
            out.append((prop, m["name"], "stale", err))
            continue
        env = dict(os.environ, CARGO_NET_OFFLINE="true", CARGO_TARGET_DIR=tgt)
        r = subprocess.run(["timeout", "-k", "5", "400", "cargo", "test", "--offline", "--lib", "--tests", "--no-fail-fast"], cwd=rp, env=env,
                           stdout=subprocess.PIPE, stderr=subprocess.STDOUT, text=True)
        if r.returncode in (124, 137):
            subprocess.run(["pkill", "-9", "-f", root + "/target/debug/deps"])
            out.append((prop, m["name"], "tests-hang(timeout 400s)", ""))
            print(prop, m["name"], "tests-hang", flush=True)
            continue
        passed = sum(int(x) for x in __import__("re").findall(r"test result: \w+\. (\d+) passed", r.stdout))
        failed = sum(int(x) for x in __import__("re").findall(r"test result: \w+\. \d+ passed; (\d+) failed", r.stdout))
        if "error: could not compile" in r.stdout or "error[E" in r.stdout:
            st = "does-not-compile"
        elif r.returncode == 0 and passed >= 44:
            st = "passes-44"
        else:
            st = "tests-fail(%d failed, %d passed)" % (failed, passed)
        out.append((prop, m["name"], st, ""))
        print(prop, m["name"], st, flush=True)
    return out


def main():
    items = []
    for d in sorted(os.listdir(mutants.MUT_DIR)):
        if os.path.isdir(os.path.join(mutants.MUT_DIR, d)):
            for m in mutants.corpus(d):
                items.append((d, m))
    chunks = [(i, items[i::WORKERS]) for i in range(WORKERS)]
    res = []
    with ThreadPoolExecutor(max_workers=WORKERS) as ex:
        for o in ex.map(worker, chunks):
            res.extend(o)
    json.dump(sorted([{"property": p, "mutant": n, "status": s, "detail": d} for p, n, s, d in res], key=lambda x: (x["property"], x["mutant"])),
              open(os.path.join(mutants.MUT_DIR, "VALIDATION.json"), "w"), indent=1)
    shutil.rmtree(BASE, ignore_errors=True)
    print("done", len(res))


if __name__ == "__main__":
    main()
