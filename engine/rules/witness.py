"""E3 -- type-level witnesses: runs the compile_fail doc-tests (with error codes) and their compiling `no_run`
twins of /verif/witness against a source tree.  Compilation only; nothing of the crate is executed."""
import os
import re
import shutil
import subprocess
import tempfile

HERE = os.path.dirname(os.path.abspath(__file__))
VERIF = os.path.dirname(os.path.dirname(HERE))

WITNESSES = {
    # name -> (properties, what it shows)
    "W1NotSendWithNotSendChildren": (("C03",), "collection of !Send children is !Send (E0277)"),
    "W2NoClone": (("C03",), "collections are not Clone (E0599)"),
    "W3PushNeedsMut": (("C03", "C01"), "push needs &mut (E0596)"),
    "W4PollNeedsMut": (("C03", "C01"), "poll_next not callable through & (E0308)"),
    "W5TryPushReturnsTheFuture": (("C15", "C06"), "try_push returns Result<(), F> with the offered type (E0308)"),
    "W6StoragePrivate": (("C07", "C08", "C03"), "slot storage is not reachable from outside the crate (E0616)"),
    "W7OrderedNotSend": (("C03",), "ordered collection of !Send children is !Send (E0277)"),
}


def run(repo):
    """-> {witness: {"compile_fail": bool, "twin": bool}} or raises."""
    scratch = tempfile.mkdtemp(prefix="fbwit.")
    try:
        dst = os.path.join(scratch, "witness")
        shutil.copytree(os.path.join(VERIF, "witness"), dst, ignore=shutil.ignore_patterns("target"))
        man = open(os.path.join(dst, "Cargo.toml")).read().replace('path = "/repo"', 'path = "%s"' % repo)
        open(os.path.join(dst, "Cargo.toml"), "w").write(man)
        lock = os.path.join(repo, "Cargo.lock")
        if os.path.exists(lock):
            shutil.copy(lock, os.path.join(dst, "Cargo.lock"))
        env = dict(os.environ, CARGO_NET_OFFLINE="true", CARGO_TARGET_DIR=os.path.join(scratch, "target"))
        env.pop("RUSTC_WORKSPACE_WRAPPER", None)
        env.pop("RUSTFLAGS", None)
        r = subprocess.run(["cargo", "+nightly", "test", "--doc", "--offline"], cwd=dst, env=env,
                           stdout=subprocess.PIPE, stderr=subprocess.STDOUT, text=True)
        res = {w: {"compile_fail": False, "twin": False} for w in WITNESSES}
        for m in re.finditer(r"test src/lib\.rs - (\w+) \(line \d+\) - (compile fail|compile) \.\.\. (\w+)", r.stdout):
            w, kind, verdict = m.group(1), m.group(2), m.group(3)
            if w in res:
                res[w]["compile_fail" if kind == "compile fail" else "twin"] = verdict == "ok"
        if "running" not in r.stdout:
            raise RuntimeError("witness crate did not build:\n" + r.stdout[-3000:])
        return res
    finally:
        shutil.rmtree(scratch, ignore_errors=True)


def add_obligations(ctx, repo, prop):
    ctx.rule("E3", "type-level witnesses: a compile_fail doc-test with its expected error code and a compiling twin "
                   "differing only in the offending line (so a witness whose path is merely wrong cannot pass)")
    res = run(repo)
    n = 0
    for w, (props, what) in WITNESSES.items():
        if prop not in props:
            continue
        n += 1
        ctx.ob("E3", "witness::" + w, "rejected-with-expected-error-code", res[w]["compile_fail"], "witness/src/lib.rs", what)
        ctx.ob("E3", "witness::" + w, "twin-compiles", res[w]["twin"], "witness/src/lib.rs", "same program without the offending line")
    return n
