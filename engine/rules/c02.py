"""C02 -- every accepted output yielded exactly once; Ready(None) iff empty (structural part)."""
import re

from framework import AnchorLost
from lib_facts import place_str, fn_name, callee_matches
from lib_flow import (all_arrivals_visit, strip_refs, expr_calls, expr_str, variant_facts, blocks_with, region_entries, first_entries, enumerate_paths,
                      feasible_cfg, self_field_stores, is_inc_of)
from lib_inter import deep_leaves, returned_exprs
from lib_drops import live_drops, is_output_like
from roles import (roles, direct_sites, callee_body, RE_PIN_SET, RE_FUTURE_POLL, RE_STREAM_POLL_NEXT)
from c01 import _site_label, d_loc, group_loop_fns

EXPLANATION = (
    "Static decision of the structural clauses behind exactly-once delivery: R2.1 a slot is vacated (slot-map REMOVE of "
    "the same index) on exactly the paths where the drained child returned Ready, and the (index, output) returned are "
    "the popped index and that poll's payload; R2.2 who-may-insert/remove and field privacy of the slot map; R2.3 the "
    "slot-map insert/remove effects {Pin::set, free-list head store, occupied counter +-1} are all-or-none on every "
    "entry->return path, 'none' exactly on the refusal / already-free paths; R2.4 Ready(None) is produced only behind an "
    "emptiness test (slot-map counter == 0; groups vector empty; or forwarded from the inner queue); R2.5 no live "
    "normal-path drop of an output-typed value in any poll function and, in the ordered collections, every inner output "
    "reaches the return value or the heap; R2.6 the unbounded collection's remaining-counter is +1 exactly once per "
    "push together with exactly one insertion, and -1 exactly on the yield path. NOT decided: that the free list stays a "
    "permutation of the vacant slots over all histories (inductive data-structure invariant over runtime values).")
ASSUMPTIONS = [
    "dev-profile MIR at mir-opt-level=0 represents the source",
    "Pin::set drops the old value in place and writes the new one; mem::take leaves Default::default()",
    "children obey the Future contract",
]


def slot_group(ctx, R, body, want_variant):
    """Effect sites of the slot-map mutation in `body`: Pin::set(slot, <variant>) + stores to self fields."""
    fl = ctx.flow(body)
    sets = [x for x in R._pin_set_variant(body) if x[2] == want_variant]
    stores = self_field_stores(body, fl)
    return sets, stores


def _slot_key(ctx, R, fl, t):
    """Key expression of the slot a Pin::set site writes: the index given to the slice lookup (in place or through the
    shared lookup helper) its receiver comes from; None when the receiver is not a looked-up slot."""
    e = fl.operand_expr(t["args"][0])
    for c in expr_calls(e):
        nm = c[1] or ""
        if re.search(r"core::slice::<impl \[T\]>::(get_mut|get_unchecked_mut)$", nm) and len(c[2]) > 1:
            return strip_refs(c[2][1])
        cb = ctx.facts.bodies.get(nm)
        if cb is not None and cb in R.slotmap_methods and c[2] and \
                re.match(r"core::option::Option<core::pin::Pin<&mut %s<" % re.escape(R.slot_enum[0]), cb.locals[0]):
            return strip_refs(c[2][-1])
    return None


def _is_self_field(e, field=None):
    e = strip_refs(e)
    return e[0] == "proj" and bool(e[2]) and e[2][-1].startswith(".") and (field is None or e[2][-1] == field) and \
        strip_refs(e[1])[0] == "param"


def r2_3(ctx, R):
    ctx.rule("R2.3", "slot-map atomic groups over a linked free list: on every feasible entry->return path of INSERT the effects "
                     "{Pin::set(taken slot, Occupied), head := the taken slot's next-free link, counter + 1} occur all exactly "
                     "once or not at all ('none' exactly on paths returning Err(arg)); on every path of REMOVE {Pin::set(slot "
                     "of the key, Free), counter - 1} likewise (a guard path exists: slot absent / already free); every other "
                     "bookkeeping write (a tail pointer, a link written into another vacant slot) happens only on effect "
                     "paths; REMOVE publishes the key on every effect path (stored into a link field or into the link of a "
                     "slot known to be vacant) and, where it makes the key the new head, the freed slot links to the old head "
                     "(or the path has established that the list was empty)")
    occ, free = R.slot_variants
    res = {}
    ins = R.insert_fn
    rem = R.remove_fn
    head = None
    for role, body, variant, delta in (("INSERT", ins, occ, +1), ("REMOVE", rem, free, -1)):
        fl = ctx.flow(body)
        sets, stores = slot_group(ctx, R, body, variant)
        succ, _ = feasible_cfg(body, fl)
        paths = [p for k, p in enumerate_paths(body, succ) if k == "return"]
        counter = None
        for (bb, i, fld, val, root, pe) in stores:
            if is_inc_of(val, fld) == delta:
                counter = fld
        if role == "INSERT":
            for (bb, i, fld, val, root, pe) in stores:
                if fld != counter and val[0] == "proj" and ("@" + free) in val[2]:
                    head = fld
        ctx.ob("R2.3", body, role + ":counter-field-updated-by-%+d" % delta, counter is not None, d_loc(body),
               "counter=%s head=%s" % (counter, head))
        if role == "INSERT":
            ctx.ob("R2.3", body, role + ":free-list-head-stored", head is not None, d_loc(body))
        # primary effects / auxiliary bookkeeping
        if role == "INSERT":
            prim_sets = {x[0] for x in sets}
            aux_sets = []
        else:
            keyed = [(x, _slot_key(ctx, R, fl, x[1])) for x in sets]
            prim_sets = {x[0] for x, k in keyed if k is not None and k[0] == "param"}
            aux_sets = [(x, k) for x, k in keyed if not (k is not None and k[0] == "param")]
        group = [("set", prim_sets), ("store" + str(counter), {bb for (bb, i, f2, v, r, pe) in stores if f2 == counter})]
        if role == "INSERT":
            group.append(("store" + str(head), {bb for (bb, i, f2, v, r, pe) in stores if f2 == head}))
        gfields = {counter} | ({head} if role == "INSERT" else set())
        aux_blocks = {bb for (bb, i, f2, v, r, pe) in stores if f2 not in gfields} | {x[0] for x, k in aux_sets}
        npaths = 0
        none_paths = 0
        bad = []
        all_paths = []
        for p in paths:
            npaths += 1
            counts = [sum(1 for b in p if b in blocks) for nm, blocks in group]
            if all(c == 0 for c in counts):
                none_paths += 1
                kind = "none"
                if any(b in aux_blocks for b in p):
                    bad.append((p, "bookkeeping write on a path without the slot effect"))
            elif all(c == 1 for c in counts):
                kind = "all"
                all_paths.append(p)
            else:
                kind = "partial"
                bad.append((p, counts))
            if role == "INSERT":
                # returns Err exactly on the none paths
                ret_err = _path_returns_variant(body, fl, p, "Err")
                if (kind == "none") != ret_err:
                    bad.append((p, "Err-return mismatch kind=%s err=%s" % (kind, ret_err)))
        ctx.ob("R2.3", body, role + ":all-or-none", not bad, d_loc(body),
               "%d feasible return paths, %d without effects; effects=%s; bad=%s" % (
                   npaths, none_paths, [nm for nm, _ in group], bad[:2]), path=[p for p, _ in bad[:1]] or None)
        ctx.ob("R2.3", body, role + ":has-guard-path", none_paths >= 1, d_loc(body),
               "a path without effects must exist (INSERT: full; REMOVE: slot absent or already free)")
        ctx.ob("R2.3", body, role + ":has-effect-path", npaths - none_paths >= 1, d_loc(body))
        res[role] = (counter, head)
        if role == "REMOVE":
            vf = variant_facts(body, fl)
            from lib_flow import arrival_knowledge, path_bool_labels

            def known_variant(bb, var):
                if any(v_ == var for (_, v_) in vf.get(bb, frozenset())):
                    return True
                ak = arrival_knowledge(body, fl, bb)
                return bool(ak) and all(any(v_ == var for v_ in k.values()) for k in ak)
            # the effect region is entered only with the slot not Free
            for x in sets:
                if x[0] in prim_sets:
                    ctx.ob("R2.3", body, "REMOVE:effects-only-on-occupied-slot", known_variant(x[0], occ), body.loc(x[0]),
                           "facts at Pin::set: %s" % sorted(vf.get(x[0], frozenset())))
            # a link written into ANOTHER slot: that slot is vacant on every arrival (Pin::set on an occupied slot would
            # drop a live child) and the link written is the key being freed
            for x, k in aux_sets:
                payload = strip_refs(x[3][2][0]) if x[3][2] else ("unknown",)
                ctx.ob("R2.3", body, "REMOVE:link-store-into-vacant-slot@%s" % _site_label(body, x[0]),
                       known_variant(x[0], free) and payload[0] == "param", body.loc(x[0]),
                       "slot key %s, payload %s" % (expr_str(k) if k else None, expr_str(payload)))
            for p in all_paths:
                pstores = [(bb, fld, val) for (bb, i, fld, val, root, pe) in stores if bb in p and fld != counter]
                published = any(strip_refs(val)[0] == "param" for bb, fld, val in pstores) or \
                    any(x[0] in p and x[3][2] and strip_refs(x[3][2][0])[0] == "param" for x, k in aux_sets)
                ctx.ob("R2.3", body, "REMOVE:key-published", published, d_loc(body),
                       "on every effect path the freed key is stored into a link field or a vacant slot's link", path=None if published else p)
                hstores = [(bb, val) for bb, fld, val in pstores if fld == head]
                for bb, val in hstores:
                    ctx.ob("R2.3", body, "REMOVE:head-becomes-key", strip_refs(val)[0] == "param", body.loc(bb), expr_str(val))
                for x in sets:
                    if x[0] in prim_sets and x[0] in p:
                        payload = x[3][2][0] if x[3][2] else None
                        old_head = payload is not None and _is_self_field(payload, head)
                        if hstores:
                            # push-front: the freed slot must link to the old head -- unless the path has established that
                            # the list was empty (a branch on the head against the number of slots)
                            empty_known = any(head and head in repr(e_) and "len" in repr(e_) for e_, v_ in path_bool_labels(body, fl, p))
                            ctx.ob("R2.3", body, "REMOVE:freed-slot-links-old-head", bool(old_head) or empty_known, body.loc(x[0]),
                                   expr_str(x[3]), path=None if (old_head or empty_known) else p)
    # cross-check: both operate on the same counter field
    ctx.ob("R2.3", ins, "INSERT/REMOVE agree on fields", res["INSERT"][0] == res["REMOVE"][0], d_loc(ins),
           "INSERT %s REMOVE %s" % (res["INSERT"], res["REMOVE"]))
    fli = ctx.flow(ins)
    for (bb, i, fld, val, root, pe) in self_field_stores(ins, fli):
        if fld == head:
            ok = val[0] == "proj" and ("@" + free) in val[2]
            ctx.ob("R2.3", ins, "INSERT:head-becomes-next-free-of-taken-slot", ok, ins.loc(bb), expr_str(val))
    # the slot INSERT fills is the one the head designates, and it is known vacant there
    vfi = variant_facts(ins, fli)
    for x in R._pin_set_variant(ins):
        if x[2] != occ:
            continue
        k = _slot_key(ctx, R, fli, x[1])
        ctx.ob("R2.3", ins, "INSERT:fills-the-slot-the-head-designates", k is not None and _is_self_field(k, head), ins.loc(x[0]),
               expr_str(k) if k else "no lookup")
    # Ok(key) returns the old head, Err returns the argument itself
    for bb, e in returned_exprs(ctx, ins):
        if e[0] == "agg" and e[1].endswith("Result::Ok"):
            v = e[2][0]
            ok = v[0] == "proj" and v[2][-1] == head
            ctx.ob("R2.3", ins, "INSERT:returns-taken-key", ok, ins.loc(bb), expr_str(v))
        if e[0] == "agg" and e[1].endswith("Result::Err"):
            v = strip_refs(e[2][0])
            ctx.ob("R2.3", ins, "INSERT:refusal-returns-argument", v[0] == "param", ins.loc(bb), expr_str(v))
    _bookkeeping_borrows(ctx, R, res)
    return res


def _bookkeeping_borrows(ctx, R, res):
    """No `&mut` borrow of the occupied counter / free-list head escapes into a value or a callee: a guard struct holding
    `&mut self.filled` (stepped from its destructor on an unwind path) moves the counter without its slot.  Allowed: the borrow is
    consumed on the spot by the arithmetic-assignment operator it was taken for."""
    fields = {f for f in (res.get("INSERT", (None, None))[0], res.get("INSERT", (None, None))[1]) if f}
    sm = R.slot_enum[1]
    n = 0
    for b in ctx.facts.fn_bodies():
        if not any(sm in (t or "") for t in b.locals[:b.arg_count + 1]) and not b.path.startswith(sm):
            continue
        fl = ctx.flow(b)
        for bb in range(b.n):
            if b.is_cleanup(bb):
                continue
            for s in b.stmts(bb):
                if s["k"] != "assign" or s["rv"]["k"] != "ref" or not s["rv"].get("mut") or s["place"]["p"]:
                    continue
                pl = s["rv"]["place"]
                fl_ = [e for e in pl["p"] if e["k"] == "field"]
                if not fl_ or ("." + str(fl_[-1].get("name"))) not in fields or pl["p"][-1]["k"] != "field":
                    continue
                n += 1
                esc = None
                work, seen = [s["place"]["l"]], set()
                while work and esc is None:
                    x = work.pop()
                    if x in seen:
                        continue
                    seen.add(x)
                    for ub, ui, node in fl.uses_of_local(x):
                        if ui == "term" and node["k"] == "call":
                            nm = fn_name(node["func"].get("fn")) if node["func"]["k"] == "const" else None
                            if not (nm and re.search(r"core::ops::(AddAssign|SubAssign)", nm)):
                                esc = (ub, "passed to %s" % (nm or "an indirect call"))
                        elif ui != "term" and node["k"] == "assign":
                            rv = node["rv"]
                            if rv["k"] == "aggregate":
                                esc = (ub, "stored in a %s value" % (rv.get("adt") or rv.get("agg")))
                            elif rv["k"] in ("use", "ref") and not node["place"]["p"]:
                                work.append(node["place"]["l"])      # a plain move / reborrow: follow it
                            elif node["place"]["p"] and rv["k"] == "use" and rv["op"].get("place", {}).get("l") == x:
                                esc = (ub, "stored into a field")
                ctx.ob("R2.3", b, "bookkeeping-borrow-does-not-escape#%d" % n, esc is None, b.loc(bb),
                       "&mut %s %s" % (place_str(pl), "consumed on the spot" if esc is None else esc[1] + " at " + b.loc(esc[0])))
    ctx.ob("R2.3", "<crate>", "mutable borrows of the bookkeeping fields examined", True, "", "%d" % n)


def _path_returns_variant(body, fl, path, variant):
    for b in reversed(path):
        for s in reversed(body.stmts(b)):
            if s["k"] == "assign" and s["place"]["l"] == 0 and not s["place"]["p"]:
                rv = s["rv"]
                return rv["k"] == "aggregate" and rv.get("variant") == variant
    return False


def future_drain_callers(ctx, R, regex):
    """[(caller_body, site)] of DRAIN call sites whose poll-fn argument is Future::poll / Stream::poll_next."""
    out = []
    for d in R.drain_fns:
        for b, ss in R.callers_of(d):
            fl = ctx.flow(b)
            for (bb, t, fn) in ss:
                pf = strip_refs(fl.operand_expr(t["args"][-1]))
                while pf[0] == "cast":
                    pf = pf[2]
                if pf[0] == "fn" and re.search(regex, pf[1] or ""):
                    out.append((b, (bb, t, fn)))
    return out


def r2_1(ctx, R, only_in=None):
    """only_in: regex on the caller's path restricting which future-polling DRAIN callers are examined (properties that
    only rest on the collections' own removal discipline do not examine join_all & co.)."""
    ctx.rule("R2.1", "vacate <=> Ready: in every caller of DRAIN with poll_fn = Future::poll, REMOVE(i) with the drained "
                     "index is must-pass-through on the Ready(Some((i, x))) path before return, the returned pair is "
                     "(i, x), and REMOVE is called on no other path; in DRAIN the returned (i, x) are the popped index "
                     "and the payload of this iteration's child poll")
    rem = R.remove_fn
    callers = future_drain_callers(ctx, R, RE_FUTURE_POLL)
    if only_in:
        callers = [c for c in callers if re.search(only_in, c[0].path)]
    for b, (dbb, dt, dfn) in callers:
        fl = ctx.flow(b)
        vf = variant_facts(b, fl)
        dest = place_str(dt["dest"])
        region = blocks_with(vf, [(dest, "Ready"), ("(%s as Ready).0" % dest, "Some")])
        ents = first_entries(b, fl, dbb, region)
        rems = R.calls_to_body(b, rem)
        good = []
        for rbb, rt, rfn in rems:
            idx = fl.operand_expr(rt["args"][-1])
            same = idx[0] == "proj" and idx[1][0] == "call" and idx[1][3] == dbb and idx[2] == ("@Ready", ".0", "@Some", ".0", ".0")
            inreg = rbb in region
            ctx.ob("R2.1", b, "remove-only-on-ready-path@%s" % _site_label(b, rbb), same and inreg, b.loc(rbb),
                   "index=%s in-ready-region=%s" % (expr_str(idx), inreg))
            if same and inreg:
                good.append(rbb)
        ok = bool(ents) and bool(good) and all(b.must_pass(e, b.returns(), good) for e in ents)
        ctx.ob("R2.1", b, "ready=>remove(i)@%s" % _site_label(b, dbb), ok, b.loc(dbb),
               "region entries %s, REMOVE sites %s" % (sorted(ents), [b.loc(g) for g in good]))
        # the value returned on that path carries the same i and x
        okv = False
        for rb, e in returned_exprs(ctx, b):
            if e[0] == "call" and e[3] == dbb:
                okv = True   # the drained result is returned as it is (same index, same output)
            if e[0] == "agg" and e[1].endswith("Poll::Ready") and e[2][0][0] == "proj" and e[2][0][2] == ("@Ready", ".0") \
                    and e[2][0][1][0] == "call" and e[2][0][1][3] == dbb:
                okv = True   # Ready(<the drained result's Ready payload>): same Option<(i, x)>, re-wrapped
            if rb in region and e[0] == "agg" and e[1].endswith("Poll::Ready"):
                inner = e[2][0]
                if inner[0] == "agg" and inner[1].endswith("Option::Some"):
                    tup = inner[2][0]
                    if tup[0] == "agg" and tup[1] == "tuple" and len(tup[2]) == 2:
                        i_e, x_e = tup[2]
                        if i_e[0] == "proj" and i_e[2] == ("@Ready", ".0", "@Some", ".0", ".0") and i_e[1][0] == "call" and i_e[1][3] == dbb \
                                and x_e[0] == "proj" and x_e[2] == ("@Ready", ".0", "@Some", ".0", ".1") and x_e[1][3] == dbb:
                            okv = True
        if not re.match(r"core::task::Poll<core::option::Option<\(usize, ", b.locals[0]):
            # a caller that consumes the (index, output) itself (join_all writes it into output[index] -- C07 R7.1 decides
            # that pairing) hands no (i, x) on
            ctx.ob("R2.1", b, "consumes-(i,x)-itself@%s" % _site_label(b, dbb), True, b.loc(dbb), "returns %s" % b.locals[0])
        else:
            ctx.ob("R2.1", b, "returns-same-(i,x)@%s" % _site_label(b, dbb), okv, b.loc(dbb))
    ctx.floor("R2.1", "future-drain-callers", len(callers), 1)
    # in DRAIN itself
    for d in R.drain_fns:
        fl = ctx.flow(d)
        pops = {p.path for p in R.pop_fns}
        n = 0
        for rb, e in returned_exprs(ctx, d):
            if e[0] == "agg" and e[1].endswith("Poll::Ready") and e[2][0][0] == "agg" and e[2][0][1].endswith("Option::Some"):
                n += 1
                tup = e[2][0][2][0]
                ok = False
                if tup[0] == "agg" and tup[1] == "tuple" and len(tup[2]) == 2:
                    i_e, x_e = tup[2]
                    i_ok = i_e[0] == "proj" and i_e[1][0] == "call" and i_e[1][1] in pops
                    x_ok = x_e[0] == "proj" and x_e[1][0] == "icall" and x_e[2][0] == "@Ready"
                    # the child polled is the slot at the popped index
                    slot_ok = False
                    if x_ok:
                        recv = strip_refs(x_e[1][2][0])
                        calls = expr_calls(recv)
                        accs = {a.path for a in R.accessor_fns}
                        for c in calls:
                            if c[1] in accs and c[2][-1] == i_e:
                                slot_ok = True
                    ok = i_ok and x_ok and slot_ok and all_arrivals_visit(d, fl, rb, x_e[1][3]) if x_ok else False
                ctx.ob("R2.1", d, "drain-returns-(popped i, this poll's x)#%d" % n, ok, d.loc(rb), expr_str(e))
        ctx.floor("R2.1", "drain-ready-returns", n, 1)


def r2_2(ctx, R):
    ctx.rule("R2.2", "who-may-mutate the slot map: INSERT is called only by the push primitive (the function that also "
                     "calls MARK); REMOVE only by callers of DRAIN; the slot-map fields are private to their module")
    ins, rem, mark = R.insert_fn, R.remove_fn, R.mark_fn
    for b, ss in R.callers_of(ins):
        ok = bool(R.calls_to_body(b, mark))
        ctx.ob("R2.2", b, "insert-caller-is-push-primitive", ok, b.loc(ss[0][0]))
    drains = R.drain_fns
    n = 0
    for b, ss in R.callers_of(rem):
        n += 1
        ok = any(R.calls_to_body(b, d) for d in drains)
        det = ""
        if not ok:
            # a join-style combinator cancelling what is left in its PRIVATE queue once its result buffer has been given up
            # (error path): every arrival at the removal has passed the replacement of the buffer field, so no vacancy can be
            # mistaken for a written output any more (C07's invariant); the four collections never get here
            import c07
            from lib_flow import all_arrivals_visit
            for sp, fields in c07.mu_structs(ctx).items():
                if b in c07.impl_fns_of(ctx, sp):
                    inv = [x for x in c07.invalidating_sites(ctx, b, fields) if x[2]]
                    okall = bool(inv)
                    for (bb_, t_, fn_) in ss:
                        okall = okall and any(all_arrivals_visit(b, ctx.flow(b), bb_, x[0]) for x in inv)
                    ok = okall
                    det = "cancellation in %s after the output buffer was given up: %s" % (sp, okall)
        # Drop impls may inspect (not remove); removal outside a DRAIN caller would vacate a slot whose output was not produced
        ctx.ob("R2.2", b, "remove-caller-drains", ok, b.loc(ss[0][0]), det)
    ctx.floor("R2.2", "remove-callers", n, 2)
    sm = ctx.facts.adts[R.slot_enum[1]]
    for f in sm["variants"][0]["fields"]:
        ctx.ob("R2.2", R.slot_enum[1], "field-private:" + f["name"], f["vis"] not in ("pub", "crate"), "", "vis=" + f["vis"])
        # the occupied counter and the free-list links index / count the slots of a slice: anything narrower than usize wraps
        # (a counter that reads 0 with 65536 children makes `is_empty` lie and the drain report Ready(None))
        if re.match(r"(u8|u16|u32|u64|u128|i\d+|isize)$", f["ty"]):
            ctx.ob("R2.2", R.slot_enum[1], "bookkeeping-width:" + f["name"], False, "", "%s is not usize" % f["ty"])
    en = ctx.facts.adts[R.slot_enum[0]]
    for v in en["variants"]:
        for f in v["fields"]:
            if re.match(r"(u8|u16|u32|u64|u128|i\d+|isize)$", f["ty"]):
                ctx.ob("R2.2", R.slot_enum[0], "bookkeeping-width:%s" % v["name"], False, "", "free-list link of type %s is not usize" % f["ty"])
    ctx.ob("R2.2", R.slot_enum[1], "bookkeeping-fields-are-usize", True, "", "checked %d fields" % len(sm["variants"][0]["fields"]))


def _emptiness_cond(ctx, body, lab, counter_field):
    """Edge label says: slot-map counter == 0 (through <=3 levels of crate observers)."""
    if lab[0] != "bool":
        return False
    e, val = lab[1], lab[2]
    lv = deep_leaves(ctx, body, e, 3)
    has_counter = ("field", counter_field) in lv
    has_zero = any(x[0] == "const" and x[2] == "0" for x in lv)
    return has_counter and has_zero and val is True


def ready_none_blocks(ctx, body):
    out = []
    for bb, e in returned_exprs(ctx, body):
        if e[0] == "agg" and e[1].endswith("Poll::Ready") and e[2] and e[2][0][0] == "agg" and e[2][0][1].endswith("Option::None"):
            out.append(bb)
    return out


def all_groups_empty_test(ctx, b, x, _depth=0):
    """`x` (a boolean expression of a group-loop function b) says that no group holds anything:
    groups.iter().all(|g| g[.field].is_empty()) over the plain iterator of the whole groups vector, or `remaining counter == 0`
    for the counter that poll_next decrements once per yield.  -> "all" | "rem" | None"""
    x = strip_refs(x)
    if x[0] == "call" and (x[1] or "") in ctx.facts.bodies and _depth < 2 and len(x[2]) == 1 and re.search(r"::is_empty$", x[1]):
        # the collection's own emptiness observer (`this.is_empty()`): what it returns, read in its own body over `self`
        recv = strip_refs(x[2][0])
        while recv[0] == "proj" and recv[2] == ("*",):
            recv = strip_refs(recv[1])
        cb = ctx.facts.bodies[x[1]]
        own = re.match(r"^<?([\w:]+)", b.path)
        if cb.arg_count == 1 and own and cb.path.startswith(own.group(1).rstrip(":")):
            r_ = all_groups_empty_test(ctx, cb, ctx.flow(cb).local_expr(0), _depth + 1)
            if r_ is not None:
                return r_
        return None
    if x[0] == "call" and re.search(r"core::iter::Iterator>?::all$", x[1] or "") and len(x[2]) == 2:
        it, cl = strip_refs(x[2][0]), x[2][1]
        plain = it[0] == "call" and re.search(r"core::slice::<impl \[T\]>::iter$|IntoIterator>::into_iter$", it[1] or "") is not None
        if plain:
            src = strip_refs(it[2][0])
            while src[0] == "call" and re.search(r"Deref>::deref$|DerefMut>::deref_mut$|as_slice$", src[1] or "") and src[2]:
                src = strip_refs(src[2][0])
            plain = src[0] == "proj" and src[2] and src[2][-1].startswith(".")
        if plain and cl[0] == "agg" and cl[1].startswith("closure:"):
            cb = ctx.facts.bodies.get(cl[1][len("closure:"):])
            if cb is not None:
                r_ = strip_refs(ctx.flow(cb).local_expr(0))
                if r_[0] == "call" and (r_[1] or "") in ctx.facts.bodies and re.search(r"::is_empty$", r_[1]) and r_[2]:
                    a_ = strip_refs(r_[2][0])
                    base = a_
                    while base[0] == "proj":
                        base = strip_refs(base[1])
                    if base == ("param", 2):
                        return "all"
        return None
    if x[0] == "binop" and x[1] == "Eq":
        for l_, r_ in ((x[2], x[3]), (x[3], x[2])):
            if r_[0] == "const" and r_[2] == "0" and l_[0] == "proj" and l_[2] and l_[2][-1].startswith("."):
                fld = l_[2][-1]
                fl = ctx.flow(b)
                if any(f2 == fld and is_inc_of(val, f2) == -1 for (bb, i, f2, val, root, pe) in self_field_stores(b, fl)):
                    return "rem"
    return None


def plain_whole_iter(it):
    """`it` is the plain shared iterator over a whole vector / slice held in a field (no adaptor, no sub-range)."""
    it = strip_refs(it)
    if not (it[0] == "call" and re.search(r"core::slice::<impl \[T\]>::iter$|IntoIterator(>| for &.*>)::into_iter$", it[1] or "") and it[2]):
        return False
    src = strip_refs(it[2][0])
    while True:
        if src[0] == "call" and re.search(r"Deref>::deref$|DerefMut>::deref_mut$|as_slice$", src[1] or "") and src[2]:
            src = strip_refs(src[2][0])
        elif src[0] == "proj" and src[2] == ("*",):
            src = strip_refs(src[1])
        else:
            break
    return src[0] == "proj" and bool(src[2]) and src[2][-1].startswith(".")


def all_groups_empty_traversal(ctx, b, fl, path):
    """The explicit-loop form of `groups.iter().all(|g| g.is_empty())`, decided on ONE path of a group-loop function: the
    path holds a complete traversal of the plain iterator over the whole groups vector -- it leaves the traversal through the
    iterator's None edge, and every element it stepped over crossed the true edge of a crate `is_empty` on that very element
    before the next step.  Returns the index in `path` where the traversal completed (the None edge), or None."""
    labs = {}

    def L(a_, b_):
        if a_ not in labs:
            labs[a_] = fl.edge_labels(a_)
        return labs[a_].get(b_, [])
    done = None
    for i in range(len(path) - 1):
        for lab in L(path[i], path[i + 1]):
            if lab[0] != "variant" or lab[2] != "None":
                continue
            nx = strip_refs(lab[1])
            if not (nx[0] == "call" and re.search(r"core::iter::Iterator>?::next$", nx[1] or "") and nx[2]):
                continue
            it = strip_refs(nx[2][0])
            if not plain_whole_iter(it):
                continue
            # the steps of this traversal: visits of the `next` call block since the iterator was last created
            h, a = nx[3], it[3]
            starts = [k for k in range(i + 1) if path[k] == a]
            if not starts:
                continue
            steps = [k for k in range(starts[-1], i + 1) if path[k] == h]
            if not steps:
                continue
            ok = True
            for k0, k1 in zip(steps, steps[1:]):
                crossed = False
                for k in range(k0, k1):
                    for l2 in L(path[k], path[k + 1]):
                        if l2[0] == "bool" and l2[2] is True and l2[1][0] == "call" and (l2[1][1] or "") in ctx.facts.bodies \
                                and re.search(r"::is_empty$", l2[1][1]) and l2[1][2]:
                            base = strip_refs(l2[1][2][0])
                            while base[0] == "proj" and not (base[1] == nx and base[2][:2] == ("@Some", ".0")):
                                base = strip_refs(base[1])
                            if base[0] == "proj" and base[1] == nx:
                                crossed = True
                ok = ok and crossed
            if ok:
                done = i
    return done


def r2_4(ctx, R, counter_field):
    ctx.rule("R2.4", "Ready(None) only behind emptiness: DRAIN constructs Ready(None) only on the true edge of a test "
                     "that the slot-map counter is 0; unbounded variants only on the true edge of groups.is_empty(); every "
                     "other poll function of the collections constructs Ready(None) only where an inner poll returned "
                     "Ready(None)")
    n = 0
    for d in R.drain_fns:
        fl = ctx.flow(d)
        for rb in ready_none_blocks(ctx, d):
            n += 1
            ok = False
            for sb in range(d.n):
                for tgt, labs in fl.edge_labels(sb).items():
                    if any(_emptiness_cond(ctx, d, lab, counter_field) for lab in labs) and d.dominates(tgt, rb) \
                            and len(d.pred[tgt]) == 1:
                        ok = True
            ctx.ob("R2.4", d, "ready-none-behind-counter==0#%d" % n, ok, d.loc(rb))
    ctx.floor("R2.4", "drain-ready-none", n, 1)
    # unbounded
    for b in group_loop_fns(ctx):
        fl = ctx.flow(b)
        vfb = variant_facts(b, fl)
        for k, rb in enumerate(ready_none_blocks(ctx, b)):
            ok = False
            det = ""
            inner_none = any(v == "None" for (_, v) in vfb.get(rb, frozenset())) and any(v == "Ready" for (_, v) in vfb.get(rb, frozenset()))
            for sb in range(b.n):
                for tgt, labs in fl.edge_labels(sb).items():
                    for lab in labs:
                        if lab[0] != "bool" or lab[2] is not True or not b.dominates(tgt, rb) or len(b.pred[tgt]) != 1:
                            continue
                        if lab[1][0] == "call" and lab[1][1] and re.search(r"alloc::vec::Vec::<.*>::is_empty$", lab[1][1]):
                            ok = True
                            det = "behind groups.is_empty()"
                        elif inner_none and lab[1][0] == "binop" and lab[1][1] in ("Eq", "Le", "Lt", "Ge", "Gt", "Ne"):
                            # the polled group just reported None (it is empty); a test on the number of groups must say it is
                            # the only one: len in {0,1} before it is removed from the vector, len == 0 after
                            a_, c_ = lab[1][2], lab[1][3]
                            lens = None
                            if a_[0] == "call" and re.search(r"alloc::vec::Vec::<.*>::len$", a_[1] or "") and c_[0] == "const":
                                k_ = int(c_[2])
                                ops_ = {"Eq": lambda n_: n_ == k_, "Le": lambda n_: n_ <= k_, "Lt": lambda n_: n_ < k_,
                                        "Ge": lambda n_: n_ >= k_, "Gt": lambda n_: n_ > k_, "Ne": lambda n_: n_ != k_}
                                lens = {n_ for n_ in range(0, 6) if ops_[lab[1][1]](n_)}
                                removed_before = any(b.dominates(rbb_, a_[3]) for rbb_, _, _ in direct_sites(b, r"alloc::vec::Vec::<.*>::(remove|swap_remove|pop)$"))
                                allowed_ = {0} if removed_before else {0, 1}
                                if lens and lens <= allowed_:
                                    ok = True
                                    det = "groups.len() in %s %s removing the exhausted group" % (sorted(lens), "after" if removed_before else "before")
            if not ok:
                # the emptiness test may sit in a helper whose boolean result is tested again (inlined): decide per path
                from lib_flow import all_arrivals_cross

                def empt(lab):
                    if lab[0] == "variant" and lab[2] == "None":
                        # `let Some(tail) = groups.len().checked_sub(1) else { return Ready(None) }`: None exactly when len == 0
                        y = strip_refs(lab[1])
                        if y[0] == "call" and re.search(r"<impl usize>::checked_sub$", y[1] or "") and len(y[2]) == 2:
                            l_, k_ = strip_refs(y[2][0]), y[2][1]
                            return l_[0] == "call" and re.search(r"alloc::vec::Vec::<.*>::len$", l_[1] or "") is not None and \
                                k_[0] == "const" and k_[2] == "1"
                        return False
                    if lab[0] != "bool":
                        return False
                    x = lab[1]
                    if lab[2] is True and x[0] == "call" and x[1] and re.search(r"alloc::vec::Vec::<.*>::is_empty$", x[1]):
                        return True
                    if lab[2] is True and all_groups_empty_test(ctx, b, x) is not None:
                        return True       # every group empty / nothing remaining: the collection holds nothing
                    # groups.len() == 0 (possibly read into a local first)
                    if x[0] == "binop" and ((x[1] == "Eq" and lab[2] is True) or (x[1] == "Ne" and lab[2] is False)):
                        for l_, r_ in ((x[2], x[3]), (x[3], x[2])):
                            if r_[0] == "const" and r_[2] == "0" and l_[0] == "call" and re.search(r"alloc::vec::Vec::<.*>::len$", l_[1] or ""):
                                return True
                    return False
                try:
                    ok, na, bad = all_arrivals_cross(b, fl, rb, empt)
                    det = "every one of %d feasible arrivals crosses groups.is_empty()" % na if ok else "arrival without emptiness test: %s" % (bad,)
                    if not ok:
                        # ... or holds a complete `for g in groups { if !g.is_empty() { return false } }` traversal
                        from lib_flow import sensitive_paths, path_const_feasible
                        labs_ = {}
                        na, bad = 0, None
                        for kind, path, know in sensitive_paths(b, fl, 2):
                            if rb not in path:
                                continue
                            i_ = path.index(rb)
                            if not path_const_feasible(b, path[:i_ + 1]):
                                continue
                            na += 1
                            crossed = False
                            for j in range(i_):
                                a_ = path[j]
                                if a_ not in labs_:
                                    labs_[a_] = fl.edge_labels(a_)
                                if any(empt(l_) for l_ in labs_[a_].get(path[j + 1], [])):
                                    crossed = True
                                    break
                            if not crossed and all_groups_empty_traversal(ctx, b, fl, path[:i_ + 1]) is None:
                                bad = path[:i_ + 1]
                                break
                        ok = na > 0 and bad is None
                        det = "every one of %d feasible arrivals crosses an emptiness test / a whole-groups is_empty traversal" % na \
                            if ok else "arrival without emptiness test: %s" % (bad,)
                except RuntimeError as e_:
                    det = str(e_)
            if not ok:
                # the exhausted group is kept in the vector instead of being removed and put back: Ready(None) where the group
                # polled last answered None and the conditions on (number of groups, cursor) leave only "it is the only group"
                from groups import arrival_grids, cursor_events
                ce = cursor_events(ctx, R, b)
                inner_ = [bb for bb, t, fn in b.calls() if fn and not b.is_cleanup(bb)
                          and re.search(RE_STREAM_POLL_NEXT, fn["def"]) and callee_body(ctx.facts, fn) is not None]
                if ce is not None and len(inner_) == 1 and not direct_sites(b, r"alloc::vec::Vec::<.*>::(push|insert)$"):
                    ag = arrival_grids(ctx, b, fl, inner_[0], rb, ce[0])
                    from adapters import classify_poll
                    only = bool(ag) and all(sat <= {(1, 0)} for _, sat in ag)
                    # ... and on those arrivals the inner poll is known to have answered Ready(None)
                    from lib_flow import arrival_knowledge
                    ak = arrival_knowledge(b, fl, rb)
                    dest = place_str(b.term(inner_[0])["dest"])
                    none_known = bool(ak) and all(classify_poll(dest, k_) == "None" for k_ in ak)
                    removed = any(x in pth for pth, _ in ag for x, _, _ in direct_sites(b, r"alloc::vec::Vec::<.*>::(remove|swap_remove|pop)$"))
                    if only and none_known and not removed:
                        ok = True
                        det = "the only group (len == 1, cursor == 0 on all %d arrivals) answered Ready(None) and stays in the vector" % len(ag)
            ctx.ob("R2.4", b, "ready-none-behind-groups.is_empty#%d" % k, ok, b.loc(rb), det)
    # all other poll functions of collection types: None only forwarded
    for b in ctx.facts.fn_bodies():
        if not re.search(r"as futures_core::Stream>::poll_next$", b.path):
            continue
        if b in group_loop_fns(ctx) or b.path in {d.path for d in R.drain_fns}:
            continue
        if not re.search(r"^<(futures_|merge_)", b.path):
            continue
        fl = ctx.flow(b)
        vf = variant_facts(b, fl)
        for k, rb in enumerate(ready_none_blocks(ctx, b)):
            facts_here = vf.get(rb, frozenset())
            fwd = any(v == "None" for (_, v) in facts_here)
            if not fwd:
                # the inner answer may reach this return through the verdict of an inlined helper (a private `Step::Exhausted`):
                # on every constant-feasible arrival some inner poll / drain result is known to be Ready(None)
                from lib_flow import arrival_knowledge
                try:
                    ak = arrival_knowledge(b, fl, rb, const_feasible=True)
                except RuntimeError:
                    ak = []
                fwd = bool(ak) and all(any(v_ == "None" and "as Ready).0" in p_ for p_, v_ in k_.items()) for k_ in ak)
            # alternatively: behind explicit emptiness tests of the inner collection and (ordered) the parked heap
            lv = set()
            for sb in range(b.n):
                for tgt, labs in fl.edge_labels(sb).items():
                    if b.dominates(tgt, rb) and len(b.pred[tgt]) == 1:
                        for lab in labs:
                            if lab[0] == "bool" and lab[2] is True:
                                lv |= deep_leaves(ctx, b, lab[1], 3)
            inner_empty = any(x[0] == "call" and re.search(r"(FuturesUnordered|FuturesUnorderedBounded|PinSlotMap)::<.*>::is_empty$", x[1] or "") for x in lv)
            heap_empty = any(x[0] == "call" and re.search(r"BinaryHeap::<.*>::is_empty$", x[1] or "") for x in lv)
            ordered = "futures_ordered" in b.path
            explicit = inner_empty and (heap_empty or not ordered)
            ctx.ob("R2.4", b, "ready-none-forwarded-from-inner#%d" % k, fwd or explicit, b.loc(rb),
                   "forwarded=%s explicit-emptiness=%s facts: %s" % (fwd, explicit, sorted(facts_here)))


def collection_poll_fns(ctx, R):
    pat = re.compile(r"^<(futures_unordered|futures_unordered_bounded|futures_ordered|futures_ordered_bounded|merge_bounded|merge_unbounded)::"
                     r".* as futures_core::Stream>::poll_next$")
    out = [b for b in ctx.facts.fn_bodies() if pat.search(b.path)]
    out += [d for d in R.drain_fns]
    for d in R.drain_fns:
        out += [b for b, _ in R.callers_of(d) if b not in out]
    seen = []
    for b in out:
        if b not in seen:
            seen.append(b)
    return seen


def r2_5(ctx, R):
    ctx.rule("R2.5", "no output is dropped on a normal path: no feasible non-cleanup drop (Drop terminator, "
                     "drop_in_place, mem::drop) of a value owning a Future::Output / Stream::Item in the poll functions "
                     "of the six collection/merge types (variant-aware, take-aware); in the ordered poll_next the inner "
                     "output reaches the return value or BinaryHeap::push on every path")
    fns = collection_poll_fns(ctx, R)
    for b in fns:
        lds = live_drops(ctx, b, is_output_like)
        # the DRAIN output parameter O
        lds += live_drops(ctx, b, lambda t: t["k"] == "param" and t["name"] == "O")
        # the release of an entry of a join combinator's MaybeUninit output buffer (`assume_init_drop`, reached here when the
        # combinator drives the drain itself and its release helper is read through) is not a drop by a collection: whether
        # that entry may be released is C06 R6.6 / C07's question
        lds = [x for x in lds if x[2] != "assume_init_drop"]
        ctx.ob("R2.5", b, "no-live-output-drop", not lds, d_loc(b),
               "; ".join("%s %s at %s" % (how, place_str(p) if p else "?", b.loc(bb)) for bb, p, how in lds[:3]))
    ctx.floor("R2.5", "poll-functions", len(fns), 8)
    # ordered: output local reaches return or heap push
    n = 0
    for b in ctx.facts.fn_bodies():
        if not re.search(r"^<futures_ordered(_bounded)?::.* as futures_core::Stream>::poll_next$", b.path):
            continue
        n += 1
        fl = ctx.flow(b)
        vf = variant_facts(b, fl)
        inner = [(bb, t, fn) for bb, t, fn in b.calls() if fn and not b.is_cleanup(bb)
                 and re.search(RE_STREAM_POLL_NEXT, fn["def"]) and callee_body(ctx.facts, fn) is not None]
        for ibb, it, ifn in inner:
            # region where an output was obtained: some fact "<x> = Some" on a place derived from the inner result
            some_blocks = set()
            for bb, facts in vf.items():
                for (p, v) in facts:
                    if v == "Some" and b.dominates(ibb, bb):
                        pe = _fact_place_expr(b, fl, p)
                        if pe is not None and any(c[3] == ibb for c in expr_calls(pe)):
                            some_blocks.add(bb)
            ents = first_entries(b, fl, ibb, some_blocks)
            pushes = [bb for bb, t, fn in direct_sites(b, r"alloc::collections::BinaryHeap::<.*>::push$")]
            yields = [bb for bb, e in returned_exprs(ctx, b)
                      if e[0] == "agg" and e[1].endswith("Poll::Ready") and e[2][0][0] == "agg" and e[2][0][1].endswith("Option::Some")
                      and any(c[3] == ibb for c in expr_calls(e))]
            sinks = pushes + yields
            stops = b.returns() + [ibb]
            ok = bool(ents) and all(b.must_pass(e, stops, sinks) for e in ents)
            if ents and not ok:
                # per feasible path (the verdict of an inlined helper -- `Some(data)` when in turn, `None` after parking it --
                # is re-examined at a join): from the point the output exists up to the next inner poll / the return, the path
                # parks it in the heap or returns Ready(Some(<it>))
                from lib_flow import sensitive_paths, PathEval
                ok = True
                nseg = 0
                for kind, path, know in sensitive_paths(b, fl, 2):
                    if kind != "return":
                        continue
                    for i, bb in enumerate(path):
                        if bb not in ents or ibb not in path[:i]:
                            continue
                        end = len(path)
                        for j in range(i + 1, len(path)):
                            if path[j] == ibb:
                                end = j
                                break
                        seg = path[i:end]
                        nseg += 1
                        hit = any(x in pushes for x in seg)
                        if not hit and end == len(path):
                            r = PathEval(b, path).local_expr(0)
                            hit = r[0] == "agg" and r[1].endswith("Poll::Ready") and r[2][0][0] == "agg" and r[2][0][1].endswith("Option::Some") \
                                and any(c[3] == ibb for c in expr_calls(r))
                        if not hit:
                            ok = False
                ok = ok and nseg > 0
            ctx.ob("R2.5", b, "inner-output-reaches-return-or-heap", ok, b.loc(ibb),
                   "entries %s sinks: push %s yield %s" % (sorted(ents), [b.loc(x) for x in pushes], [b.loc(x) for x in yields]))
    ctx.floor("R2.5", "ordered-poll_next", n, 2)


def _fact_place_expr(body, fl, pstr):
    """Expression of the base local named in a fact's place string."""
    m = re.search(r"_(\d+)", pstr)
    if not m:
        return None
    return fl.local_expr(int(m.group(1)))


def r2_6(ctx, R):
    ctx.rule("R2.6", "remaining-counter atomic group (unbounded FuturesUnordered): the usize field decremented in "
                     "poll_next is decremented exactly on the path that returns Ready(Some) and on no other; in push it is "
                     "incremented exactly once on every return path and every return path performs exactly one "
                     "successful insertion (try_push Ok edge, or push into the fresh group)")
    n = 0
    for b in group_loop_fns(ctx):
        fl = ctx.flow(b)
        decs = [(bb, fld) for (bb, i, fld, val, root, pe) in self_field_stores(b, fl) if is_inc_of(val, fld) == -1]
        if not decs:
            continue
        n += 1
        fld = decs[0][1]
        vf = variant_facts(b, fl)
        succ, _ = feasible_cfg(b, fl)
        # the Ready(Some) yields
        yields = [bb for bb, e in returned_exprs(ctx, b)
                  if e[0] == "agg" and e[1].endswith("Poll::Ready") and e[2][0][0] == "agg" and e[2][0][1].endswith("Option::Some")]
        dec_blocks = {bb for bb, f in decs}
        bad = []
        npaths = 0
        from groups import cursor_events
        ce = cursor_events(ctx, R, b)
        if ce is not None:
            # per feasible (variant-sensitive) path, the returned value classified along the path
            for p, ev in ce[1]:
                npaths += 1
                nd = sum(1 for x in p if x in dec_blocks)
                ny = 1 if ev and ev[-1][0] == "RET" and ev[-1][1] == "Some" else 0
                if nd != ny:
                    bad.append(p)
        else:
            for k, p in enumerate_paths(b, succ, loop_visits=2):
                if k != "return":
                    continue
                npaths += 1
                nd = sum(1 for x in p if x in dec_blocks)
                ny = 1 if any(x in yields for x in p[-8:]) and _last_ret_assign(b, p) in yields else 0
                if nd != ny:
                    bad.append(p)
        ctx.ob("R2.6", b, "counter-decremented-iff-yield", not bad, d_loc(b),
               "field %s, %d paths, %d bad" % (fld, npaths, len(bad)), path=bad[:1] or None)
        # push side: the struct's push = crate fn with store +1 to same field
        owner = re.match(r"^<([\w:]+)<", b.path).group(1)
        for pb in ctx.facts.fn_bodies():
            if not pb.path.startswith(owner + "::<"):
                continue
            pfl = ctx.flow(pb)
            incs = {bb for (bb, i, f2, val, root, pe) in self_field_stores(pb, pfl) if f2 == fld and is_inc_of(val, f2) == 1}
            if not incs:
                continue
            psucc, _ = feasible_cfg(pb, pfl)
            pvf = variant_facts(pb, pfl)
            # insertion events: try_push whose result is known Ok on the path, or push (panicking) calls
            tp = [(bb, t) for bb, t, fn in pb.calls() if fn and not pb.is_cleanup(bb)
                  and re.search(r"FuturesUnorderedBounded::<.*>::try_push$", fn_name(fn) or "")]
            ps = {bb for bb, t, fn in pb.calls() if fn and not pb.is_cleanup(bb)
                  and re.search(r"FuturesUnorderedBounded::<.*>::push$", fn_name(fn) or "")}
            badp = []
            np_ = 0
            for k, p in enumerate_paths(pb, psucc):
                if k != "return":
                    continue
                np_ += 1
                ninc = sum(1 for x in p if x in incs)
                nins = sum(1 for x in p if x in ps)
                for (tbb, tt) in tp:
                    if tbb in p:
                        dest = place_str(tt["dest"])
                        # Ok edge taken on this path?
                        if any((dest, "Ok") in pvf.get(x, frozenset()) for x in p[p.index(tbb):]):
                            nins += 1
                if ninc != 1 or nins != 1:
                    badp.append((p, ninc, nins))
            ctx.ob("R2.6", pb, "push:+1-once-and-one-insertion", not badp and np_ > 0, d_loc(pb),
                   "%d paths, bad %s" % (np_, [(x[1], x[2]) for x in badp[:3]]), path=[x[0] for x in badp[:1]] or None)
    ctx.floor("R2.6", "unbounded-with-counter", n, 1)


def push_path_insertions(ctx, pb, coll=r"(FuturesUnorderedBounded|MergeBounded)"):
    """For every feasible return path of an unbounded push: number of successful insertions on it (a try_push whose
    result is known Ok on the path, or a panicking push of the bounded group).  -> [(path, n)]"""
    pfl = ctx.flow(pb)
    psucc, _ = feasible_cfg(pb, pfl)
    pvf = variant_facts(pb, pfl)
    tp = [(bb, t) for bb, t, fn in pb.calls() if fn and not pb.is_cleanup(bb)
          and re.search(coll + r"::<.*>::try_push$", fn_name(fn) or "")]
    ps = {bb for bb, t, fn in pb.calls() if fn and not pb.is_cleanup(bb)
          and re.search(coll + r"::<.*>::push$", fn_name(fn) or "")}
    out = []
    for k, p in enumerate_paths(pb, psucc):
        if k != "return":
            continue
        nins = sum(1 for x in p if x in ps)
        for (tbb, tt) in tp:
            if tbb in p:
                dest = place_str(tt["dest"])
                if any((dest, "Ok") in pvf.get(x, frozenset()) for x in p[p.index(tbb):]):
                    nins += 1
        out.append((p, nins))
    return out


def _last_ret_assign(body, path):
    for b in reversed(path):
        for s in body.stmts(b):
            if s["k"] == "assign" and s["place"]["l"] == 0 and not s["place"]["p"]:
                return b
    return None


def r2_7(ctx, R, counter, head):
    ctx.rule("R2.7", "free-list initialisation and lookup: the empty constructor builds slots = collect(map(1..=capacity, "
                     "Free)) (slot i links to i+1, the last to `capacity` = no slot), head = 0, counter = 0; the slot lookup is "
                     "slice::get_mut(key) on the pinned slots (None exactly when key is out of range) re-pinned with "
                     "Pin::new_unchecked; the Occupied-only accessor goes through that lookup")
    sm, slots_field = R.slot_enum[1], R.slot_enum[2]
    occ, free = R.slot_variants
    n = 0
    for b in R.slotmap_methods:
        if b.kind == "Closure" or "FromIterator" in b.path:
            continue
        for rb, e in returned_exprs(ctx, b):
            if not (e[0] == "agg" and e[1].startswith(sm + "::")):
                continue
            n += 1
            ops = __import__('lib_inter').flat_ops(ctx, e)
            chain = []
            x = ops[slots_field]
            rng = None
            while x[0] == "call":
                nm = (x[1] or "")
                chain.append(nm.split("::")[-1])
                if nm.endswith("::map"):
                    mf = x[2][1]
                    mfn = mf[1] if mf[0] == "fn" else "?"
                    if mf[0] == "agg" and mf[1].startswith("closure:"):
                        # |i| Slot::Free{next: i}: a closure returning the free variant built from its own argument
                        cb_ = ctx.facts.bodies.get(mf[1][len("closure:"):])
                        if cb_ is not None:
                            r_ = ctx.flow(cb_).local_expr(0)
                            if r_[0] == "agg" and len(r_[2]) == 1 and strip_refs(r_[2][0]) == ("param", 2):
                                mfn = r_[1]
                    chain.append("map-fn=" + mfn)
                if "RangeInclusive" in nm and nm.endswith("::new"):
                    rng = x
                    break
                x = x[2][0] if x[2] else ("unknown",)
            # conversions of the collected storage (Vec -> Box<[T]> -> Pin<Box<[T]>>, in any spelling), then collect, then the map
            conv = []
            for c_ in chain:
                if c_ in ("into", "into_boxed_slice", "from", "into_pin", "new_unchecked", "pin"):
                    conv.append(c_)
                else:
                    break
            rest_ = chain[len(conv):]
            ok_chain = bool(rest_) and rest_[0] == "collect" and len(rest_) >= 3 and rest_[1] == "map" and \
                rest_[2].startswith("map-fn=") and rest_[2].endswith("::" + free)
            ok_rng = rng is not None and rng[2][0][0] == "const" and rng[2][0][2] == "1" and strip_refs(rng[2][1])[0] == "param"
            h, c = ops.get(head[1:]), ops.get(counter[1:])
            ok_hc = h is not None and c is not None and h[0] == "const" and h[2] == "0" and c[0] == "const" and c[2] == "0"
            ctx.ob("R2.7", b, "empty-constructor-free-list", ok_chain and ok_rng and ok_hc, b.loc(rb),
                   "slots <- %s; range %s; head=%s counter=%s" % (" <- ".join(chain), expr_str(rng) if rng else None, expr_str(h) if h else None, expr_str(c) if c else None))
    ctx.floor("R2.7", "empty-constructors", n, 1)
    # the lookup used by INSERT/REMOVE/ACCESSOR: through one shared helper, or written out / inlined in place
    lookups = set()
    users = (R.insert_fn, R.remove_fn) + tuple(R.accessor_fns)
    for b in users:
        for bb, t, fn in b.calls():
            cb = callee_body(ctx.facts, fn)
            if cb is not None and cb in R.slotmap_methods and re.match(r"core::option::Option<core::pin::Pin<&mut %s<" % re.escape(R.slot_enum[0]), cb.locals[0]):
                lookups.add(cb.path)
    ctx.ob("R2.7", "<crate>", "at-most-one-shared-slot-lookup-helper", len(lookups) <= 1, "", str(sorted(lookups)))

    def lookup_sites(b, keys_ok):
        """slice accesses on the slots field in b: [(bb, ok, detail)]"""
        lfl = ctx.flow(b)
        out = []
        for bb, t, fn in b.calls():
            nm = fn_name(fn) if fn else ""
            if fn is None or b.is_cleanup(bb) or not t["args"]:
                continue
            if not re.search(r"core::slice::<impl \[T\]>::(get_mut|get|get_unchecked_mut|get_unchecked)$|core::ops::Index(Mut)?::index(_mut)?$|core::slice::index::", nm or ""):
                continue
            recv = lfl.operand_expr(t["args"][0])
            if ("." + slots_field) not in repr(recv):
                continue
            key = strip_refs(lfl.operand_expr(t["args"][1])) if len(t["args"]) > 1 else ("unknown",)
            ok = bool(re.search(r"::get_mut$", nm)) and keys_ok(key)
            # re-pinned: the only consumer of the element reference is Pin::new_unchecked
            out.append((bb, ok, "%s(%s) on .%s" % (nm.split("::")[-1], expr_str(key), slots_field)))
        # direct index projections on the slots (slots[i]) are unchecked-by-rule accesses
        for bb in range(b.n):
            if b.is_cleanup(bb):
                continue
            for s_ in b.stmts(bb):
                if s_["k"] == "assign" and any(e["k"] in ("index", "constindex") for e in s_["place"]["p"]) and ("." + slots_field) in repr(lfl.place_expr(s_["place"])):
                    out.append((bb, False, "indexed store into .%s" % slots_field))
        return out
    n_sites = 0
    for b in users:
        if b is R.insert_fn:
            keys_ok = lambda k: k[0] == "proj" and k[2] and k[2][-1] == head
            want = "self" + head
        elif b is R.remove_fn:
            # the slot being freed is looked up by the key; a second checked lookup by a link field (the tail of a FIFO
            # free list) serves the link store that R2.3 audits
            keys_ok = lambda k: k[0] == "param" or _is_self_field(k)
            want = "key parameter"
        else:
            keys_ok = lambda k: k[0] == "param"
            want = "key parameter"
        sites = lookup_sites(b, keys_ok)
        via = [lp for lp in lookups if any(callee_body(ctx.facts, fn) is not None and callee_body(ctx.facts, fn).path == lp for _, _, fn in b.calls())]
        for bb, ok, det in sites:
            n_sites += 1
            ctx.ob("R2.7", b, "lookup=slots.get_mut(%s)@%s" % (want, _site_label(b, bb)), ok, b.loc(bb), det)
        ctx.ob("R2.7", b, "reaches-its-slot-through-the-checked-lookup", bool(sites) or bool(via), d_loc(b),
               "%d in-place lookups, helper %s" % (len(sites), via))
    for lp in lookups:
        b = ctx.facts.bodies[lp]
        lfl = ctx.flow(b)
        ok = False
        det = ""
        for rb, e in returned_exprs(ctx, b):
            if e[0] == "agg" and e[1].endswith("Option::Some"):
                v = e[2][0]
                if v[0] == "call" and (v[1] or "").endswith("new_unchecked"):
                    src = strip_refs(v[2][0])
                    gm = [c for c in expr_calls(src) if re.search(r"core::slice::<impl \[T\]>::get_mut$", c[1] or "")]
                    if gm:
                        key = strip_refs(gm[0][2][1])
                        recv = repr(gm[0][2][0])
                        ok = key[0] == "param" and ("." + slots_field) in recv
                        det = "get_mut(%s) on .%s" % (expr_str(key), slots_field)
        n_sites += 1
        ctx.ob("R2.7", b, "lookup=slots.get_mut(key)-repinned", ok, d_loc(b), det)
        # callers pass the right key
        for u in users:
            ufl = ctx.flow(u)
            for bb, t, fn in u.calls():
                cb = callee_body(ctx.facts, fn)
                if cb is not None and cb.path == lp:
                    key = strip_refs(ufl.operand_expr(t["args"][-1]))
                    okk = (key[0] == "proj" and key[2] and key[2][-1] == head) if u is R.insert_fn else key[0] == "param"
                    ctx.ob("R2.7", u, "lookup-key@%s" % _site_label(u, bb), okk, u.loc(bb), expr_str(key))
    ctx.floor("R2.7", "slot-lookups", n_sites, 1)


COLLECTIONS = r"^(<)?(futures_unordered_bounded|futures_unordered|futures_ordered_bounded|futures_ordered|merge_bounded|merge_unbounded)::"


def run(ctx):
    R = roles(ctx)
    R.pop_fn, R.drain_fn, R.insert_fn, R.remove_fn
    r2_1(ctx, R, only_in=COLLECTIONS)
    r2_2(ctx, R)
    res = r2_3(ctx, R)
    counter = res["INSERT"][0] or ".filled"
    r2_4(ctx, R, counter)
    r2_5(ctx, R)
    r2_6(ctx, R)
    r2_7(ctx, R, counter, res["INSERT"][1] or ".free_head")
    shared(ctx, R)


def shared(ctx, R):
    """Necessary conditions decided by other properties' rule sets that 'every accepted output is yielded (if the
    collection keeps being polled), exactly once' also rests on; evaluated here so that this check stands alone."""
    import c01
    import c04
    import c05
    import c15
    for fn_ in (c01.r1_1, c01.r1_2, c01.r1_3, c01.r1_4, c01.r1_5, c01.r1_7, c01.r1_8):
        fn_(ctx, R)
    ctx.rule("R1.x", "see C01 (shared): the wake/poll handshake -- an accepted future that is never polled again is never yielded")
    c05.r5_1(ctx, R)
    ctx.rule("R5.1", "see C05 R5.1 (shared): only the Occupied slot of the popped index is polled")
    ot = c04.ordered_types(ctx)
    c04.r4_1(ctx, R, ot)
    c04.r4_2(ctx, R, ot)
    ctx.rule("R4.1", "see C04 R4.1 (shared): index discipline -- a gap or duplicate in the order indices parks outputs forever")
    ctx.rule("R4.2", "see C04 R4.2 (shared): outputs are released exactly when in turn")
    c04.r4_4(ctx, R)
    c04.r4_7(ctx, R, ot)
    ctx.rule("R4.7", "see C04 R4.7 (shared): positions are assigned only by the numbering sites; stored indices and the counters are "
                     "otherwise only re-based / stepped by one")
    ctx.rule("R4.4", "see C04 R4.4 (shared): the parked-output heap is a min-heap on the unsigned index -- another order parks the "
                     "next-in-turn output behind one that never matches")
    c15.r15_2b(ctx, R)
