"""C16 -- ordered buffering exerts backpressure: the fill guard counts running + parked."""
import re

from lib_inter import deep_leaves
from roles import roles
from c01 import d_loc
from adapters import adapter_fns, AdapterModel, simulate, ev_str
import c02

EXPLANATION = (
    "Static decision: in the poll_next of every adapter whose inner queue is the bounded ordered collection, the left "
    "operand of the fill-loop guard (the comparison whose true outcome precedes every insertion, C09 R9.2) data-depends, "
    "through at most three levels of crate observers, on BOTH the running-futures counter of the inner unordered queue AND "
    "the length of the parked-output heap, while the right operand is capacity() of the same queue; and every insertion on "
    "every feasible path is behind a true outcome of that guard (one pull per guard evaluation). With C15 R15.3 (len() = "
    "running + parked) this bounds pulled-but-not-yielded items by n on all paths. Decided in full at this level.")
ASSUMPTIONS = [
    "len() of the ordered collection is running + parked (C15 R15.3 checks the observer)",
    "n >= 1",
]


def _norm(e):
    if e[0] == "proj" and e[2] == (".0",) and e[1][0] == "binop" and e[1][1].endswith("WithOverflow"):
        return ("binop", e[1][1].replace("WithOverflow", ""), e[1][2], e[1][3])
    return e


def exact_count(ctx, e, counter, depth=4):
    """e (in some body) is exactly the slot-map counter field, through observers only."""
    from lib_flow import strip_refs
    e = _norm(e)
    if e[0] == "proj" and e[2] and e[2][-1] == counter:
        return True
    if e[0] == "call" and e[1] in ctx.facts.bodies and depth > 0:
        cb = ctx.facts.bodies[e[1]]
        r = ctx.flow(cb).local_expr(0)
        return exact_count(ctx, r, counter, depth - 1)
    return False


def exact_sum_observer(ctx, l, counter):
    from lib_flow import expr_str
    if not (l[0] == "call" and l[1] in ctx.facts.bodies):
        return False, "guard lhs is not a crate observer call: %s" % expr_str(l)
    cb = ctx.facts.bodies[l[1]]
    r = _norm(ctx.flow(cb).local_expr(0))
    if r[0] == "binop" and r[1] == "Add":
        a, b_ = r[2], r[3]
        for x, y in ((a, b_), (b_, a)):
            if exact_count(ctx, x, counter) and y[0] == "call" and re.search(r"BinaryHeap::<.*>::len$", y[1] or ""):
                return True, "%s = %s" % (l[1], expr_str(r))
    return False, "%s returns %s" % (l[1], expr_str(r))


def run(ctx):
    R = roles(ctx)
    R.insert_fn
    res = c02.r2_3(ctx, R)
    # "running" in the guard is the slot map's occupied counter: it must move only together with the slots themselves
    # (a counter stepped down while its slot stays occupied makes the guard admit more than the limit)
    ctx.rule("R2.3", "see C02 R2.3 (shared link): slot-map insert / remove keep the occupied counter and the slots in step; no other "
                     "function writes the bookkeeping")
    counter = res["INSERT"][0]
    ctx.need(counter is not None, "COUNTER")
    ctx.rule("R16.1", "guard covers parked outputs: lhs of the fill guard depends on the slot-map counter and on "
                      "BinaryHeap::len of the parked heap; rhs is capacity(); every PUSH on every feasible path is behind G(true)")
    n = 0
    from adapters import upstream_pollers
    for b in upstream_pollers(ctx, R):
        m = AdapterModel(ctx, R, b)
        if not (m.qty or "").startswith("futures_ordered_bounded::FuturesOrderedBounded<"):
            continue
        n += 1
        ctx.ob("R16.1", b, "has-fill-guard", len(m.guards) >= 1, d_loc(b))
        for sb, safe, sat, det in m.guard_semantics(True, safety_counts_parked=True):
            gi = m.guard_info[sb]
            if safe is None:
                sh = gi["shape"]
                ok, d2 = (False, "guard has no closed form and is not a comparison")
                if sh and sh[0] == "Lt" and gi["pull_val"] is True:
                    ok, d2 = exact_sum_observer(ctx, sh[1], counter)
                    ok = ok and sh[2][0] == "call" and (sh[2][1] or "").endswith("::capacity")
                ctx.ob("R16.1", b, "guard-lhs-is-exactly-running+parked", ok, b.loc(sb), "shape rule: " + d2)
                continue
            ctx.ob("R16.1", b, "guard-counts-running-and-parked", safe, b.loc(sb),
                   "finite-grid entailment: a pull is admitted only when running + parked < capacity; " + det)
        bad = []
        npush = 0
        for path, ev in m.all_event_paths(3):
            feas, st = simulate(ev)
            if not feas:
                continue
            armed = False
            for e in ev:
                if e[0] == "G":
                    armed = e[1]
                elif e[0] == "PUSH":
                    npush += 1
                    if not armed:
                        bad.append(ev)
                    armed = False
        ctx.ob("R16.1", b, "one-pull-per-true-guard", not bad and npush > 0, d_loc(b), "push events %d; unguarded: %s" % (npush, ev_str(bad[0]) if bad else "-"))
    ctx.floor("R16.1", "ordered-adapters", n, 2)
    c02.r2_5(ctx, R)
    ctx.rule("R2.5", "see C02 R2.5 (shared): in the ordered poll_next an out-of-turn output goes into the parked heap (which len() "
                     "counts) or is returned -- it is never held anywhere else, where the guard would not see it")
    import c15
    c15.r15_3(ctx, R, counter)
    ctx.rule("R15.3", "see C15 R15.3 (shared link): len() of the ordered collection is running + parked; observers agree")
