"""C13 -- no starvation; bounded work per poll."""
import re

from lib_facts import place_str, fn_name
from lib_flow import (strip_refs, expr_calls, expr_str, variant_facts, sensitive_paths, PathEval, is_inc_of)
from roles import roles, direct_sites, callee_body, RE_STREAM_POLL_NEXT
from c01 import _site_label, d_loc, group_loop_fns, pending_assign_blocks
import c02

EXPLANATION = (
    "Static decision of: R13.1 budgeted drain loop -- every natural loop that contains a child poll carries a local "
    "counter initialised to a constant before the loop, incremented by a positive constant in a block that dominates "
    "the child poll and every back edge, compared against a constant bound whose exceeding edge leaves the loop and "
    "passes through a wake of the task waker before returning Pending; the merge's outer re-drain loop has back edges only "
    "behind the removal of an ended source (so it is bounded by the number of held sources); R13.2 group-cursor fairness -- "
    "in the two unbounded poll_next functions, on every feasible path, after each inner poll of groups[cursor] that did "
    "not remove the group, the cursor field is advanced (stored cursor+k, k>=1, or wrapped to 0) before the next inner "
    "poll or the return. FIFO of the ready queue is cordyceps' (trusted). The numeric linear bound itself is not decided.")
ASSUMPTIONS = [
    "cordyceps::MpscQueue is FIFO (a re-woken child queues behind what is already queued)",
    "loops unrolled to 3 visits per block for the path rules",
]


def r13_1(ctx, R):
    ctx.rule("R13.1", "budgeted drain loop: loops containing a CHILD-POLL have a constant-initialised counter, +const per "
                      "iteration in a block dominating the child poll and all back-edge tails, a comparison with a constant "
                      "bound whose exceeding edge leaves the loop, and a TASK-WAKE on that exit before the Pending return")
    n = 0
    for d in R.drain_fns:
        fl = ctx.flow(d)
        polls = [bb for bb, t, fn in R.child_poll_sites(d)]
        loops = d.loops()
        for head, body in loops.items():
            inside = [p for p in polls if p in body]
            if not inside:
                continue
            n += 1
            tails = [a for (a, b_) in d.back_edges() if b_ == head]
            # candidate counters: locals with an increment store inside the loop
            found = None
            for l, defs in fl.defs.items():
                incs = []
                inits = []
                for (bb, idx, kind, node) in defs:
                    if kind != "assign":
                        continue
                    e = fl.rvalue_expr(node["rv"], bb)
                    k = _inc_of_local(e, l)
                    if k is not None and k > 0 and bb in body:
                        incs.append(bb)
                    elif e[0] == "const" and bb not in body and d.dominates(bb, head):
                        inits.append((bb, e[2]))
                other_defs_in_loop = [bb for (bb, idx, kind, node) in defs if bb in body and bb not in incs]
                if incs and inits and not other_defs_in_loop:
                    inc = incs[0]
                    # every loop cycle that polls a child passes through the increment (cycles that only skip a vacant,
                    # stale queue entry consume that entry and need not be counted)
                    dom_ok = all(not _cycle_avoiding(d, body, head, p, {inc}) for p in inside)
                    # comparison against a constant, exceeding edge leaves the loop
                    exit_tgt = None
                    for sb in body:
                        for tgt, labs in fl.edge_labels(sb).items():
                            for lab in labs:
                                if lab[0] == "bool" and lab[1][0] == "binop" and lab[1][1] in ("Gt", "Ge", "Lt", "Le", "Eq", "Ne"):
                                    a, c = lab[1][2], lab[1][3]
                                    if (a == ("multi", l) and c[0] == "const") or (c == ("multi", l) and a[0] == "const"):
                                        exceed = lab[2] if lab[1][1] in ("Gt", "Ge", "Eq") else (not lab[2])
                                        if (c == ("multi", l)):
                                            exceed = not exceed if lab[1][1] in ("Gt", "Ge", "Lt", "Le") else exceed
                                        if exceed and tgt not in body and all(not _cycle_avoiding(d, body, head, p, {sb}) for p in inside):
                                            exit_tgt = (sb, tgt, c[2] if c[0] == "const" else a[2], lab[1][1])
                    if dom_ok and exit_tgt:
                        found = (l, inc, inits[0], exit_tgt)
            ok = found is not None
            det = "no budget counter found"
            if found is None:
                # range form: `for _ in 0..MAX { .. child poll .. }` then self-wake and Pending
                for (h2, body2, nbb, tgt, lo, hi) in range_budgets(ctx, d):
                    if h2 != head:
                        continue
                    counted = all(not _cycle_avoiding(d, body, head, p, {nbb}) for p in inside)
                    wakes = [bb for bb, t, fn in R.task_wake_sites(d)]
                    pend = pending_assign_blocks(d)
                    wake_ok = any(d.dominates(tgt, w) for w in wakes) and d.must_pass(tgt, d.returns(), [w for w in wakes if d.dominates(tgt, w)])
                    pend_ok = any(d.dominates(tgt, p) for p in pend)
                    ok = counted and wake_ok and pend_ok and hi - lo >= 1
                    det = "range form %d..%d at %s; every polling cycle passes next(): %s; exhaustion edge -> self-wake: %s, Pending: %s" % (
                        lo, hi, d.loc(nbb), counted, wake_ok, pend_ok)
                ctx.ob("R13.1", d, "child-poll-loop-is-budgeted@head-ord%d" % sorted(loops).index(head), ok, d.loc(head), det)
                continue
            if found:
                l, inc, init, (sb, tgt, bound, cmp_op) = found
                wakes = [bb for bb, t, fn in R.task_wake_sites(d)]
                pend = pending_assign_blocks(d)
                # on the exit: wake then Pending return, nothing else
                wake_ok = any(d.dominates(tgt, w) for w in wakes) and \
                    all(d.must_pass(tgt, d.returns(), [w for w in wakes if d.dominates(tgt, w)]) for _ in [0])
                pend_ok = any(d.dominates(tgt, p) for p in pend)
                # the budget admits at least one child poll per call (otherwise nothing is ever polled)
                try:
                    room = int(bound) - int(init[1]) - (1 if cmp_op in ("Gt", "Lt") else 2)
                except ValueError:
                    room = -1
                ok = wake_ok and pend_ok and room >= 0
                det = "counter _%d init %s at %s, +const at %s, exits when count %s %s, exit edge bb%d->bb%d, self-wake on exit: %s, returns Pending: %s, admits >=1 child poll: %s" % (
                    l, init[1], d.loc(init[0]), d.loc(inc), cmp_op, bound, sb, tgt, wake_ok, pend_ok, room >= 0)
            ctx.ob("R13.1", d, "child-poll-loop-is-budgeted@head-ord%d" % sorted(loops).index(head), ok, d.loc(head), det)
    ctx.floor("R13.1", "loops-with-child-poll", n, 1)
    # merge outer loop: back edges only behind a removal
    rem = R.remove_fn
    m = 0
    for b, (dbb, dt, dfn) in c02.future_drain_callers(ctx, R, RE_STREAM_POLL_NEXT):
        m += 1
        loops = b.loops()
        for head, body in loops.items():
            if dbb not in body:
                continue
            rems = [bb for bb, t, fn in R.calls_to_body(b, rem)]
            tails = [a for (a, b_) in b.back_edges() if b_ == head]
            ok = bool(tails) and all(any(b.dominates(r, t) for r in rems) for t in tails)
            ctx.ob("R13.1", b, "redrain-loop-only-after-removing-a-source", ok, b.loc(head),
                   "back-edge tails %s; REMOVE sites %s" % (tails, [b.loc(r) for r in rems]))
    ctx.floor("R13.1", "merge-redrain-loops", m, 1)


def range_budgets(ctx, d):
    """Loops driven by `for _ in LO..HI` with constant bounds: [(head, body, next_bb, exit_tgt, lo, hi)]."""
    fl = ctx.flow(d)
    out = []
    from lib_facts import place_str
    for head, body in d.loops().items():
        for bb, t, fn in d.calls():
            if bb not in body or fn is None or d.is_cleanup(bb):
                continue
            nm = fn_name(fn) or ""
            if not ("Range" in nm and nm.endswith("::next")):
                continue
            it = strip_refs(fl.operand_expr(t["args"][0]))
            while it[0] == "call" and (it[1] or "").endswith("into_iter"):
                it = strip_refs(it[2][0])
            if not (it[0] == "agg" and it[1].endswith("Range::Range") and it[2][0][0] == "const" and it[2][1][0] == "const"):
                continue
            dest = place_str(t["dest"])
            for sb in body:
                for tgt, labs in fl.edge_labels(sb).items():
                    for lab in labs:
                        if lab[0] == "variant" and place_str(lab[3]) == dest and lab[2] == "None" and tgt not in body:
                            out.append((head, body, bb, tgt, int(it[2][0][2]), int(it[2][1][2])))
    return out


def _cycle_avoiding(d, body, head, poll, avoid):
    """Is there a cycle head -> poll -> head inside the loop body that avoids the blocks in `avoid`?"""
    def reach(src, dst):
        seen = {src}
        work = [src]
        while work:
            x = work.pop()
            for s_ in d.normal_succ(x):
                if s_ == dst:
                    return True
                if s_ in body and s_ not in seen and s_ not in avoid:
                    seen.add(s_)
                    work.append(s_)
        return False
    if poll in avoid or head in avoid:
        return False
    return (head == poll or reach(head, poll)) and reach(poll, head)


def _inc_of_local(e, l):
    if e[0] == "proj" and e[2] == (".0",):
        e = e[1]
    if e[0] == "binop" and e[1] in ("Add", "AddWithOverflow", "AddUnchecked"):
        a, c = e[2], e[3]
        if a == ("multi", l) and c[0] == "const":
            try:
                return int(c[2])
            except ValueError:
                return None
    return None


from groups import cursor_events


def r13_2(ctx, R):
    ctx.rule("R13.2", "group-cursor fairness: after every inner poll of groups[cursor] with outcome Pending or Some the "
                      "cursor field is advanced (+k, k>=1) before the next inner poll or the return; outcome None removes the "
                      "group instead")
    fns = group_loop_fns(ctx)
    for b in fns:
        r = cursor_events(ctx, R, b)
        if r is None:
            ctx.ob("R13.2", b, "cursor-model", False, d_loc(b), "cannot identify groups[cursor] poll")
            continue
        cur_field, eps = r
        bad = {"Pending": [], "Some": []}
        seen = {"Pending": 0, "Some": 0, "None": 0}
        for path, ev in eps:
            for i, e in enumerate(ev):
                if e[0] != "P" or e[1] not in ("Pending", "Some", "None"):
                    continue
                seen[e[1]] += 1
                if e[1] == "None":
                    continue
                advanced = False
                for f in ev[i + 1:]:
                    if f[0] == "ADV" and f[1] == "inc":
                        advanced = True
                        break
                    if f[0] in ("P", "RET"):
                        break
                if not advanced:
                    bad[e[1]].append(path)
        for outcome in ("Pending", "Some"):
            ctx.ob("R13.2", b, "cursor-advanced-after-%s" % outcome, not bad[outcome] and seen[outcome] > 0, d_loc(b),
                   "cursor field %s; %d poll events with this outcome on feasible paths, %d not followed by an advance" % (
                       cur_field, seen[outcome], len(bad[outcome])), path=bad[outcome][0] if bad[outcome] else None)
    ctx.floor("R13.2", "group-loop-functions", len(fns), 2)


def run(ctx):
    R = roles(ctx)
    R.pop_fn, R.drain_fn, R.remove_fn
    r13_1(ctx, R)
    r13_2(ctx, R)
