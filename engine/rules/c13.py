"""C13 -- no starvation; bounded work per poll."""
import re

from lib_facts import place_str, fn_name
from lib_flow import (strip_refs, expr_calls, expr_str, variant_facts, sensitive_paths, PathEval, is_inc_of)
from roles import roles, direct_sites, callee_body, RE_STREAM_POLL_NEXT
from c01 import _site_label, d_loc, group_loop_fns, pending_assign_blocks
import c02

EXPLANATION = (
    "Static decision of: R13.1 budgeted drain loop -- every natural loop that contains a child poll carries a local "
    "counter initialised to a constant before the loop, incremented by a positive constant in a block that dominates "
    "the child poll and every back edge, compared against a constant bound whose exceeding edge leaves the loop and "
    "passes through a wake of the task waker before returning Pending; the merge's outer re-drain loop has back edges only "
    "behind the removal of an ended source (so it is bounded by the number of held sources); R13.2 group-cursor fairness -- "
    "in the two unbounded poll_next functions, on every feasible path, after each inner poll of groups[cursor] that did "
    "not remove the group, the cursor field is advanced (stored cursor+k, k>=1, or wrapped to 0) before the next inner "
    "poll or the return. FIFO of the ready queue is cordyceps' (trusted). The numeric linear bound itself is not decided.")
ASSUMPTIONS = [
    "cordyceps::MpscQueue is FIFO (a re-woken child queues behind what is already queued)",
    "loops unrolled to 3 visits per block for the path rules",
]


BUDGET_CEILING = 1 << 16


def r13_1(ctx, R):
    ctx.rule("R13.1", "budgeted drain loop: loops containing a CHILD-POLL have a constant-initialised counter, +const per "
                      "iteration in a block dominating the child poll and all back-edge tails, a comparison with a constant "
                      "bound whose exceeding edge leaves the loop, and a TASK-WAKE on that exit before the Pending return")
    n = 0
    for d in R.drain_fns:
        fl = ctx.flow(d)
        polls = [bb for bb, t, fn in R.child_poll_sites(d)]
        loops = d.loops()
        for head, body in loops.items():
            inside = [p for p in polls if p in body]
            if not inside:
                continue
            n += 1
            tails = [a for (a, b_) in d.back_edges() if b_ == head]
            found = find_budget(ctx, R, d, fl, head, body, inside)
            ok = found is not None
            det = "no budget counter found"
            if found is None:
                # range form: `for _ in 0..MAX { .. child poll .. }` then self-wake and Pending
                for (h2, body2, nbb, tgt, lo, hi) in range_budgets(ctx, d):
                    if h2 != head:
                        continue
                    counted = all(not _cycle_avoiding(d, body, head, p, {nbb}) for p in inside)
                    wakes = [bb for bb, t, fn in R.task_wake_sites(d)]
                    pend = pending_assign_blocks(d)
                    wake_ok = any(d.dominates(tgt, w) for w in wakes) and d.must_pass(tgt, d.returns(), [w for w in wakes if d.dominates(tgt, w)])
                    pend_ok = any(d.dominates(tgt, p) for p in pend)
                    if not (wake_ok and pend_ok):
                        # a tail shared with another early exit (e.g. `break` on an inconsistent queue): decide on the feasible
                        # paths that cross the exhaustion edge
                        try:
                            ncross, okp = 0, True
                            for kind_, pth, know in sensitive_paths(d, fl, 2):
                                for i_ in range(len(pth) - 1):
                                    if pth[i_] in body and pth[i_ + 1] == tgt and tgt not in body:
                                        ncross += 1
                                        rest = pth[i_ + 1:]
                                        if head in rest or not any(x in wakes for x in rest) or not (kind_ == "return" and any(x in pend for x in rest)):
                                            okp = False
                                        break
                            if ncross and okp:
                                wake_ok = pend_ok = True
                        except RuntimeError:
                            pass
                    ok = counted and wake_ok and pend_ok and hi - lo >= 1
                    det = "range form %d..%d at %s; every polling cycle passes next(): %s; exhaustion edge -> self-wake: %s, Pending: %s" % (
                        lo, hi, d.loc(nbb), counted, wake_ok, pend_ok)
                ctx.ob("R13.1", d, "child-poll-loop-is-budgeted@head-ord%d" % sorted(loops).index(head), ok, d.loc(head), det)
                continue
            if found:
                ok = found["exit_ok"] and found["room"] >= 1
                # sanity ceiling: "a bounded amount of child polling" per call must stay a modest number; a budget beyond
                # 65536 polls is an unbounded loop in practice (today: 61)
                if found["room"] > BUDGET_CEILING:
                    ok = False
                det = ("counter %s init %s at %s, step %+d at %s, budget exhausted when count %s %s (edge bb%d->bb%d); on exhaustion: "
                       "leaves the loop, self-wake and Pending on every feasible path: %s (%s); admits >=1 and <= 65536 child polls: %s" % (
                           found["l"], found["init"][1], d.loc(found["init"][0]), found["step"], [d.loc(x) for x in found["steps"]],
                           found["cmp"], found["bound"], found["sb"], found["tgt"], found["exit_ok"], found["exit_det"], 1 <= found["room"] <= BUDGET_CEILING))
            ctx.ob("R13.1", d, "child-poll-loop-is-budgeted@head-ord%d" % sorted(loops).index(head), ok, d.loc(head), det)
    ctx.floor("R13.1", "loops-with-child-poll", n, 1)
    # merge outer loop: back edges only behind a removal
    rem = R.remove_fn
    m = 0
    for b, (dbb, dt, dfn) in c02.future_drain_callers(ctx, R, RE_STREAM_POLL_NEXT):
        m += 1
        loops = b.loops()
        for head, body in loops.items():
            if dbb not in body:
                continue
            rems = [bb for bb, t, fn in R.calls_to_body(b, rem)]
            tails = [a for (a, b_) in b.back_edges() if b_ == head]
            ok = bool(tails) and all(any(b.dominates(r, t) for r in rems) for t in tails)
            if not ok and tails and rems:
                # the removal may sit in an inlined helper whose verdict is re-matched: every constant-feasible path that takes a
                # back edge passed a REMOVE site since the drain call of that iteration
                from lib_flow import sensitive_paths as _sp, path_const_feasible as _pcf
                ok = True
                seen_any = False
                try:
                    for kind_, pth, know in _sp(b, ctx.flow(b), 2):
                        for j in range(len(pth) - 1):
                            if pth[j] in tails and pth[j + 1] == head:
                                if not _pcf(b, pth[:j + 2]):
                                    continue
                                seen_any = True
                                d0 = max([x for x in range(j + 1) if pth[x] == dbb] or [-1])
                                if d0 < 0 or not any(pth[x] in rems for x in range(d0, j + 1)):
                                    ok = False
                except RuntimeError:
                    ok = False
                ok = ok and seen_any
            ctx.ob("R13.1", b, "redrain-loop-only-after-removing-a-source", ok, b.loc(head),
                   "back-edge tails %s; REMOVE sites %s" % (tails, [b.loc(r) for r in rems]))
    ctx.floor("R13.1", "merge-redrain-loops", m, 1)


def _step_of(e, l):
    """+k / -k when e is `cell +/- const k` for the cell ("multi", l) (l an int) or the cell expression l itself, else None."""
    cell_ = ("multi", l) if isinstance(l, int) else l
    return _step_of_cell(e, cell_)


def _step_of_cell(e, cell_):
    if e[0] == "proj" and e[2] == (".0",):
        e = e[1]
    if e[0] == "binop" and e[1] in ("Add", "AddWithOverflow", "AddUnchecked", "Sub", "SubWithOverflow", "SubUnchecked"):
        a, c = e[2], e[3]
        if a == cell_ and c[0] == "const":
            try:
                k = int(c[2])
            except ValueError:
                return None
            return k if e[1].startswith("Add") else -k
    if e[0] == "call" and re.search(r"core::num::<impl usize>::(saturating_sub|wrapping_sub|saturating_add|wrapping_add)$", e[1] or "") and \
            len(e[2]) == 2 and e[2][0] == cell_ and e[2][1][0] == "const":
        k = int(e[2][1][2])
        return k if "add" in e[1] else -k
    # `let Some(rest) = cell.checked_sub(k) else { .. }; cell = rest`
    if e[0] == "proj" and e[2] == ("@Some", ".0") and e[1][0] == "call" and re.search(r"core::num::<impl usize>::checked_(sub|add)$", e[1][1] or "") and \
            len(e[1][2]) == 2 and strip_refs(e[1][2][0]) == cell_ and e[1][2][1][0] == "const":
        k = int(e[1][2][1][2])
        return k if e[1][1].endswith("add") else -k
    return None


def find_budget(ctx, R, d, fl, head, body, inside):
    """A budget cell for the loop (head, body) whose child polls are `inside`: a local -- updated directly or through a
    `&mut` borrow of it -- initialised to a constant before the loop, changed inside the loop only by constant steps of one
    direction, stepped on every cycle that polls a child, compared with a constant so that the exhausted edge leads (on
    every feasible path) out of the loop through a TASK-WAKE to a Pending return."""
    from lib_flow import sensitive_paths
    cells = {}

    def cell(l):
        return cells.setdefault(l, {"inits": [], "steps": [], "other": []})
    for l, defs in fl.defs.items():
        for (bb, idx, kind, node) in defs:
            if kind != "assign":
                if bb in body:
                    cell(l)["other"].append(bb)
                continue
            e = fl.rvalue_expr(node["rv"], bb)
            k = _step_of(e, l)
            if k is not None and bb in body:
                cell(l)["steps"].append((bb, k))
            elif e[0] == "const" and bb not in body and d.dominates(bb, head):
                cell(l)["inits"].append((bb, e[2]))
            elif bb in body:
                cell(l)["other"].append(bb)
    for (sbb, si, st) in fl.stores:
        if si == "term":
            continue
        pe = fl.place_expr(st["place"])
        if pe[0] == "multi" and pe[1] in fl.mut_borrowed_scalars():
            l = pe[1]
            k = _step_of(fl.rvalue_expr(st["rv"], sbb), l)
            if k is not None and sbb in body:
                cell(l)["steps"].append((sbb, k))
            elif sbb in body:
                cell(l)["other"].append(sbb)
    # a budget kept in a field of a local struct (`PollBudget { used }` with a `take(&mut self)` method read through): the cell
    # is that field; its initial value is the constant the struct literal gives it before the loop
    for (sbb, si, st) in fl.stores:
        if si == "term":
            continue
        pe = fl.place_expr(st["place"])
        if pe[0] == "proj" and pe[1][0] == "multi" and pe[1][1] in fl.stored_through_ref() and len(pe[2]) == 1 and pe[2][0].startswith("."):
            k = _step_of_cell(fl.rvalue_expr(st["rv"], sbb), pe)
            c_ = cell(pe)
            if k is not None and sbb in body:
                c_["steps"].append((sbb, k))
            elif sbb in body:
                c_["other"].append(sbb)
            if not c_["inits"]:
                for (db, di, dk, dn) in fl.defs.get(pe[1][1], []):
                    if dk == "assign" and dn["rv"]["k"] == "aggregate" and db not in body and d.dominates(db, head):
                        names = dn["rv"].get("fields") or []
                        if pe[2][0][1:] in names:
                            o_ = dn["rv"]["ops"][names.index(pe[2][0][1:])]
                            if o_["k"] == "const" and "bits" in o_:
                                c_["inits"].append((db, o_["bits"]))
    wakes = {bb for bb, t, fn in R.task_wake_sites(d)}
    pend = set(pending_assign_blocks(d))
    best = None
    try:
        all_paths = list(sensitive_paths(d, fl, 2))
    except RuntimeError:
        all_paths = None

    def cycle_avoiding(p, avoid):
        """a flag/variant-feasible loop cycle (head .. head) that polls at p without passing a block of `avoid`"""
        if not _cycle_avoiding(d, body, head, p, avoid):
            return False
        if all_paths is None:
            return True
        for kind_, path, know in all_paths:
            hs = [i for i, x in enumerate(path) if x == head]
            for a_, b_ in zip(hs, hs[1:]):
                seg = path[a_:b_]
                if p in seg and not any(x in avoid for x in seg):
                    return True
        return False
    exhausted_edges = {}
    for l, c_ in cells.items():
        if not c_["steps"] or not c_["inits"] or c_["other"]:
            continue
        cell_e = ("multi", l) if isinstance(l, int) else l
        dirs = {1 if k > 0 else -1 for _, k in c_["steps"]}
        if len(dirs) != 1:
            continue
        up = dirs == {1}
        step_bbs = {bb for bb, _ in c_["steps"]}
        if any(cycle_avoiding(p, step_bbs) for p in inside):
            continue
        for sb in body:
            for tgt, labs in fl.edge_labels(sb).items():
                for lab in labs:
                    checked_none = False
                    if lab[0] == "variant" and lab[2] == "None" and not up:
                        y = strip_refs(lab[1])
                        if y[0] == "call" and re.search(r"core::num::<impl usize>::checked_sub$", y[1] or "") and len(y[2]) == 2 and \
                                strip_refs(y[2][0]) == cell_e and y[2][1][0] == "const":
                            # the None edge of cell.checked_sub(k): taken exactly when fewer than k are left -- read as `cell < k`
                            lab = ("bool", ("binop", "Lt", cell_e, y[2][1]), True)
                            checked_none = True
                    if not (lab[0] == "bool" and lab[1][0] == "binop" and lab[1][1] in ("Gt", "Ge", "Lt", "Le", "Eq", "Ne")):
                        continue
                    op, a, c = lab[1][1], lab[1][2], lab[1][3]
                    if c == cell_e and a[0] == "const":
                        a, c = c, a
                        op = {"Gt": "Lt", "Ge": "Le", "Lt": "Gt", "Le": "Ge"}.get(op, op)
                    if not (a == cell_e and c[0] == "const"):
                        continue
                    big = lab[2] if op in ("Gt", "Ge") else ((not lab[2]) if op in ("Lt", "Le") else None)
                    if op in ("Eq", "Ne"):
                        exhausted = lab[2] if op == "Eq" else (not lab[2])
                    else:
                        exhausted = big if up else (not big)
                    if not exhausted:
                        continue
                    exhausted_edges.setdefault(l if isinstance(l, int) else repr(l), set()).add((sb, tgt))
                    if any(cycle_avoiding(p, {sb}) for p in inside):
                        continue
                    # on exhaustion: out of the loop, self-wake, Pending -- on every feasible path crossing the edge
                    n_cross = 0
                    bad = None
                    try:
                        for kind_, path, know in (all_paths if all_paths is not None else sensitive_paths(d, fl, 2)):
                            for i in range(len(path) - 1):
                                if path[i] == sb and path[i + 1] == tgt:
                                    n_cross += 1
                                    rest = path[i + 1:]
                                    if head in rest:
                                        bad = "loops again"
                                    elif not any(x in wakes for x in rest):
                                        bad = "no TASK-WAKE"
                                    elif not (kind_ == "return" and any(x in pend for x in rest)):
                                        bad = "does not return Pending"
                                    break
                    except RuntimeError as ex:
                        bad = str(ex)
                    exit_ok = n_cross > 0 and bad is None
                    try:
                        init_v, bound = int(c_["inits"][0][1]), int(c[2])
                    except ValueError:
                        continue
                    k = abs(c_["steps"][0][1])
                    dist = (bound - init_v) if up else (init_v - bound)
                    # number of steps before the exhausted edge is taken: strict comparisons fire one step later
                    strict = (op in ("Gt", "Lt")) if op not in ("Eq", "Ne") else False
                    steps_before = dist // k + (1 if strict else 0) if dist >= 0 else 0
                    # a step before the poll (count += 1; test; poll) admits steps_before - 1 polls; after the poll, steps_before
                    pre = all(any(d.dominates(s_, p) for s_ in step_bbs) for p in inside)
                    room = steps_before - (1 if pre else 0)
                    if checked_none:
                        # test and step are one operation: every successful step is followed by (at most) one poll
                        room = (init_v // k) if k else 0
                    cand = {"l": l, "init": c_["inits"][0], "step": c_["steps"][0][1], "steps": sorted(step_bbs), "cmp": op, "bound": c[2],
                            "sb": sb, "tgt": tgt, "exit_ok": exit_ok, "exit_det": bad or "%d feasible crossings" % n_cross, "room": room}
                    if best is None or (cand["exit_ok"] and not best["exit_ok"]):
                        best = cand
    if best is not None:
        # every edge on which the same cell tests as exhausted (a cycle that found nothing to poll may be charged and tested too)
        best["all_edges"] = sorted(exhausted_edges.get(best["l"] if isinstance(best["l"], int) else repr(best["l"]), set()))
    return best


def range_budgets(ctx, d):
    """Loops driven by `for _ in LO..HI` with constant bounds: [(head, body, next_bb, exit_tgt, lo, hi)]."""
    fl = ctx.flow(d)
    out = []
    from lib_facts import place_str
    for head, body in d.loops().items():
        for bb, t, fn in d.calls():
            if bb not in body or fn is None or d.is_cleanup(bb):
                continue
            nm = fn_name(fn) or ""
            if not ("Range" in nm and nm.endswith("::next")):
                continue
            it = strip_refs(fl.operand_expr(t["args"][0]))
            while it[0] == "call" and (it[1] or "").endswith("into_iter"):
                it = strip_refs(it[2][0])
            if not (it[0] == "agg" and it[1].endswith("Range::Range") and it[2][0][0] == "const" and it[2][1][0] == "const"):
                continue
            dest = place_str(t["dest"])
            for sb in body:
                for tgt, labs in fl.edge_labels(sb).items():
                    for lab in labs:
                        if lab[0] == "variant" and place_str(lab[3]) == dest and lab[2] == "None" and tgt not in body:
                            out.append((head, body, bb, tgt, int(it[2][0][2]), int(it[2][1][2])))
    return out


def _cycle_avoiding(d, body, head, poll, avoid):
    """Is there a cycle head -> poll -> head inside the loop body that avoids the blocks in `avoid`?"""
    def reach(src, dst):
        seen = {src}
        work = [src]
        while work:
            x = work.pop()
            for s_ in d.normal_succ(x):
                if s_ == dst:
                    return True
                if s_ in body and s_ not in seen and s_ not in avoid:
                    seen.add(s_)
                    work.append(s_)
        return False
    if poll in avoid or head in avoid:
        return False
    return (head == poll or reach(head, poll)) and reach(poll, head)


def _inc_of_local(e, l):
    if e[0] == "proj" and e[2] == (".0",):
        e = e[1]
    if e[0] == "binop" and e[1] in ("Add", "AddWithOverflow", "AddUnchecked"):
        a, c = e[2], e[3]
        if a == ("multi", l) and c[0] == "const":
            try:
                return int(c[2])
            except ValueError:
                return None
    return None


from groups import cursor_events


def r13_2(ctx, R):
    ctx.rule("R13.2", "group-cursor fairness: after every inner poll of groups[cursor] with outcome Pending or Some the "
                      "cursor field is advanced (+k, k>=1) before the next inner poll or the return; outcome None removes the "
                      "group instead")
    fns = group_loop_fns(ctx)
    for b in fns:
        r = cursor_events(ctx, R, b)
        if r is None:
            ctx.ob("R13.2", b, "cursor-model", False, d_loc(b), "cannot identify groups[cursor] poll")
            continue
        cur_field, eps = r
        bad = {"Pending": [], "Some": []}
        seen = {"Pending": 0, "Some": 0, "None": 0}
        for path, ev in eps:
            for i, e in enumerate(ev):
                if e[0] != "P" or e[1] not in ("Pending", "Some", "None"):
                    continue
                seen[e[1]] += 1
                if e[1] == "None":
                    continue
                advanced = False
                for f in ev[i + 1:]:
                    if f[0] == "ADV" and f[1] == "inc":
                        advanced = True
                        break
                    if f[0] in ("P", "RET"):
                        break
                if not advanced:
                    bad[e[1]].append(path)
        for outcome in ("Pending", "Some"):
            ctx.ob("R13.2", b, "cursor-advanced-after-%s" % outcome, not bad[outcome] and seen[outcome] > 0, d_loc(b),
                   "cursor field %s; %d poll events with this outcome on feasible paths, %d not followed by an advance" % (
                       cur_field, seen[outcome], len(bad[outcome])), path=bad[outcome][0] if bad[outcome] else None)
    ctx.floor("R13.2", "group-loop-functions", len(fns), 2)


def r13_3(ctx, R):
    ctx.rule("R13.3", "a dequeued slot gets its turn: on every feasible path of a drain function, between a dequeue that handed out a "
                      "slot and the next dequeue / the return, that slot's child is polled or the slot is found vacant (the "
                      "Occupied-only accessor answered None); a dequeued slot that is put back into the ready queue (MARK) without "
                      "having been polled loses its place to everything queued behind it -- with self-waking siblings, for ever")
    import c14
    from lib_facts import place_str
    n = 0
    accp = {a.path for a in R.accessor_fns}
    for d in R.drain_fns:
        fl = ctx.flow(d)
        pops = R.pop_sites(d)
        polls = {pb for pb, _, _ in R.child_poll_sites(d)}
        accs = [(bb, t) for bb, t, fn in d.calls() if fn is not None and fn_name(fn) in accp and not d.is_cleanup(bb)]
        popbbs = {pb for pb, _, _ in pops}
        bad = None
        segs = 0
        try:
            paths = list(sensitive_paths(d, fl, 2))
        except RuntimeError:
            paths = []
        for kind_, pth, know in paths:
            for (pbb, pt, pfn) in pops:
                dest = place_str(pt["dest"])
                payload = set(c14._payload(ctx, pt["dest"]["ty"]))
                for i_, x_ in enumerate(pth):
                    if x_ != pbb:
                        continue
                    end = len(pth)
                    for j_ in range(i_ + 1, len(pth)):
                        if pth[j_] in popbbs:
                            end = j_
                            break
                    v_ = know[end - 1].get(dest) if end - 1 > i_ else None
                    if v_ not in payload:
                        continue
                    segs += 1
                    seg = pth[i_ + 1:end]
                    polled = any(y_ in polls for y_ in seg)
                    vacant = any(know[j_].get(place_str(at["dest"])) == "None" for ab, at in accs if ab in seg for j_ in range(i_ + 1, end))
                    if not vacant:
                        # ... or the None edge of a match / `?` / let-else on the accessor's result was taken
                        for j_ in range(i_ + 1, end - 1):
                            for lab in fl.edge_labels(pth[j_]).get(pth[j_ + 1], []):
                                if lab[0] in ("variant", "notvariants"):
                                    y_ = strip_refs(lab[1])
                                    src_ = [c for c in ([y_] if y_[0] == "call" else []) + expr_calls(y_) if (c[1] or "") in accp]
                                    if src_ and ((lab[0] == "variant" and lab[2] in ("None", "Break")) or (lab[0] == "notvariants" and "Some" in lab[2])):
                                        vacant = True
                    if not (polled or vacant) and bad is None:
                        bad = pth[:end]
        n += 1
        ctx.ob("R13.3", d, "dequeued-slot-is-polled-or-vacant", bad is None and segs > 0, d_loc(d),
               "%d dequeue-with-slot segments on feasible paths%s" % (segs, "" if bad is None else "; one neither polls the child nor finds the slot vacant"),
               path=bad)
    ctx.floor("R13.3", "drain-functions", n, 1)


def _cursor_only_moved_down(ctx, b, fl, val, cur_field):
    """The stored value is the old cursor, possibly decreased: `cursor - k` / `cursor.saturating_sub(k)`, or a local that starts as
    a copy of the cursor and is otherwise only decremented -- in this body or in a closure that borrows it mutably (the `retain`
    closure that counts the removed groups in front of the cursor).  Such a store keeps pointing at the same logical group; it
    can never restart the turn at group 0 while groups in front are still there."""
    def is_cursor(e, depth=0):
        e = strip_refs(e)
        if e[0] == "proj" and e[2] and e[2][-1] == cur_field:
            return True
        if e[0] == "multi" and depth < 3:
            ds = fl.defs.get(e[1], [])
            return bool(ds) and all(k == "assign" and is_cursor(fl.rvalue_expr(n["rv"], db), depth + 1) for (db, ix, k, n) in ds)
        return False

    def down(e):
        e = strip_refs(e)
        if e[0] == "proj" and e[2] == (".0",) and e[1][0] == "binop" and e[1][1].startswith("Sub"):
            return True
        if e[0] == "binop" and e[1].startswith("Sub"):
            return True
        return e[0] == "call" and re.search(r"<impl usize>::(saturating_sub|wrapping_sub|checked_sub)$", e[1] or "") is not None
    v = strip_refs(val)
    if is_cursor(v):
        return True
    if down(v):
        a0 = v[1][2] if v[0] == "proj" else (v[2] if v[0] == "binop" else v[2][0])
        return is_cursor(a0)
    if v[0] != "multi":
        return False
    l = v[1]
    seeded_ = False
    for (db, ix, k, n) in fl.defs.get(l, []):
        if k != "assign":
            return False
        e = fl.rvalue_expr(n["rv"], db)
        if is_cursor(e):
            seeded_ = True
        elif not (down(e) and ("multi", l) in (strip_refs(x) for x in ([e[1][2]] if e[0] == "proj" else [e[2]] if e[0] == "binop" else [e[2][0]]))):
            return False
    if not seeded_:
        return False
    # mutable borrows of the local captured by closures: those closures may only step it down
    refs = set()
    for bb in range(b.n):
        for s_ in b.stmts(bb):
            if s_["k"] == "assign" and s_["rv"]["k"] == "ref" and s_["rv"].get("mut") and s_["rv"]["place"]["l"] == l and not s_["rv"]["place"]["p"]:
                refs.add(s_["place"]["l"])
    for bb in range(b.n):
        for s_ in b.stmts(bb):
            if s_["k"] == "assign" and s_["rv"]["k"] == "aggregate" and s_["rv"].get("agg") == "closure":
                for k_, o in enumerate(s_["rv"]["ops"]):
                    if o["k"] in ("move", "copy") and not o["place"]["p"] and o["place"]["l"] in refs:
                        cb = ctx.facts.bodies.get(s_["rv"]["closure"])
                        if cb is None:
                            return False
                        cfl = ctx.flow(cb)
                        for (sbb, si, st) in cfl.stores:
                            if si == "term":
                                continue
                            pl = st["place"]
                            fs = [e_ for e_ in pl["p"] if e_["k"] == "field"]
                            if pl["l"] == 1 and fs and fs[0]["i"] == k_:
                                if not down(cfl.rvalue_expr(st["rv"], sbb)):
                                    return False
    return True


def r13_4(ctx, R):
    ctx.rule("R13.4", "who may reset the round-robin cursor: the group cursor of an unbounded collection is advanced by its poll_next "
                      "and initialised by its constructors. Any other function of the type that stores a CONSTANT into it (a `retain`, "
                      "a `shrink` ending in `cursor = 0`) restarts the turn between polls -- a consumer that calls it between polls "
                      "keeps serving the first groups and starves the later ones -- unless the store is poll_next's own wrap (behind "
                      "`cursor >= groups.len()`), or the function leaves at most one group behind (clear / truncate(<=1)), or the "
                      "groups of that collection were handed away whole (Vec::append / mem::take). Relative adjustments (+= groups "
                      "inserted in front, -= groups released in front) are not decided")
    from groups import cursor_events
    from c01 import group_loop_fns
    from lib_flow import self_field_stores
    n = 0
    for gl in group_loop_fns(ctx):
        ce = cursor_events(ctx, R, gl)
        m = re.match(r"^<([\w:]+)<", gl.path)
        if ce is None or not m:
            continue
        cur_field, ty = ce[0], m.group(1)
        n += 1
        for b in ctx.facts.fn_bodies():
            if b.path == gl.path or b.kind == "Closure":
                continue
            if not (b.path.startswith(ty + "::") or b.path.startswith("<" + ty + "<") or b.path.startswith("<" + ty + " ")):
                continue
            if re.match(re.escape(ty) + r"<", b.locals[0] or ""):
                continue          # returns the collection: a constructor
            fl = ctx.flow(b)
            sts = [(bb, i, val) for (bb, i, fld, val, root, pe) in self_field_stores(b, fl) if fld == cur_field]
            if not sts:
                continue
            shrinks = False
            for bb, t, fn in direct_sites(b, r"alloc::vec::Vec::<.*>::(clear|truncate)$"):
                if (fn_name(fn) or "").endswith("::clear"):
                    shrinks = True
                else:
                    a = fl.operand_expr(t["args"][1])
                    shrinks = shrinks or (a[0] == "const" and str(a[2]) in ("0", "1"))
            for bb, i, val in sts:
                # only a RESET is decided: a store of a constant restarts the turn. A relative adjustment (`cursor += moved` after
                # groups were inserted in front of it, `cursor -= released`) keeps designating a group of the same neighbourhood;
                # whether it is the right amount is not decided here (no alarm)
                v_ = strip_refs(val)
                if v_[0] != "const":
                    continue
                # the wrap `poll_next` itself performs: cursor := 0 behind `cursor >= len` (the cursor designates no group)
                wrapped = False
                for sb in range(b.n):
                    for tgt, labs in fl.edge_labels(sb).items():
                        for lab in labs:
                            if lab[0] == "bool" and lab[2] is True and lab[1][0] == "binop" and lab[1][1] in ("Ge", "Eq", "Gt") and b.dominates(tgt, bb) \
                                    and len(b.pred[tgt]) == 1:
                                l_, r_ = strip_refs(lab[1][2]), strip_refs(lab[1][3])
                                if l_[0] == "proj" and l_[2] and l_[2][-1] == cur_field and r_[0] == "call" and re.search(r"Vec::<.*>::len$", r_[1] or ""):
                                    wrapped = True
                # the collection whose cursor is written had its groups handed away whole (`Vec::append(&mut dst, &mut self.groups)`,
                # `mem::take`): nothing is left to take turns
                root = None
                pe_ = fl.place_expr(b.stmts(bb)[i]["place"]) if isinstance(i, int) else None
                emptied = False
                if pe_ is not None:
                    base = strip_refs(pe_[1]) if pe_[0] == "proj" else None
                    for abb, at, afn in direct_sites(b, r"alloc::vec::Vec::<.*>::append$|core::mem::take$"):
                        a_ = strip_refs(fl.operand_expr(at["args"][-1]))
                        if a_[0] == "proj" and strip_refs(a_[1]) == base and a_[2] and a_[2][-1].startswith("."):
                            emptied = True
                follows = wrapped or emptied or _cursor_only_moved_down(ctx, b, fl, val, cur_field)
                ctx.ob("R13.4", b, "cursor-written-outside-poll_next@%s" % _site_label(b, bb), shrinks or follows, b.loc(bb),
                       "%s := %s; the function leaves at most one group: %s; the new value is the old cursor moved down only (it follows "
                       "groups that were removed in front of it): %s" % (cur_field, expr_str(val)[:60], shrinks, follows))
    ctx.floor("R13.4", "unbounded-collections-with-a-cursor", n, 2)


def run(ctx):
    R = roles(ctx)
    R.pop_fn, R.drain_fn, R.remove_fn
    r13_1(ctx, R)
    r13_2(ctx, R)
    r13_3(ctx, R)
    r13_4(ctx, R)
    # service order inside one group is the FIFO order of the ready queue only if (a) a child is polled exclusively when
    # its own entry is dequeued and (b) a merged stream that yielded goes back to the TAIL of that queue
    import c01
    import c05
    c05.r5_1(ctx, R)
    ctx.rule("R5.1", "see C05 R5.1 (shared): every child poll goes through the accessor applied to the index dequeued in the same "
                     "iteration -- no child is polled out of queue order (e.g. a remembered 'hot' slot polled first)")
    c01.r1_2(ctx, R)
    ctx.rule("R1.2", "see C01 R1.2 (shared): a wake enqueues the slot before it notifies the task, under the flag -- a woken child "
                     "that is in no queue is never polled")
    c02.r2_6(ctx, R)
    ctx.rule("R2.6", "see C02 R2.6 (shared): new children enter through `push` only (last group / fresh group), once")
    c01.r1_7(ctx, R)
    ctx.rule("R1.7", "see C01 R1.7 (shared): a pass over the groups polls every group -- the turn order survives the removal of an "
                     "exhausted group, the cursor is moved off a group that was put back, Pending only after all groups had their turn")
    c01.r1_6(ctx, R)
    ctx.rule("R1.6", "see C01 R1.6 (shared): a merged stream that yielded Some is re-queued (MARK of the same index, i.e. at the tail) "
                     "before the next drain or return")
