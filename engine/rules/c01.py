"""C01 -- No lost wake-ups: ordering skeleton of the wake / poll handshake (DESIGN §4 C01)."""
import re

from framework import AnchorLost
from lib_facts import callee_matches, fn_name
from lib_flow import strip_refs, expr_calls, expr_str, variant_facts, blocks_with, region_entries, first_entries
from roles import (roles, direct_sites, sites, callee_body, RE_ENQUEUE, RE_NOTIFY, RE_DW_REGISTER, RE_CTX_WAKER,
                   RE_WAKE, RE_FROM_WAKER, RE_LOCK, RE_FUTURE_POLL, RE_STREAM_POLL_NEXT, reaches)

EXPLANATION = (
    "Static decision of the wake/poll ordering skeleton on the MIR of /repo: R1.1 register(cx.waker()) dominates every "
    "ready-queue dequeue in the drain function; R1.2 in every waker-vtable wake path the per-slot flag is set, then the "
    "slot is enqueued, then the task is notified (dominator + must-pass-through); R1.3 the flag is written false only in "
    "the dequeue function, after a successful dequeue, and every child poll is dominated by a successful dequeue of the "
    "same iteration; R1.4 every Pending return of the drain function that is not behind 'queue observed empty' passes "
    "through a wake of the caller's task waker; R1.5 every accepted insertion marks the new slot ready; R1.6 merge "
    "re-arms the slot that yielded; R1.7 the unbounded variants return Pending only after polling every group with the "
    "caller's context; R1.8 every poll body forwards only the caller's context or one built from a dequeued slot waker. "
    "Decides the ordering shape on all CFG paths; does NOT decide sufficiency under weak-memory interleavings or the "
    "internals of cordyceps/diatomic-waker/spin.")
WITNESSES = "thorough"  # E3 compile_fail witnesses (tier in which they run)
ASSUMPTIONS = [
    "dev-profile MIR at mir-opt-level=0 represents the source (thorough: also without debug assertions, with --cfg miri)",
    "cordyceps::MpscQueue, diatomic_waker::DiatomicWaker and spin::SpinMutex behave as documented",
    "children and upstreams obey the Future/Stream contracts",
]


def _is_ctx_waker_of_param(fl, operand, ctx_params):
    e = strip_refs(fl.operand_expr(operand))
    if e[0] == "call" and re.search(RE_CTX_WAKER, e[1]):
        src = strip_refs(e[2][0])
        return src[0] == "param" and src[1] in ctx_params
    return False


def r1_1(ctx, R):
    ctx.rule("R1.1", "register-dominates-drain: in DRAIN a registration of Context::waker(cx) (cx = the function's own "
                     "parameter) dominates every POP call")
    n = 0
    for d in R.drain_fns:
        fl = ctx.flow(d)
        cps = R.ctx_params(d)
        regs = sites(ctx.facts, d, RE_DW_REGISTER)
        good = []
        for bb, t, fn, direct in regs:
            wak = t["args"][-1]
            if _is_ctx_waker_of_param(fl, wak, cps):
                # when indirect, the callee must forward its waker parameter to DiatomicWaker::register
                ok_fwd = True
                if not direct:
                    cb = callee_body(ctx.facts, fn)
                    cfl = ctx.flow(cb)
                    ok_fwd = False
                    for b2, t2, f2 in direct_sites(cb, RE_DW_REGISTER):
                        w = strip_refs(cfl.operand_expr(t2["args"][-1]))
                        if w[0] == "param":
                            ok_fwd = True
                if ok_fwd:
                    good.append(bb)
        pops = R.pop_sites(d)
        for pbb, pt, pfn in pops:
            n += 1
            ok = any(d.dominates(g, pbb) for g in good)
            ctx.ob("R1.1", d, "pop@%s" % _site_label(d, pbb), ok, d.loc(pbb),
                   "register sites with caller waker: %s" % [d.loc(g) for g in good])
    ctx.floor("R1.1", "pop-sites-in-drain", n, 1)


def _site_label(body, bb):
    """Stable label of a site: ordinal of the block among same-callee call sites (no line numbers)."""
    t = body.term(bb)
    if t["k"] != "call":
        return "bb"
    f = t["func"]
    nm = fn_name(f.get("fn")) if f["k"] == "const" else "indirect"
    same = [b for b in range(body.n) if body.term(b)["k"] == "call" and not body.is_cleanup(b)
            and ((fn_name(body.term(b)["func"].get("fn")) if body.term(b)["func"]["k"] == "const" else "indirect") == nm)]
    return "%s#%d" % ((nm or "?").split("::")[-1], same.index(bb) if bb in same else 0)


def _flag_false_edge_blocks(ctx, R, body):
    """Blocks entered on an edge whose condition says: the flag value observed under the lock was false."""
    fl = ctx.flow(body)
    out = set()
    for bb in range(body.n):
        for tgt, labels in fl.edge_labels(bb).items():
            for lab in labels:
                if lab[0] != "bool":
                    continue
                e, val = lab[1], lab[2]
                neg = False
                while e[0] == "unop" and e[1] == "Not":
                    e = e[2]
                    neg = not neg
                want_false = (val is False) if not neg else (val is True)
                if not want_false:
                    continue
                # e must be a value read from the locked flag: mem::replace(guard, ..) or *guard
                calls = expr_calls(e)
                if any(re.search(RE_LOCK, c[1] or "") for c in calls):
                    out.add(tgt)
    return out


def _flag_false_label(lab):
    """edge label saying: the flag value observed under the lock was false"""
    if lab[0] != "bool":
        return False
    e, val = lab[1], lab[2]
    neg = False
    while e[0] == "unop" and e[1] == "Not":
        e = e[2]
        neg = not neg
    want_false = (val is False) if not neg else (val is True)
    return want_false and any(re.search(RE_LOCK, c[1] or "") for c in expr_calls(e))


def _write_true_blocks(ctx, R, body):
    return {bb for bb, v in _flag_writes(ctx, R, body) if v == "1"}


def enq_guarded(ctx, R, body, bb):
    """(flag observed false before, true written before) for the enqueue at bb: by dominance, or -- when the test sits in
    a helper whose Option/bool result is matched again (inlined) -- on every flag/variant-feasible path arriving at bb."""
    from lib_flow import all_arrivals_cross, all_arrivals_visit
    fl = ctx.flow(body)
    dom_false = any(body.dominates(x, bb) for x in _flag_false_edge_blocks(ctx, R, body))
    if not dom_false:
        try:
            dom_false = all_arrivals_cross(body, fl, bb, _flag_false_label)[0]
        except RuntimeError:
            dom_false = False
    wr = _writes_true_before(ctx, R, body, bb)
    if not wr:
        wt = _write_true_blocks(ctx, R, body)
        try:
            from lib_flow import sensitive_paths
            arrivals = 0
            ok = True
            for kind, path, know in sensitive_paths(body, fl, 2):
                for i, x in enumerate(path):
                    if x == bb:
                        arrivals += 1
                        if not any(y in wt for y in path[:i]):
                            ok = False
            wr = ok and arrivals > 0
        except RuntimeError:
            wr = False
    return dom_false, wr


def _writes_true_before(ctx, R, body, bb):
    """Some dominating block performs mem::replace(<locked flag>, true) or a store of true through the guard."""
    fl = ctx.flow(body)
    for b2, t, fn in direct_sites(body, r"core::mem::replace$"):
        if not body.dominates(b2, bb):
            continue
        dst = fl.operand_expr(t["args"][0])
        val = fl.operand_expr(t["args"][1])
        if any(re.search(RE_LOCK, c[1] or "") for c in expr_calls(dst)) and val[0] == "const" and val[2] == "1":
            return True
    for b2 in range(body.n):
        if body.is_cleanup(b2) or not body.dominates(b2, bb):
            continue
        for s in body.stmts(b2):
            if s["k"] == "assign" and s["place"]["p"] and s["place"]["ty"] == "bool":
                dst = fl.place_expr(s["place"])
                if any(re.search(RE_LOCK, c[1] or "") for c in expr_calls(dst)):
                    v = fl.rvalue_expr(s["rv"], b2)
                    if v[0] == "const" and v[2] == "1":
                        return True
    return False


def r1_2(ctx, R):
    ctx.rule("R1.2", "wake path = flag -> enqueue -> notify: in every function reachable from the vtable wake entries "
                     "that enqueues, ENQ is dominated by 'flag was false' + a write of true, and notify is "
                     "must-pass-through between ENQ and every normal return")
    vt = R.vt
    n = 0
    for role in ("wake", "wake_by_ref"):
        entry = vt[role]
        ok_reach = reaches(ctx.facts, entry, RE_ENQUEUE, 3) and reaches(ctx.facts, entry, RE_NOTIFY, 3)
        ctx.ob("R1.2", entry, "vt[%s] reaches enqueue+notify" % role, ok_reach, d_loc(entry))
    # functions on the wake path that enqueue
    wake_path = _closure(ctx, [vt["wake"], vt["wake_by_ref"]])
    for b in wake_path:
        enqs = direct_sites(b, RE_ENQUEUE)
        if not enqs:
            continue
        falseb = _flag_false_edge_blocks(ctx, R, b)
        nots = [bb for bb, t, fn in direct_sites(b, RE_NOTIFY)]
        for bb, t, fn in enqs:
            n += 1
            dom_false, wr = enq_guarded(ctx, R, b, bb)
            ctx.ob("R1.2", b, "enq-guarded-by-flag@%s" % _site_label(b, bb), dom_false and wr, b.loc(bb),
                   "flag-false edge dominates=%s, true written before=%s" % (dom_false, wr))
            after = any(b.dominates(bb, x) for x in nots)
            mp = b.must_pass(bb, b.returns(), [x for x in nots if b.dominates(bb, x)]) if after else False
            # must_pass treats bb itself specially: start from its successors
            if after:
                mp = all(b.must_pass(s, b.returns(), [x for x in nots if b.dominates(bb, x)]) for s in b.normal_succ(bb))
            ctx.ob("R1.2", b, "notify-after-enq@%s" % _site_label(b, bb), after and mp, b.loc(bb),
                   "notify sites dominated by ENQ: %s" % [b.loc(x) for x in nots if b.dominates(bb, x)])
            # the three effects lie inside the guard's live region: the guard drop is after notify
            ctx.ob("R1.2", b, "notify-not-before-enq@%s" % _site_label(b, bb),
                   not any(b.dominates(x, bb) for x in nots), b.loc(bb))
    ctx.floor("R1.2", "enqueue-sites-on-wake-path", n, 1)
    # the owner-side marking primitive links the same intrusive node: linking a node that is already queued cuts the
    # entries behind it out of the queue (their wake-ups are lost) or ties the node to itself
    wp = {b.path for b in wake_path}
    for b in ctx.facts.fn_bodies():
        if b.path in wp:
            continue
        for bb, t, fn in direct_sites(b, RE_ENQUEUE):
            f_, w_ = enq_guarded(ctx, R, b, bb)
            ctx.ob("R1.2", b, "enq-guarded-by-flag@%s" % _site_label(b, bb), f_ and w_, b.loc(bb),
                   "owner-side enqueue: flag-false edge before=%s, true written before=%s" % (f_, w_))


def d_loc(body):
    from lib_facts import span_str
    return span_str(body.j["span"])


def _closure(ctx, entries, depth=3):
    seen = {}
    work = [(e, 0) for e in entries]
    while work:
        b, d = work.pop()
        if b.path in seen:
            continue
        seen[b.path] = b
        if d >= depth:
            continue
        for bb, t, fn in b.calls():
            cb = callee_body(ctx.facts, fn)
            if cb is not None:
                work.append((cb, d + 1))
    return list(seen.values())


def _flag_writes(ctx, R, body):
    """[(bb, value '0'/'1'/'?')] writes to the locked flag in this body."""
    fl = ctx.flow(body)
    out = []
    for b2, t, fn in direct_sites(body, r"core::mem::replace$"):
        dst = fl.operand_expr(t["args"][0])
        if any(re.search(RE_LOCK, c[1] or "") for c in expr_calls(dst)):
            val = fl.operand_expr(t["args"][1])
            out.append((b2, val[2] if val[0] == "const" else "?"))
    for b2 in range(body.n):
        if body.is_cleanup(b2):
            continue
        for s in body.stmts(b2):
            if s["k"] == "assign" and s["place"]["p"] and s["place"]["ty"] == "bool":
                dst = fl.place_expr(s["place"])
                if any(re.search(RE_LOCK, c[1] or "") for c in expr_calls(dst)):
                    v = fl.rvalue_expr(s["rv"], b2)
                    out.append((b2, v[2] if v[0] == "const" else "?"))
    return out


def r1_3(ctx, R, parts=("who", "clear", "behind")):
    """parts: 'who' = who may lock/clear + clear only after a successful dequeue (never while the node is queued);
    'clear' = the dequeued slot's flag IS cleared before poll / next dequeue / return (liveness);
    'behind' = child polls only behind a successful dequeue."""
    ctx.rule("R1.3", "flag cleared between dequeue and child poll: the flag is written false only in POP (after a "
                     "successful dequeue) or in a helper called only by DRAIN; on every path from a successful dequeue the "
                     "flag of the dequeued slot is cleared before the child poll, before the next dequeue and before "
                     "returning (so a wake during or after the poll re-queues the slot, and a skipped vacant slot does not "
                     "stay marked 'queued'); functions that lock the flag are {POP, MARK, wake path, such helpers}; every "
                     "CHILD-POLL in DRAIN is dominated by a POP 'ready' arm of the same loop iteration")
    from lib_facts import place_str
    pop = R.pop_fn
    drains = R.drain_fns
    drain_paths = {d.path for d in drains}
    lockers = [b for b in ctx.facts.fn_bodies() if R.flag_lock_sites(b)]
    # clear helpers: functions (other than POP / enqueuers) whose flag writes are all `false` and whose callers are all DRAIN
    helpers = []
    for b in lockers:
        if b.path == pop.path or b in R.enq_fns:
            continue
        ws = _flag_writes(ctx, R, b)
        callers = [c.path for c, _ in R.callers_of(b)]
        if ws and all(v == "0" for _, v in ws) and callers and all(c in drain_paths for c in callers):
            helpers.append(b)
    # ... or DRAIN itself (such a helper read through): its clears must sit behind a dequeue that handed out a slot
    drain_clearers = [b for b in lockers if b.path in drain_paths and b.path != pop.path and b not in R.enq_fns and
                      _flag_writes(ctx, R, b) and all(v == "0" for _, v in _flag_writes(ctx, R, b))]
    allowed = {pop.path} | {b.path for b in R.enq_fns} | {h.path for h in helpers} | {b.path for b in drain_clearers}
    for b in lockers:
        ctx.ob("R1.3", b, "who-may-lock-flag", b.path in allowed, d_loc(b), "allowed roles: POP, MARK, wake path, clear helper of DRAIN")
        for bb, v in _flag_writes(ctx, R, b):
            if v != "1":
                ok = v == "0" and (b.path == pop.path or b in helpers)
                if v == "0" and b in drain_clearers:
                    from lib_flow import arrival_knowledge
                    bfl = ctx.flow(b)
                    ok = False
                    for pbb, pt, pfn in R.pop_sites(b):
                        dest = place_str(pt["dest"])
                        rv_ = _payload_variants(ctx, pt["dest"]["ty"])
                        ak = arrival_knowledge(b, bfl, bb)
                        if ak and all(k_.get(dest) in rv_ for k_ in ak):
                            ok = True
                ctx.ob("R1.3", b, "writes-%s" % ("false" if v == "0" else "nonconst"), ok, b.loc(bb), "only POP / DRAIN's clear helper may clear the flag")
    ctx.floor("R1.3", "flag-lockers", len(lockers), 2)
    # does POP itself clear on its successful-dequeue path?
    fl = ctx.flow(pop)
    vf = variant_facts(pop, fl)
    deq = direct_sites(pop, r"cordyceps::MpscQueue::<.*>::try_dequeue")
    clears = [bb for bb, v in _flag_writes(ctx, R, pop) if v == "0"]
    pop_clears = False
    for dbb, dt, dfn in deq:
        dest = place_str(dt["dest"])
        okb = blocks_with(vf, [(dest, "Ok")])
        for c in clears:
            ctx.ob("R1.3", pop, "clear-after-successful-dequeue", c in okb and pop.dominates(dbb, c), pop.loc(c),
                   "clear block has fact %s=Ok: %s" % (dest, c in okb))
        # every 'ready' value returned by POP is preceded by the clear
        ready_returns = []
        for rb in range(pop.n):
            if pop.is_cleanup(rb):
                continue
            for s_ in pop.stmts(rb):
                if s_["k"] == "assign" and s_["place"]["l"] == 0 and not s_["place"]["p"] and s_["rv"]["k"] == "aggregate" and s_["rv"].get("ops"):
                    ready_returns.append(rb)
                    ctx.ob("R1.3", pop, "ready-variant-only-after-successful-dequeue", rb in okb, pop.loc(rb))
        pop_clears = bool(clears) and bool(ready_returns) and all(any(pop.dominates(c, rb) for c in clears) for rb in ready_returns)
    n = 0
    for d in drains:
        dfl = ctx.flow(d)
        dvf = variant_facts(d, dfl)
        pops = R.pop_sites(d)
        polls = R.child_poll_sites(d)
        for cbb, ct, cfn in polls:
            n += 1
            if "behind" not in parts:
                continue
            ok = False
            for pbb, pt, pfn in pops:
                dest = place_str(pt["dest"])
                ready_variants = _payload_variants(ctx, pt["dest"]["ty"])
                if any((dest, v) in dvf.get(cbb, frozenset()) for v in ready_variants) and d.dominates(pbb, cbb):
                    ok = True
                if not ok:
                    # the dequeue sits in an inlined helper whose verdict (an enum) is matched after a join: per feasible
                    # arrival the dequeue was visited since the previous child poll and its result is known to carry a slot
                    from lib_flow import sensitive_paths
                    arrivals = 0
                    good = True
                    for kind_, pth, know in sensitive_paths(d, dfl, 2):
                        last_c = -1
                        for i_, x_ in enumerate(pth):
                            if x_ != cbb:
                                continue
                            arrivals += 1
                            seg = pth[last_c + 1:i_]
                            if pbb not in seg or know[i_].get(dest) not in ready_variants:
                                good = False
                            last_c = i_
                    if arrivals and good:
                        ok = True
            ctx.ob("R1.3", d, "child-poll-behind-pop-ready@%s" % _site_label(d, cbb), ok, d.loc(cbb))
        # clear obligation per dequeue site
        for pbb, pt, pfn in (pops if "clear" in parts else []):
            dest = place_str(pt["dest"])
            ready_variants = _payload_variants(ctx, pt["dest"]["ty"])
            if pop_clears:
                ctx.ob("R1.3", d, "dequeued-slot-flag-cleared@%s" % _site_label(d, pbb), True, d.loc(pbb), "cleared inside POP before it returns the slot")
                continue
            region = set()
            for v in ready_variants:
                region |= blocks_with(dvf, [(dest, v)])
            from lib_flow import must_pass_flags
            ents = first_entries(d, dfl, pbb, region)
            clear_sites = []
            for h in helpers:
                for hbb, ht, hfn in R.calls_to_body(d, h):
                    idx = dfl.operand_expr(ht["args"][-1])
                    if idx[0] == "proj" and idx[1][0] == "call" and idx[1][3] == pbb:
                        clear_sites.append(hbb)
            # a clear helper that was read through (inlined): the drain locks the flag of the slot at the popped index itself
            if d in drain_clearers:
                locks_ = R.flag_lock_sites(d)
                of_popped = bool(locks_) and all(any(c[3] == pbb for c in expr_calls(dfl.operand_expr(lt_["args"][0]))) for _, lt_, _ in locks_)
                if of_popped:
                    clear_sites += [wb for wb, v_ in _flag_writes(ctx, R, d) if v_ == "0"]
            stops = d.returns() + [x[0] for x in polls] + [pbb]
            ok = bool(ents) and bool(clear_sites) and all(must_pass_flags(d, dfl, e, stops, clear_sites) for e in ents)
            ctx.ob("R1.3", d, "dequeued-slot-flag-cleared@%s" % _site_label(d, pbb), ok, d.loc(pbb),
                   "POP does not clear; clear-helper calls on the dequeued index: %s; must precede child poll / next dequeue / return on every path" % [d.loc(c) for c in clear_sites])
        if "who" in parts:
            # a clear helper may only be applied to an index that was just dequeued (never to a node still in the queue)
            for h in helpers:
                for hbb, ht, hfn in R.calls_to_body(d, h):
                    idx = dfl.operand_expr(ht["args"][-1])
                    from_pop = idx[0] == "proj" and idx[1][0] == "call" and idx[1][1] in {p.path for p in R.pop_fns}
                    ctx.ob("R1.3", d, "clear-helper-only-on-dequeued-index@%s" % _site_label(d, hbb), from_pop, d.loc(hbb), expr_str(idx))
    ctx.floor("R1.3", "child-poll-sites", n, 1)


def _payload_variants(ctx, ty_key):
    """Variant names of a crate enum type that carry a payload."""
    t = ctx.facts.types.get(ty_key)
    if not t or t["k"] != "adt":
        return []
    adt = ctx.facts.adts.get(t["name"])
    if not adt:
        if t["name"] == "core::option::Option":
            return ["Some"]
        return []
    return [v["name"] for v in adt["variants"] if v["fields"]]


def pending_assign_blocks(body):
    """Blocks that assign Poll::Pending to the return place."""
    out = []
    # the return place, and the locals whose value is handed to it whole (`let poll = helper(..); ..; poll`)
    ret = {0}
    grew = True
    while grew:
        grew = False
        for bb in range(body.n):
            if body.is_cleanup(bb):
                continue
            for s in body.stmts(bb):
                if s["k"] == "assign" and s["place"]["l"] in ret and not s["place"]["p"] and s["rv"]["k"] == "use" \
                        and s["rv"]["op"]["k"] in ("move", "copy") and not s["rv"]["op"]["place"]["p"] and s["rv"]["op"]["place"]["l"] not in ret \
                        and s["rv"]["op"]["place"]["l"] > body.arg_count:
                    ret.add(s["rv"]["op"]["place"]["l"])
                    grew = True
    for bb in range(body.n):
        if body.is_cleanup(bb):
            continue
        for s in body.stmts(bb):
            if s["k"] == "assign" and s["place"]["l"] in ret and not s["place"]["p"] and s["rv"]["k"] == "aggregate" \
                    and s["rv"].get("adt") == "core::task::Poll" and s["rv"].get("variant") == "Pending":
                out.append(bb)
    return out


def r1_4(ctx, R):
    ctx.rule("R1.4", "early Pending => task self-wake: every 'return Pending' of DRAIN is either behind the POP "
                     "'queue empty' arm of the latest POP, or is dominated by a TASK-WAKE with no POP between the wake "
                     "and the return")
    n = 0
    for d in R.drain_fns:
        fl = ctx.flow(d)
        vf = variant_facts(d, fl)
        pops = R.pop_sites(d)
        wakes = [bb for bb, t, fn in R.task_wake_sites(d)]
        from lib_facts import place_str
        for pb in pending_assign_blocks(d):
            n += 1
            empty_ok = False
            for pbb, pt, pfn in pops:
                dest = place_str(pt["dest"])
                empties = _empty_variants(ctx, R, pt["dest"]["ty"])
                if any((dest, v) in vf.get(pb, frozenset()) for v in empties):
                    empty_ok = True
            wake_ok = False
            for w in wakes:
                if d.dominates(w, pb):
                    between = d.reachable(w) & _can_reach(d, pb)
                    if not any(pbb in between for pbb, _, _ in pops):
                        wake_ok = True
            if not (empty_ok or wake_ok):
                # a join with infeasible arms may lie between the wake and the return (helper returning an enum that is
                # matched again): decide per flag/variant-feasible path
                from lib_flow import sensitive_paths
                pop_bbs = {pbb for pbb, _, _ in pops}
                arrivals = 0
                allok = True
                try:
                    for kind_, path, know in sensitive_paths(d, fl, 2):
                        for i, bb_ in enumerate(path):
                            if bb_ != pb:
                                continue
                            arrivals += 1
                            lastpop = max([j for j in range(i) if path[j] in pop_bbs] or [-1])
                            woke = any(path[j] in wakes for j in range(lastpop + 1, i))
                            empt = False
                            for pbb, pt, pfn in pops:
                                dest = place_str(pt["dest"])
                                if know[i].get(dest) in _empty_variants(ctx, R, pt["dest"]["ty"]):
                                    empt = True
                            if not (woke or empt):
                                allok = False
                except RuntimeError:
                    allok = False
                if arrivals and allok:
                    wake_ok = True
            kind = "empty-arm" if empty_ok else ("self-wake" if wake_ok else "NONE")
            ctx.ob("R1.4", d, "pending-return#%d" % pending_assign_blocks(d).index(pb), empty_ok or wake_ok, d.loc(pb),
                   "justification: %s" % kind)
    ctx.floor("R1.4", "pending-returns-in-drain", n, 2)
    return n


def _empty_variants(ctx, R, ty_key):
    """Variants of POP's result enum that mean 'queue observed empty': the one POP returns on the
    dequeue error variant named Empty."""
    pop = R.pop_fn
    fl = ctx.flow(pop)
    vf = variant_facts(pop, fl)
    out = []
    for bb in range(pop.n):
        if pop.is_cleanup(bb):
            continue
        for s in pop.stmts(bb):
            if s["k"] == "assign" and s["place"]["l"] == 0 and not s["place"]["p"] and s["rv"]["k"] == "aggregate" \
                    and not s["rv"].get("ops"):
                if any(v == "Empty" for (_, v) in vf.get(bb, frozenset())):
                    out.append(s["rv"]["variant"])
    return out


def _can_reach(body, target):
    pred = body.pred
    seen = {target}
    st = [target]
    while st:
        x = st.pop()
        for p in pred[x]:
            if p not in seen:
                seen.add(p)
                st.append(p)
    return seen


def r1_5(ctx, R):
    ctx.rule("R1.5", "push marks ready: every caller of the slot-map INSERT calls MARK with the returned key on every "
                     "path that does not take the refusal (Err/Break) edge; FromIterator marks every index of 0..cap "
                     "where cap is the capacity given to the waker-list constructor")
    ins = R.insert_fn
    mark = R.mark_fn
    n = 0
    from lib_facts import place_str
    for b, ss in R.callers_of(ins):
        fl = ctx.flow(b)
        vf = variant_facts(b, fl)
        marks = R.calls_to_body(b, mark)
        for ibb, it, ifn in ss:
            n += 1
            # mark calls whose index argument derives from this insert's result
            good = []
            for mbb, mt, mfn in marks:
                idx = fl.operand_expr(mt["args"][-1])
                if any(c[3] == ibb for c in expr_calls(idx)):
                    good.append(mbb)
            # refusal blocks: facts say Err/Break on something derived from the insert result
            refusal = {bb for bb, f in vf.items() if any(v in ("Err", "Break") for (_, v) in f)}
            rets = [r for r in b.returns()]
            ok = bool(good) and all(
                _must_pass_from_succ(b, ibb, rets, good, avoid=refusal))
            if good and not ok:
                # the marking may sit in a loop over a one-element range (`mark_ready(&shared, k..k + 1)`): decide on the
                # feasible paths, a one-element range being exactly one iteration
                from lib_flow import sensitive_paths, one_element_range_feasible
                ok = True
                nseg = 0
                for kind_, pth, know in sensitive_paths(b, fl, 3):
                    if kind_ != "return" or ibb not in pth or not one_element_range_feasible(b, fl, pth):
                        continue
                    i_ = pth.index(ibb)
                    seg = pth[i_ + 1:]
                    if any(x_ in refusal for x_ in seg):
                        continue
                    nseg += 1
                    if not any(x_ in good for x_ in seg):
                        ok = False
                ok = ok and nseg > 0
            ctx.ob("R1.5", b, "mark-after-insert@%s" % _site_label(b, ibb), ok, b.loc(ibb),
                   "MARK sites fed by this insert: %s" % [b.loc(g) for g in good])
    ctx.floor("R1.5", "insert-callers", n, 1)
    # FromIterator
    m = 0
    wl_new = _wakerlist_ctor(ctx, R)
    for b in ctx.facts.fn_bodies():
        fi = [x for x in b.calls() if x[2] is not None and fn_name(x[2]) and "FromIterator" in fn_name(x[2])
              and callee_body(ctx.facts, x[2]) is not None
              and callee_body(ctx.facts, x[2]).path.startswith("<" + R.slot_enum[1])]
        if not fi:
            continue
        m += 1
        fl = ctx.flow(b)
        ctor = R.calls_to_body(b, wl_new) if wl_new else []
        marks = R.calls_to_body(b, mark)
        ok = False
        det = ""
        for mbb, mt, mfn in marks:
            if R.is_mark_all(callee_body(ctx.facts, mfn)) and ctor:
                # the list's own MARK-ALL primitive, applied to the list built here: every index below the length the
                # constructor recorded (C03 R3.4: header.len is written once, from the constructor's capacity)
                recv = strip_refs(fl.operand_expr(mt["args"][0]))
                if any(recv == strip_refs(fl.place_expr(ct["dest"])) or any(c[3] == cbb for c in [recv] + expr_calls(recv) if c[0] == "call")
                       for cbb, ct, cfn in ctor):
                    ok = True
                    det = "MARK-ALL on the waker list built here (0..header.len)"
                continue
            idx = strip_refs(fl.operand_expr(mt["args"][-1]))
            # idx must be the Some payload of Range::next over a range 0..cap
            calls = expr_calls(idx)
            rng = None
            for c in calls:
                if c[1] and "Range" in c[1] and c[1].endswith("::next"):
                    it = strip_refs(c[2][0])
                    while it[0] == "call" and it[1] and it[1].endswith("into_iter"):
                        it = strip_refs(it[2][0])
                    if it[0] == "agg" and it[1].endswith("Range::Range"):
                        rng = it
            if rng is None:
                continue
            lo, hi = rng[2][0], rng[2][1]
            in_loop = any(mbb in body for body in b.loops().values())
            for cbb, ct, cfn in ctor:
                cap = fl.operand_expr(ct["args"][0])
                if lo[0] == "const" and lo[2] == "0" and hi == cap and in_loop:
                    ok = True
                    det = "MARK(i) for i in 0..%s, same expr as waker-list capacity" % expr_str(cap)
        ctx.ob("R1.5", b, "from_iter-marks-all", ok, d_loc(b), det)
    ctx.floor("R1.5", "from_iter-constructors", m, 1)
    # every other way of building a bounded collection starts from an EMPTY slot map (nothing to mark): a constructor that
    # adopts an existing / copied slot map (Clone, From, ...) leaves its occupied slots without a queue entry
    sm = R.slot_enum[1]
    from lib_inter import returned_exprs
    for b in ctx.facts.fn_bodies():
        for rb, e in returned_exprs(ctx, b):
            if not (e[0] == "agg" and len(e) > 3 and len(e[2]) >= 2):
                continue
            adt = ctx.facts.adts.get(e[1].rsplit("::", 1)[0])
            if not adt or adt["kind"] != "struct":
                continue
            fields = {f["name"]: f["ty"] for f in adt["variants"][0]["fields"]}
            smf = [k for k, v in fields.items() if v.startswith(sm + "<")]
            wlf = [k for k, v in fields.items() if wl_new is not None and v == wl_new.locals[0]]
            if not (smf and wlf):
                continue
            ops = __import__('lib_inter').flat_ops(ctx, e)
            t_ = ops.get(smf[0])
            empty = t_ is not None and t_[0] == "call" and (t_[1] or "").startswith(sm + "::") and (t_[1] or "").endswith("::new")
            from_it = t_ is not None and t_[0] == "call" and "FromIterator" in (t_[1] or "") and (t_[1] or "").startswith("<" + sm)
            ctx.ob("R1.5", b, "collection-built-from-empty-or-collected-slot-map", empty or from_it, b.loc(rb),
                   "slot map operand: %s" % (expr_str(t_) if t_ else None))


def _wakerlist_ctor(ctx, R):
    """The crate function that allocates the waker list (calls alloc::alloc::alloc)."""
    c = [b for b in ctx.facts.fn_bodies() if direct_sites(b, r"^alloc::alloc::alloc$")]
    return c[0] if len(c) == 1 else None


def _must_pass_from_succ(body, bb, dsts, via, avoid=()):
    return [body.must_pass(s, dsts, via, avoid) for s in body.normal_succ(bb)]


def r1_6(ctx, R):
    ctx.rule("R1.6", "merge re-arm: in every caller of DRAIN whose poll function is Stream::poll_next, on the path "
                     "where the drained result is (i, Some(_)) a MARK(i) with the same i is must-pass-through before "
                     "the next DRAIN call or return")
    mark = R.mark_fn
    n = 0
    from lib_facts import place_str
    for d in R.drain_fns:
        for b, ss in R.callers_of(d):
            fl = ctx.flow(b)
            vf = variant_facts(b, fl)
            for dbb, dt, dfn in ss:
                pf = strip_refs(fl.operand_expr(dt["args"][-1]))
                while pf[0] == "cast":
                    pf = pf[2]
                if not (pf[0] == "fn" and re.search(RE_STREAM_POLL_NEXT, pf[1] or "")):
                    continue
                n += 1
                dest = place_str(dt["dest"])
                some_item = blocks_with(vf, [(dest, "Ready"), ("(%s as Ready).0" % dest, "Some"),
                                             ("(((%s as Ready).0 as Some).0.1 as Some)" % dest, "Some")])
                # place_str of the inner option: (((_4 as Ready).0 as Some).0.1 -> discriminant place string
                inner = "((%s as Ready).0 as Some).0.1" % dest
                some_item = blocks_with(vf, [(dest, "Ready"), ("(%s as Ready).0" % dest, "Some"), (inner, "Some")])
                ents = first_entries(b, fl, dbb, some_item)
                idx_expr_want = ("proj", ("call", fn_name(dfn),) , ())
                marks = []
                for mbb, mt, mfn in R.calls_to_body(b, mark):
                    idx = fl.operand_expr(mt["args"][-1])
                    # index must be <drain result>@Ready.0@Some.0.0
                    if idx[0] == "proj" and idx[1][0] == "call" and idx[1][3] == dbb and \
                            idx[2] == ("@Ready", ".0", "@Some", ".0", ".0"):
                        marks.append(mbb)
                stops = b.returns() + [dbb]
                ok = bool(ents) and bool(marks) and all(b.must_pass(e, stops, marks) for e in ents)
                ctx.ob("R1.6", b, "rearm-same-slot@%s" % _site_label(b, dbb), ok, b.loc(dbb),
                       "region entries %s, MARK(i) sites %s" % (sorted(ents), [b.loc(m) for m in marks]))
    ctx.floor("R1.6", "merge-drain-callers", n, 1)


def group_loop_fns(ctx):
    """Unbounded variants: poll_next/poll bodies that index a Vec field of groups and poll the element."""
    out = []
    for b in ctx.facts.fn_bodies():
        if not re.search(r"as futures_core::(Stream>::poll_next|Future>::poll)$", b.path):
            continue
        idx = direct_sites(b, r"core::ops::IndexMut::index_mut$|<alloc::vec::Vec<.*> as core::ops::IndexMut")
        if idx and any(callee_body(ctx.facts, fn) is not None and re.search(RE_STREAM_POLL_NEXT, fn["def"])
                       for _, _, fn in b.calls() if fn):
            out.append(b)
    return out


def _turn_counter_exhausted(ctx, b, fl, pb, ibb):
    """Hand-written form of `for _ in 0..groups.len()`: a local initialised (before the loop) to Vec::len of the groups,
    stepped by -1 (or a second local stepped +1 and compared with that length) on every cycle through the inner poll, and
    the Pending return reachable only across the edge on which the counter is exhausted."""
    from lib_flow import all_arrivals_via_edge
    loops = [(h, body) for h, body in b.loops().items() if ibb in body]
    if not loops:
        return False, ""
    head, body = max(loops, key=lambda x: len(x[1]))
    for l, defs in fl.defs.items():
        inits, steps, other = [], [], []
        for (bb, idx, kind, node) in defs:
            if kind == "call" and bb not in body and b.dominates(bb, head):
                e = fl.call_expr(node, bb)
                inits.append((bb, e))
                continue
            if kind != "assign":
                other.append(bb)
                continue
            e = fl.rvalue_expr(node["rv"], bb)
            x = e[1] if (e[0] == "proj" and e[2] == (".0",)) else e
            if x[0] == "binop" and x[1].startswith(("Sub", "Add")) and x[2] == ("multi", l) and x[3][0] == "const" and x[3][2] == "1" and bb in body:
                steps.append((bb, -1 if x[1].startswith("Sub") else 1))
            elif bb not in body and b.dominates(bb, head):
                inits.append((bb, e))
            else:
                other.append(bb)
        if len(inits) != 1 or not steps or other or {k for _, k in steps} != {-1}:
            continue
        ie = inits[0][1]
        if not (ie[0] == "call" and (ie[1] or "").endswith("::len") and "Vec" in (ie[1] or "")):
            continue
        step_bbs = {bb for bb, _ in steps}
        # every cycle through the inner poll passes the decrement
        def reach(src, dst, avoid):
            seen, work = {src}, [src]
            while work:
                x_ = work.pop()
                for y_ in b.normal_succ(x_):
                    if y_ == dst:
                        return True
                    if y_ in body and y_ not in seen and y_ not in avoid:
                        seen.add(y_)
                        work.append(y_)
            return False
        if ibb not in step_bbs and (head == ibb or reach(head, ibb, step_bbs)) and reach(ibb, head, step_bbs):
            continue
        for sb in body:
            for tgt, labs in fl.edge_labels(sb).items():
                for lab in labs:
                    if lab[0] != "bool" or lab[1][0] != "binop":
                        continue
                    op, a_, c_ = lab[1][1], lab[1][2], lab[1][3]
                    if not (a_ == ("multi", l) and c_[0] == "const" and c_[2] == "0"):
                        continue
                    exhausted = (op == "Gt" and lab[2] is False) or (op == "Eq" and lab[2] is True) or (op == "Ne" and lab[2] is False) or \
                        (op == "Le" and lab[2] is True)
                    if not exhausted:
                        continue
                    try:
                        if all_arrivals_via_edge(b, fl, pb, [(sb, tgt)]):
                            return True, "Pending behind exhaustion of a turn counter initialised to %s and decremented on every cycle" % expr_str(ie)
                    except RuntimeError:
                        pass
    return False, ""


def _full_pass_range(b, itx):
    """The loop iterator gives exactly one turn per group: `0..groups.len()` or `0..=groups.len() - 1` (the length read once,
    before the loop; the subtraction written as checked_sub(..)? / `- 1` behind an emptiness test)."""
    itx = strip_refs(itx)
    while itx[0] == "call" and (itx[1] or "").endswith("into_iter") and itx[2]:
        itx = strip_refs(itx[2][0])

    def is_len(x):
        x = strip_refs(x)
        return x[0] == "call" and (x[1] or "").endswith("::len") and "Vec" in x[1] and not any(x[3] in body for body in b.loops().values())
    if itx[0] == "agg" and itx[1].endswith("Range::Range"):
        lo, hi = itx[2]
        return lo[0] == "const" and lo[2] == "0" and is_len(hi)
    if itx[0] == "call" and re.search(r"RangeInclusive::<.*>::new$", itx[1] or "") and len(itx[2]) == 2:
        lo, hi = itx[2]
        hi = strip_refs(hi)
        if not (lo[0] == "const" and lo[2] == "0"):
            return False
        if hi[0] == "proj" and hi[2] == ("@Some", ".0"):
            hi = strip_refs(hi[1])
        if hi[0] == "proj" and hi[2] == (".0",) and hi[1][0] == "binop":
            hi = hi[1]
        if hi[0] == "call" and re.search(r"<impl usize>::(checked_sub|wrapping_sub|saturating_sub)$", hi[1] or "") and len(hi[2]) == 2:
            return is_len(hi[2][0]) and hi[2][1][0] == "const" and hi[2][1][2] == "1"
        if hi[0] == "binop" and hi[1].startswith("Sub"):
            return is_len(hi[2]) and hi[3][0] == "const" and hi[3][2] == "1"
    return False


def r1_7(ctx, R):
    ctx.rule("R1.7", "unbounded variants poll every group before Pending: (a) every Pending return is behind "
                     "exhaustion (None) of a Range iterator whose end is Vec::len(groups) read before the loop; (b) "
                     "each iteration polls groups[cursor] with the caller's cx; (c) the inner-Pending arm advances "
                     "the cursor by 1 and the loop head wraps it")
    fns = group_loop_fns(ctx)
    from lib_facts import place_str
    for b in fns:
        fl = ctx.flow(b)
        vf = variant_facts(b, fl)
        cps = R.ctx_params(b)
        # the inner poll site
        inner = [(bb, t, fn) for bb, t, fn in b.calls() if fn and not b.is_cleanup(bb)
                 and re.search(RE_STREAM_POLL_NEXT, fn["def"]) and callee_body(ctx.facts, fn) is not None]
        ok_one = len(inner) == 1
        ctx.ob("R1.7", b, "one-inner-poll-per-iteration", ok_one, d_loc(b), "inner poll sites: %d" % len(inner))
        if not inner:
            continue
        ibb, it, ifn = inner[0]
        # (b) receiver = groups[cursor], cx = own param
        recv = strip_refs(fl.operand_expr(it["args"][0]))
        cxe = strip_refs(fl.operand_expr(it["args"][1]))
        cur_field = None
        okb = False
        if recv[0] == "call" and "index_mut" in (recv[1] or ""):
            vec = strip_refs(recv[2][0])
            cur = recv[2][1]
            if vec[0] == "proj" and cur[0] == "proj" and cur[2][-1].startswith("."):
                cur_field = cur[2][-1]
                okb = cxe[0] == "param" and cxe[1] in cps
        ctx.ob("R1.7", b, "polls-groups[cursor]-with-own-cx", okb, b.loc(ibb),
               "receiver=%s cx=%s" % (expr_str(recv), expr_str(cxe)))
        # (a) Pending only behind range exhaustion
        nexts = [(bb, t, fn) for bb, t, fn in b.calls() if fn and not b.is_cleanup(bb)
                 and "Range" in (fn_name(fn) or "") and (fn_name(fn) or "").endswith("::next")]
        pend = pending_assign_blocks(b)
        for pb in pend:
            ok = False
            det = ""
            for nbb, nt, nfn in nexts:
                dest = place_str(nt["dest"])
                if (dest, "None") in vf.get(pb, frozenset()):
                    itx = strip_refs(fl.operand_expr(nt["args"][0]))
                    if _full_pass_range(b, itx):
                        ok = True
                        det = "Pending behind exhaustion of one turn per group: %s" % expr_str(itx)[:120]
            if not ok:
                ok, det = _turn_counter_exhausted(ctx, b, fl, pb, ibb)
            if not ok:
                # per arrival (the Pending may be handed on through a join, e.g. `ready!(inlined helper)`): every feasible path
                # into this block has crossed the None edge of a `0..groups.len()` range iterator (len read before the loop)
                from lib_flow import all_arrivals_cross

                def _range_exhausted(lab):
                    if lab[0] != "variant" or lab[2] != "None":
                        return False
                    x = strip_refs(lab[1])
                    if not (x[0] == "call" and "Range" in (x[1] or "") and (x[1] or "").endswith("::next")):
                        return False
                    return _full_pass_range(b, x[2][0])
                ok2, n2, badp = all_arrivals_cross(b, fl, pb, _range_exhausted)
                if ok2:
                    ok, det = True, "every one of %d feasible arrivals has crossed the exhaustion of 0..groups.len()" % n2
            ctx.ob("R1.7", b, "pending-only-after-all-groups#%d" % pend.index(pb), ok, b.loc(pb), det)
        ctx.floor("R1.7", "pending-returns:" + b.path, len(pend), 1)
        # (c) pending arm advances the cursor; loop head wraps
        dest = place_str(it["dest"])
        parm = blocks_with(vf, [(dest, "Pending")])
        adv = False
        for bb in parm:
            for s in b.stmts(bb):
                if s["k"] == "assign" and s["place"]["p"]:
                    pe = fl.place_expr(s["place"])
                    if pe[0] == "proj" and pe[2][-1] == cur_field:
                        v = fl.rvalue_expr(s["rv"], bb)
                        lv = fl.leaves(v)
                        if ("field", cur_field) in lv and any(x[0] == "const" and x[2] == "1" for x in lv):
                            adv = True
        ctx.ob("R1.7", b, "pending-arm-advances-cursor", adv, b.loc(ibb))
        wrap = False
        for bb in range(b.n):
            if b.is_cleanup(bb) or not b.dominates(bb, ibb):
                continue
            for s in b.stmts(bb):
                if s["k"] == "assign" and s["place"]["p"]:
                    pe = fl.place_expr(s["place"])
                    if pe[0] == "proj" and pe[2][-1] == cur_field:
                        v = fl.rvalue_expr(s["rv"], bb)
                        if v[0] == "const" and v[2] == "0":
                            wrap = True
        # wrap store sits on a branch before the inner poll: look for a Ge(cursor, len) guarded store of 0
        if not wrap:
            for bb in range(b.n):
                if b.is_cleanup(bb):
                    continue
                for s in b.stmts(bb):
                    if s["k"] == "assign" and s["place"]["p"]:
                        pe = fl.place_expr(s["place"])
                        if pe[0] == "proj" and pe[2][-1] == cur_field:
                            v = fl.rvalue_expr(s["rv"], bb)
                            if v[0] == "const" and v[2] == "0" and ibb in b.reachable(bb):
                                # guarded by cursor >= len ?
                                for sb in range(b.n):
                                    for tgt, labs in fl.edge_labels(sb).items():
                                        if tgt == bb:
                                            for lab in labs:
                                                if lab[0] == "bool" and lab[2] is True and lab[1][0] == "binop" \
                                                        and lab[1][1] in ("Ge", "Eq", "Gt"):
                                                    wrap = True
        ctx.ob("R1.7", b, "loop-head-wraps-cursor", wrap, b.loc(ibb))
    ctx.floor("R1.7", "group-loop-functions", len(fns), 2)
    # the turn order of the groups not yet visited in this call must survive the removal of an exhausted group
    for b in fns:
        for bb, t, fn in direct_sites(b, r"alloc::vec::Vec::<.*>::(swap_remove|remove|pop|drain|retain|truncate)$"):
            nm = (fn_name(fn) or "").split("::")[-1]
            ctx.ob("R1.7", b, "exhausted-group-removed-order-preserving@%s" % _site_label(b, bb), nm == "remove", b.loc(bb),
                   "Vec::%s%s" % (nm, "" if nm == "remove" else ": moves another group into the vacated position, so a group polled earlier in "
                                  "this call is polled again and one is skipped"))
    # (d) every iteration makes progress, so that `len` iterations really visit every group
    from groups import cursor_events
    for b in fns:
        r = cursor_events(ctx, R, b)
        if r is None:
            ctx.ob("R1.7", b, "iteration-progress-model", False, d_loc(b), "cannot identify groups[cursor] poll")
            continue
        cur_field, eps = r
        bad = {"Pending": [], "None": []}
        seen = {"Pending": 0, "None": 0}
        for path, ev in eps:
            for i, e in enumerate(ev):
                if e[0] != "P" or e[1] not in ("Pending", "None"):
                    continue
                seen[e[1]] += 1
                progressed = False
                for f in ev[i + 1:]:
                    if f[0] == "ADV":
                        progressed = True
                    elif f[0] == "REM" and e[1] == "None":
                        progressed = True     # the following groups shift down: the cursor now names the next one
                    elif f[0] == "BACK":
                        progressed = False    # the exhausted group is back (at the end): the cursor must still be moved off it
                    elif f[0] == "RET":
                        progressed = progressed or (e[1] == "None" and f[1] == "None")
                        break
                    elif f[0] == "P":
                        break
                if not progressed and e[1] == "None":
                    # the order of the events alone does not say where the cursor ends up (`cursor = 0` BEFORE the exhausted
                    # last group is appended again moves it off that group just as well): walk the path over every small
                    # (number of groups, cursor) start state -- the poll that follows, or the state the call returns in, must
                    # not have the cursor on the exhausted group again
                    from groups import group_walk
                    gw = group_walk(ctx, b, ctx.flow(b), path, cur_field)
                    if gw is not None:
                        progressed = True
                        for w in gw:
                            ps = w["polls"]
                            k_ = [k for k, (j_, g_) in enumerate(ps) if j_ == e[2]]
                            if not k_:
                                progressed = False
                                break
                            g_ = ps[k_[0]][1]
                            if k_[0] + 1 < len(ps):
                                if ps[k_[0] + 1][1] == g_:
                                    progressed = False
                                    break
                            else:
                                lst_, c_, _ = w["end"]
                                if f_ret_pending(ev) and g_ in lst_ and len(lst_) > 1 and lst_[c_ if c_ < len(lst_) else 0] == g_:
                                    progressed = False
                                    break
                if not progressed:
                    bad[e[1]].append(path)
        # the exhausted group is put back only when nothing else is left or when it was the LAST group (cursor == len after
        # the removal, compared as they are): re-appending any other group re-orders the turn and the pass runs out of
        # iterations before every group was polled
        fl_ = ctx.flow(b)
        labs_c = {}
        n_back = 0
        bad_back = None
        for path, ev in eps:
            for i, e in enumerate(ev):
                if e[0] != "BACK":
                    continue
                n_back += 1
                rem_i = max([f[2] for f in ev[:i] if f[0] == "REM"] or [0])
                okb = False
                for j in range(rem_i, e[2]):
                    if path[j] not in labs_c:
                        labs_c[path[j]] = fl_.edge_labels(path[j])
                    for lab in labs_c[path[j]].get(path[j + 1], []):
                        if lab[0] != "bool" or lab[2] is not True:
                            continue
                        x = lab[1]
                        if x[0] == "call" and re.search(r"Vec::<.*>::is_empty$", x[1] or ""):
                            okb = True
                        if x[0] == "binop" and x[1] == "Eq":
                            for l_, r_ in ((x[2], x[3]), (x[3], x[2])):
                                if l_[0] == "proj" and l_[2] and l_[2][-1] == cur_field and r_[0] == "call" and re.search(r"Vec::<.*>::len$", r_[1] or ""):
                                    okb = True
                if not okb:
                    bad_back = path
        det_back = "%d put-back events on feasible paths" % n_back
        ok_back = bad_back is None and n_back > 0
        if n_back == 0:
            # the other way of keeping the tail: the exhausted group is removed only when it is not the last one
            from groups import removal_never_of_last
            inner_ = [bb for bb, t, fn in b.calls() if fn and not b.is_cleanup(bb)
                      and re.search(RE_STREAM_POLL_NEXT, fn["def"]) and callee_body(ctx.facts, fn) is not None]
            rems = [bb for bb, t, fn in direct_sites(b, r"alloc::vec::Vec::<.*>::remove$")]
            if len(inner_) == 1 and rems:
                res = [removal_never_of_last(ctx, b, fl_, inner_[0], rb, cur_field) for rb in rems]
                ok_back = all(r_[0] for r_ in res)
                det_back = "no put-back; " + "; ".join(r_[1] for r_ in res)
        ctx.ob("R1.7", b, "exhausted-group-put-back-only-if-last-or-only", ok_back, d_loc(b), det_back, path=bad_back)
        for outcome in ("Pending", "None"):
            ctx.ob("R1.7", b, "iteration-after-%s-moves-on" % outcome, not bad[outcome] and seen[outcome] > 0, d_loc(b),
                   "after an inner %s the cursor is advanced/reset%s before the next inner poll; %d events, %d without progress" % (
                       outcome, ", or the exhausted group removed (and, if it is put back, the cursor moved off it), or Ready(None) returned" if outcome == "None" else "", seen[outcome], len(bad[outcome])),
                   path=bad[outcome][0] if bad[outcome] else None)


def f_ret_pending(ev):
    return bool(ev) and ev[-1][0] == "RET" and ev[-1][1] == "Pending"


def poll_bodies(ctx):
    return [b for b in ctx.facts.fn_bodies()
            if re.search(r"as futures_core::(Stream>::poll_next|Future>::poll)$", b.path)
            or re.search(r"::poll_inner(_no_remove)?$", b.path)]


def r1_8(ctx, R):
    ctx.rule("R1.8", "context provenance: in every poll body of the crate every callee taking &mut Context receives "
                     "the function's own cx parameter (reborrowed) or a Context built by Context::from_waker from the "
                     "waker delivered by POP; Waker::from_raw / Context::from_waker / noop wakers occur nowhere else")
    pbs = set(b.path for b in poll_bodies(ctx)) | {d.path for d in R.drain_fns}
    n = 0
    for b in ctx.facts.fn_bodies():
        cps = R.ctx_params(b)
        if not cps and b.path not in pbs:
            continue
        fl = ctx.flow(b)
        for bb in range(b.n):
            if b.is_cleanup(bb):
                continue
            t = b.term(bb)
            if t["k"] != "call":
                continue
            for ai, a in enumerate(t["args"]):
                if a["k"] == "const":
                    continue
                ty = a["place"]["ty"]
                if not ty.startswith("&mut core::task::Context<"):
                    continue
                n += 1
                e = strip_refs(fl.operand_expr(a))
                ok = False
                det = expr_str(e)
                if e[0] == "param" and e[1] in cps:
                    ok = True
                elif e[0] == "call" and re.search(RE_FROM_WAKER, e[1] or ""):
                    w = strip_refs(e[2][0])
                    # waker must come out of a POP result
                    pops = {p.path for p in R.pop_fns}
                    if any(c[1] in pops for c in expr_calls(w)):
                        ok = True
                ctx.ob("R1.8", b, "ctx-arg@%s" % _site_label(b, bb), ok, b.loc(bb), det)
    ctx.floor("R1.8", "context-forwarding-sites", n, 14)
    # who may build contexts / wakers
    fw = [(b, bb) for b in ctx.facts.fn_bodies() for bb, t, fn in direct_sites(b, RE_FROM_WAKER)]
    fr = [(b, bb) for b in ctx.facts.fn_bodies() for bb, t, fn in direct_sites(b, r"core::task::Waker::from_raw$")]
    nw = [(b, bb) for b in ctx.facts.fn_bodies() for bb, t, fn in direct_sites(b, r"core::task::Waker::noop$|core::task::wake::Waker::noop$")]
    drains = {d.path for d in R.drain_fns}
    for b, bb in fw:
        ctx.ob("R1.8", b, "from_waker-site", b.path in drains, b.loc(bb), "Context::from_waker only in DRAIN")
    for b, bb in fr:
        # must be in the function that builds the vtable waker (uses RawWaker::new with the VT static)
        ok = bool(direct_sites(b, r"core::task::RawWaker::new$"))
        ctx.ob("R1.8", b, "from_raw-site", ok, b.loc(bb))
    for b, bb in nw:
        ctx.ob("R1.8", b, "noop-waker", False, b.loc(bb), "no-op waker in library code")
    ctx.floor("R1.8", "from_waker-sites", len(fw), 1)
    ctx.floor("R1.8", "from_raw-sites", len(fr), 1)


def run(ctx):
    R = roles(ctx)
    # anchors (fail closed)
    R.pop_fn, R.mark_fn, R.vt, R.drain_fn
    r1_1(ctx, R)
    r1_2(ctx, R)
    r1_3(ctx, R)
    r1_4(ctx, R)
    r1_5(ctx, R)
    r1_6(ctx, R)
    r1_7(ctx, R)
    r1_8(ctx, R)
    import c03
    c03.index_identity(ctx, R)
