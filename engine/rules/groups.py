"""Path events of the group loops of the unbounded collections (shared by C01 R1.7 and C13 R13.2)."""
import re

from lib_facts import place_str, fn_name
from lib_flow import strip_refs, sensitive_paths, is_inc_of, PathEval, expr_calls
from roles import direct_sites, callee_body, RE_STREAM_POLL_NEXT


def cursor_events(ctx, R, b):
    """Per feasible path: list of events ("P", outcome) inner poll, ("ADV",) cursor advanced/wrapped, ("REM",) group
    removed, ("BACK",) the removed group pushed back into the vector, ("RET", kind)."""
    fl = ctx.flow(b)
    inner = [(bb, t) for bb, t, fn in b.calls() if fn and not b.is_cleanup(bb)
             and re.search(RE_STREAM_POLL_NEXT, fn["def"]) and callee_body(ctx.facts, fn) is not None]
    if len(inner) != 1:
        return None
    ibb, it = inner[0]
    recv = strip_refs(fl.operand_expr(it["args"][0]))
    cur_field = None
    if recv[0] == "call" and "index_mut" in (recv[1] or ""):
        cur = recv[2][1]
        if cur[0] == "proj" and cur[2][-1].startswith("."):
            cur_field = cur[2][-1]
    if cur_field is None:
        return None
    adv_blocks = {}
    for (bb, i, s) in fl.stores:
        if i == "term" or b.is_cleanup(bb):
            continue
        pe = fl.place_expr(s["place"])
        if pe[0] == "proj" and pe[2][-1] == cur_field:
            v = fl.rvalue_expr(s["rv"], bb)
            k = is_inc_of(v, cur_field)
            if (k is not None and k >= 1) or (v[0] == "const" and v[2] == "0"):
                adv_blocks[bb] = "inc" if k else "wrap"
    rem_sites = direct_sites(b, r"alloc::vec::Vec::<.*>::(remove|swap_remove)$")
    rem_blocks = {bb for bb, t, fn in rem_sites}
    # the removed (exhausted) group put back into the vector
    back_blocks = set()
    for bb, t, fn in direct_sites(b, r"alloc::vec::Vec::<.*>::(push|insert)$"):
        v = fl.operand_expr(t["args"][-1])
        if v[0] == "call" and v[3] in rem_blocks:
            back_blocks.add(bb)
    dest = place_str(it["dest"])
    out = []
    from adapters import classify_poll
    from lib_flow import path_const_feasible
    for kind, path, know in sensitive_paths(b, fl, 3):
        if kind != "return":
            continue
        if not path_const_feasible(b, path):
            continue          # contradicts a variant / constant it carries itself (the verdict of an inlined helper re-matched)
        ev = []
        n = len(path)
        for i, bb in enumerate(path):
            if bb == ibb:
                e = n
                for j in range(i + 1, n):
                    if path[j] == ibb:
                        e = j
                        break
                ev.append(("P", classify_poll(dest, know[e - 1]) if e - 1 > i else None, i))
            if bb in adv_blocks and i > 0:
                # the wrap store at the loop head (before the poll of this iteration) is not an advance after a poll
                ev.append(("ADV", adv_blocks[bb], i))
            if bb in rem_blocks:
                ev.append(("REM", None, i))
            if bb in back_blocks:
                ev.append(("BACK", None, i))
        # kind of the value returned on this path (evaluated along the path: a value that reaches the return through a join,
        # e.g. `Poll::Ready(item)` with `item` the verdict of an inlined helper, is what it is on THIS path)
        rk = None
        r = PathEval(b, path).local_expr(0)
        if r[0] == "agg" and r[1].endswith("Poll::Pending"):
            rk = "Pending"
        elif r[0] == "agg" and r[1].endswith("Poll::Ready") and r[2]:
            x = r[2][0]
            if x[0] == "agg" and x[1].endswith("Option::None"):
                rk = "None"
            elif x[0] == "agg" and x[1].endswith("Option::Some"):
                rk = "Some"
            else:
                # the inner poll's own Option handed on: what that poll answered (the last P event of the path)
                lastp = [e for e in ev if e[0] == "P"]
                if lastp and any(c[3] == ibb for c in expr_calls(x)) and lastp[-1][1] in ("Some", "None"):
                    rk = lastp[-1][1]
                else:
                    rk = "Some"
        else:
            lastp = [e for e in ev if e[0] == "P"]
            if r[0] in ("call", "proj") and lastp and any(c[3] == ibb for c in expr_calls(r)):
                rk = lastp[-1][1] if lastp[-1][1] in ("Some", "None", "Pending") else None     # the inner poll's result forwarded whole
        ev.append(("RET", rk, n))
        out.append((path, ev))
    return cur_field, out




class _NoVal(Exception):
    pass


def _eval_nc(e, n, c, cur_field, len_at=None):
    """Value of an expression over the number of groups n (Vec::len of the groups vector) and the cursor c."""
    if len_at is not None:
        return _eval_nc_at(e, n, c, cur_field, len_at)
    e = strip_refs(e)
    if e[0] == "proj" and e[2] == (".0",) and e[1][0] == "binop" and e[1][1].endswith("WithOverflow"):
        e = ("binop", e[1][1].replace("WithOverflow", ""), e[1][2], e[1][3])
    if e[0] == "const":
        try:
            v = int(e[2])
        except (TypeError, ValueError):
            raise _NoVal()
        return bool(v) if e[1] == "bool" else v
    if e[0] == "proj" and e[2] and e[2][-1] == cur_field:
        return c
    if e[0] == "call" and re.search(r"alloc::vec::Vec::<.*>::len$|core::slice::<impl \[T\]>::len$", e[1] or ""):
        return n
    if e[0] == "call" and re.search(r"alloc::vec::Vec::<.*>::is_empty$|core::slice::<impl \[T\]>::is_empty$", e[1] or ""):
        return n == 0
    if e[0] == "binop":
        a, b_ = _eval_nc(e[2], n, c, cur_field), _eval_nc(e[3], n, c, cur_field)
        op = e[1].replace("Unchecked", "")
        if op == "Sub":
            if a < b_:
                raise _NoVal()
            return a - b_
        if op == "Add":
            return a + b_
        if op in ("Eq", "Ne", "Lt", "Le", "Gt", "Ge"):
            return {"Eq": a == b_, "Ne": a != b_, "Lt": a < b_, "Le": a <= b_, "Gt": a > b_, "Ge": a >= b_}[op]
        if op == "BitAnd" and isinstance(a, bool):
            return a and b_
        if op == "BitOr" and isinstance(a, bool):
            return a or b_
    if e[0] == "unop" and e[1] == "Not":
        v = _eval_nc(e[2], n, c, cur_field)
        if isinstance(v, bool):
            return not v
    if e[0] == "call" and len(e[2]) == 2:
        m = re.search(r"core::num::<impl usize>::(wrapping_sub|saturating_sub|checked_sub|wrapping_add|saturating_add)$", e[1] or "")
        if m:
            a, b_ = _eval_nc(e[2][0], n, c, cur_field), _eval_nc(e[2][1], n, c, cur_field)
            if m.group(1).endswith("add"):
                return a + b_
            if m.group(1) == "saturating_sub":
                return max(0, a - b_)
            if a < b_:
                raise _NoVal()
            return a - b_
    raise _NoVal()


def _eval_nc_at(e, n, c, cur_field, len_at):
    """_eval_nc where a `len()` call has the value the vector had when the path passed that call."""
    e = strip_refs(e)
    if e[0] == "call" and re.search(r"alloc::vec::Vec::<.*>::len$|core::slice::<impl \[T\]>::len$", e[1] or "") and e[3] in len_at:
        return len_at[e[3]]
    if e[0] == "call" and re.search(r"alloc::vec::Vec::<.*>::is_empty$|core::slice::<impl \[T\]>::is_empty$", e[1] or "") and e[3] in len_at:
        return len_at[e[3]] == 0
    if e[0] == "proj" and e[2] == (".0",) and e[1][0] == "binop" and e[1][1].endswith("WithOverflow"):
        e = ("binop", e[1][1].replace("WithOverflow", ""), e[1][2], e[1][3])
    if e[0] == "binop":
        a, b_ = _eval_nc_at(e[2], n, c, cur_field, len_at), _eval_nc_at(e[3], n, c, cur_field, len_at)
        return _eval_nc(("binop", e[1], ("const", "usize" if not isinstance(a, bool) else "bool", str(int(a))),
                         ("const", "usize" if not isinstance(b_, bool) else "bool", str(int(b_)))), n, c, cur_field)
    if e[0] == "unop" and e[1] == "Not":
        v = _eval_nc_at(e[2], n, c, cur_field, len_at)
        if isinstance(v, bool):
            return not v
        raise _NoVal()
    if e[0] == "call" and len(e[2]) == 2 and re.search(r"core::num::<impl usize>::", e[1] or ""):
        a, b_ = _eval_nc_at(e[2][0], n, c, cur_field, len_at), _eval_nc_at(e[2][1], n, c, cur_field, len_at)
        return _eval_nc(("call", e[1], (("const", "usize", str(int(a))), ("const", "usize", str(int(b_)))), e[3]), n, c, cur_field)
    return _eval_nc(e, n, c, cur_field)


def group_walk(ctx, b, fl, path, cur_field, grid=4):
    """Concrete walks of ONE path of a group-loop function over every small start state (n groups, cursor c, 1 <= n <= grid,
    0 <= c <= n): the vector of groups is a list of identities, `remove(cursor)` / put-back / push of a fresh group / cursor
    stores (+k, := 0) act on it, every evaluable edge condition of the path is checked against the state at that edge (a
    `len()` has the value the vector had where the path passed the call).  Returns None when the path does something to the
    cursor the model cannot follow, else a list with one entry per start state the path is feasible for:
    {"start": (n, c), "polls": [(path index, group id)], "end": (list, c, removed-and-put-back ids)}.  An empty list: the
    path contradicts itself for every start (infeasible)."""
    inner = [bb for bb, t, fn in b.calls() if fn and not b.is_cleanup(bb)
             and re.search(RE_STREAM_POLL_NEXT, fn["def"]) and callee_body(ctx.facts, fn) is not None]
    if len(inner) != 1:
        return None
    ibb = inner[0]
    stores = {}
    for (bb, i, s) in fl.stores:
        if i == "term" or b.is_cleanup(bb):
            continue
        pe = fl.place_expr(s["place"])
        if pe[0] == "proj" and pe[2][-1] == cur_field:
            v = fl.rvalue_expr(s["rv"], bb)
            k = is_inc_of(v, cur_field)
            if k is not None:
                stores.setdefault(bb, []).append(("inc", k))
            elif v[0] == "const" and str(v[2]).isdigit():
                stores.setdefault(bb, []).append(("set", int(v[2])))
            else:
                stores.setdefault(bb, []).append(("?", None))
    rem_blocks = {bb for bb, t, fn in direct_sites(b, r"alloc::vec::Vec::<.*>::remove$")}
    other_rem = {bb for bb, t, fn in direct_sites(b, r"alloc::vec::Vec::<.*>::(swap_remove|pop|truncate|clear|drain|retain|insert)$")}
    back_blocks, fresh_blocks = set(), set()
    for bb, t, fn in direct_sites(b, r"alloc::vec::Vec::<.*>::push$"):
        v = fl.operand_expr(t["args"][-1])
        recv = strip_refs(fl.operand_expr(t["args"][0]))
        if v[0] == "call" and v[3] in rem_blocks:
            back_blocks.add(bb)
        else:
            fresh_blocks.add(bb)
    len_blocks = {bb for bb, t, fn in direct_sites(b, r"alloc::vec::Vec::<.*>::(len|is_empty)$|core::slice::<impl \[T\]>::(len|is_empty)$")}
    if any(bb in other_rem for bb in path):
        return None
    if any(k_ == "?" for bb in path for (k_, _) in stores.get(bb, [])):
        return None
    labs = {}
    out = []
    for n0 in range(1, grid + 1):
        for c0 in range(0, n0 + 1):
            lst = list(range(n0))
            c = c0
            nxt = n0
            removed = None
            put_back = []
            polls = []
            len_at = {}
            ok = True
            for j, bb in enumerate(path):
                for (k_, v_) in stores.get(bb, []):
                    c = c + v_ if k_ == "inc" else v_
                    if c < 0:
                        ok = False
                if not ok:
                    break
                if bb in len_blocks:
                    len_at[bb] = len(lst)
                if bb == ibb:
                    if c >= len(lst):
                        ok = False          # groups[cursor] out of bounds: the real run panics here
                        break
                    polls.append((j, lst[c]))
                if bb in rem_blocks:
                    if c >= len(lst):
                        ok = False
                        break
                    removed = lst.pop(c)
                if bb in back_blocks:
                    if removed is None:
                        ok = False
                        break
                    lst.append(removed)
                    put_back.append(removed)
                if bb in fresh_blocks:
                    lst.append(nxt)
                    nxt += 1
                if j + 1 < len(path):
                    if bb not in labs:
                        labs[bb] = fl.edge_labels(bb)
                    t = b.term(bb)
                    for lab in labs[bb].get(path[j + 1], []):
                        try:
                            if lab[0] == "bool":
                                if bool(_eval_nc(lab[1], len(lst), c, cur_field, len_at)) is not lab[2]:
                                    ok = False
                            elif lab[0] == "int":
                                v = int(_eval_nc(lab[1], len(lst), c, cur_field, len_at))
                                if lab[2] is None:
                                    listed = [int(x) for x, _ in t.get("targets", []) if str(x).lstrip("-").isdigit()]
                                    if v in listed:
                                        ok = False
                                elif v != int(lab[2]):
                                    ok = False
                        except (_NoVal, TypeError, ValueError):
                            pass
                    if not ok:
                        break
            if ok:
                out.append({"start": (n0, c0), "polls": polls, "end": (lst, c, put_back)})
    return out


def arrival_grids(ctx, b, fl, ibb, tb, cur_field, grid=5):
    """For every feasible path arriving at block tb after the inner poll at ibb: the set of points (n, cursor), 1 <= n <= grid,
    0 <= cursor < n, that satisfy all evaluable edge conditions between that poll and tb.  -> [(path_prefix, {(n, c)})]"""
    out = []
    seen = set()
    for kind, path, know in sensitive_paths(b, fl, 2):
        for i, bb in enumerate(path):
            if bb != tb or ibb not in path[:i]:
                continue
            j0 = max(j for j in range(i) if path[j] == ibb)
            key = tuple(path[j0:i + 1])
            if key in seen:
                continue
            seen.add(key)
            conds = []
            for j in range(j0, i):
                t = b.term(path[j])
                for lab in fl.edge_labels(path[j]).get(path[j + 1], []):
                    if lab[0] == "bool":
                        conds.append(("bool", lab[1], lab[2], None))
                    elif lab[0] == "int":
                        listed = [int(v) for v, _ in t.get("targets", []) if str(v).lstrip("-").isdigit()]
                        conds.append(("int", lab[1], lab[2], listed))
            sat = set()
            for n in range(1, grid + 1):
                for c in range(n):
                    good = True
                    for kind_, e, val, listed in conds:
                        try:
                            v = _eval_nc(e, n, c, cur_field)
                        except _NoVal:
                            continue
                        if kind_ == "bool":
                            if bool(v) is not val:
                                good = False
                        elif val is None:
                            if int(v) in listed:
                                good = False
                        elif int(v) != int(val):
                            good = False
                    if good:
                        sat.add((n, c))
            out.append((path[:i + 1], sat))
    return out


def removal_never_of_last(ctx, b, fl, ibb, rbb, cur_field, grid=5):
    """Every feasible arrival at the removal block rbb (a Vec::remove of groups[cursor] after the inner poll at ibb) carries
    edge conditions over (number of groups, cursor) that exclude `cursor == len - 1`: the LAST group -- the largest allocation,
    and the only group when len == 1 -- is never the one removed.  Decided per arriving path on the grid 1 <= n <= grid,
    0 <= cursor < n.  -> (ok, detail)"""
    ag = arrival_grids(ctx, b, fl, ibb, rbb, cur_field, grid)
    for pth, sat in ag:
        for (n, c) in sat:
            if c == n - 1:
                return False, "the removal is reachable with cursor == len - 1 (n=%d, cursor=%d): the last group can be removed" % (n, c)
    return bool(ag), "%d arrivals; on each the edge conditions exclude cursor == len - 1" % len(ag)
