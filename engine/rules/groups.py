"""Path events of the group loops of the unbounded collections (shared by C01 R1.7 and C13 R13.2)."""
import re

from lib_facts import place_str, fn_name
from lib_flow import strip_refs, sensitive_paths, is_inc_of
from roles import direct_sites, callee_body, RE_STREAM_POLL_NEXT


def cursor_events(ctx, R, b):
    """Per feasible path: list of events ("P", outcome) inner poll, ("ADV",) cursor advanced/wrapped, ("REM",) group
    removed, ("BACK",) the removed group pushed back into the vector, ("RET", kind)."""
    fl = ctx.flow(b)
    inner = [(bb, t) for bb, t, fn in b.calls() if fn and not b.is_cleanup(bb)
             and re.search(RE_STREAM_POLL_NEXT, fn["def"]) and callee_body(ctx.facts, fn) is not None]
    if len(inner) != 1:
        return None
    ibb, it = inner[0]
    recv = strip_refs(fl.operand_expr(it["args"][0]))
    cur_field = None
    if recv[0] == "call" and "index_mut" in (recv[1] or ""):
        cur = recv[2][1]
        if cur[0] == "proj" and cur[2][-1].startswith("."):
            cur_field = cur[2][-1]
    if cur_field is None:
        return None
    adv_blocks = {}
    for (bb, i, s) in fl.stores:
        if i == "term" or b.is_cleanup(bb):
            continue
        pe = fl.place_expr(s["place"])
        if pe[0] == "proj" and pe[2][-1] == cur_field:
            v = fl.rvalue_expr(s["rv"], bb)
            k = is_inc_of(v, cur_field)
            if (k is not None and k >= 1) or (v[0] == "const" and v[2] == "0"):
                adv_blocks[bb] = "inc" if k else "wrap"
    rem_sites = direct_sites(b, r"alloc::vec::Vec::<.*>::(remove|swap_remove)$")
    rem_blocks = {bb for bb, t, fn in rem_sites}
    # the removed (exhausted) group put back into the vector
    back_blocks = set()
    for bb, t, fn in direct_sites(b, r"alloc::vec::Vec::<.*>::(push|insert)$"):
        v = fl.operand_expr(t["args"][-1])
        if v[0] == "call" and v[3] in rem_blocks:
            back_blocks.add(bb)
    dest = place_str(it["dest"])
    out = []
    from adapters import classify_poll
    for kind, path, know in sensitive_paths(b, fl, 3):
        if kind != "return":
            continue
        ev = []
        n = len(path)
        for i, bb in enumerate(path):
            if bb == ibb:
                e = n
                for j in range(i + 1, n):
                    if path[j] == ibb:
                        e = j
                        break
                ev.append(("P", classify_poll(dest, know[e - 1]) if e - 1 > i else None, i))
            if bb in adv_blocks and i > 0:
                # the wrap store at the loop head (before the poll of this iteration) is not an advance after a poll
                ev.append(("ADV", adv_blocks[bb], i))
            if bb in rem_blocks:
                ev.append(("REM", None, i))
            if bb in back_blocks:
                ev.append(("BACK", None, i))
        # kind of the value returned on this path
        rk = None
        for bb in reversed(path):
            hit = False
            for s_ in reversed(b.stmts(bb)):
                if s_["k"] == "assign" and s_["place"]["l"] == 0 and not s_["place"]["p"]:
                    rv = s_["rv"]
                    if rv["k"] == "aggregate" and rv.get("adt") == "core::task::Poll":
                        if rv["variant"] == "Pending":
                            rk = "Pending"
                        else:
                            e_ = fl.rvalue_expr(rv, bb)
                            rk = "None" if (e_[2][0][0] == "agg" and e_[2][0][1].endswith("Option::None")) else "Some"
                    hit = True
                    break
            if hit:
                break
        ev.append(("RET", rk, n))
        out.append((path, ev))
    return cur_field, out


