"""Interprocedural helpers: deep data-dependence leaves through crate-internal callees (bounded inlining)."""
from lib_flow import Flow


def deep_leaves(ctx, body, expr, depth=3, _stack=None):
    """Leaves of `expr` (evaluated in `body`); calls to crate functions are expanded into the leaves of
    the callee's return value (<= depth levels).  Leaf kinds: see Flow.leaves; expanded calls stay in the
    set as ("call", name, bb) too."""
    fl = ctx.flow(body)
    if _stack is None:
        _stack = ()
    out = set(fl.leaves(expr))
    if depth <= 0:
        return out
    for lf in list(out):
        if lf[0] == "call" and lf[1] in ctx.facts.bodies and lf[1] not in _stack:
            cb = ctx.facts.bodies[lf[1]]
            cfl = ctx.flow(cb)
            sub = deep_leaves(ctx, cb, cfl.local_expr(0), depth - 1, _stack + (lf[1],))
            # callee parameters are not leaves of the caller
            out |= {x for x in sub if x[0] != "param"}
    return out


def ret_leaves(ctx, body, depth=3):
    fl = ctx.flow(body)
    return deep_leaves(ctx, body, fl.local_expr(0), depth)


def returned_exprs(ctx, body):
    """Expressions assigned to the return place on normal paths: [(bb, expr)]."""
    fl = ctx.flow(body)
    out = []
    for (bb, idx, kind, node) in fl.defs.get(0, []):
        if body.is_cleanup(bb):
            continue
        if kind == "assign":
            out.append((bb, fl.rvalue_expr(node["rv"], bb)))
        elif kind == "call":
            out.append((bb, fl.call_expr(node, bb)))
    return out
