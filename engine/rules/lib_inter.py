"""Interprocedural helpers: deep data-dependence leaves through crate-internal callees (bounded inlining)."""
from lib_flow import Flow


def deep_leaves(ctx, body, expr, depth=3, _stack=None):
    """Leaves of `expr` (evaluated in `body`); calls to crate functions are expanded into the leaves of
    the callee's return value (<= depth levels).  Leaf kinds: see Flow.leaves; expanded calls stay in the
    set as ("call", name, bb) too."""
    fl = ctx.flow(body)
    if _stack is None:
        _stack = ()
    out = set(fl.leaves(expr))
    if depth <= 0:
        return out
    # closures handed to iterator adaptors etc.: their return value feeds the result
    for cl in _closures_in(expr):
        cb = ctx.facts.bodies.get(cl)
        if cb is not None and cl not in _stack:
            out |= {x for x in deep_leaves(ctx, cb, ctx.flow(cb).local_expr(0), depth - 1, _stack + (cl,)) if x[0] != "param"}
    for lf in list(out):
        if lf[0] == "call" and lf[1] in ctx.facts.bodies and lf[1] not in _stack:
            cb = ctx.facts.bodies[lf[1]]
            cfl = ctx.flow(cb)
            sub = deep_leaves(ctx, cb, cfl.local_expr(0), depth - 1, _stack + (lf[1],))
            # callee parameters are not leaves of the caller
            out |= {x for x in sub if x[0] != "param"}
    return out


def ret_leaves(ctx, body, depth=3):
    fl = ctx.flow(body)
    return deep_leaves(ctx, body, fl.local_expr(0), depth)


def returned_exprs(ctx, body):
    """Expressions assigned to the return place on normal paths: [(bb, expr)]."""
    fl = ctx.flow(body)
    out = []
    for (bb, idx, kind, node) in fl.defs.get(0, []):
        if body.is_cleanup(bb):
            continue
        if kind == "assign":
            out.append((bb, fl.rvalue_expr(node["rv"], bb)))
        elif kind == "call":
            out.append((bb, fl.call_expr(node, bb)))
    return out


def _closures_in(e, out=None):
    if out is None:
        out = []
    if not isinstance(e, tuple) or not e:
        return out
    if e[0] == "agg":
        if e[1].startswith("closure:"):
            out.append(e[1][len("closure:"):])
        for a in e[2]:
            _closures_in(a, out)
    elif e[0] in ("call", "icall"):
        for a in e[2]:
            _closures_in(a, out)
    elif e[0] in ("proj", "ref", "discr"):
        _closures_in(e[1], out)
    elif e[0] == "binop":
        _closures_in(e[2], out)
        _closures_in(e[3], out)
    elif e[0] in ("unop", "cast"):
        _closures_in(e[2], out)
    return out


def flat_ops(ctx, e):
    """{field name: operand expr} of a struct aggregate expression, with the fields of nested aggregates of crate structs
    merged in (bookkeeping grouped in a private struct of its own: `free: FreeList { head, filled }`)."""
    out = dict(zip(e[3], e[2])) if len(e) > 3 else {}
    for v_ in list(out.values()):
        if isinstance(v_, tuple) and v_ and v_[0] == "agg" and len(v_) > 3 and v_[1].rsplit("::", 1)[0] in ctx.facts.adts and \
                ctx.facts.adts[v_[1].rsplit("::", 1)[0]]["kind"] == "struct":
            for k_, x_ in zip(v_[3], v_[2]):
                out.setdefault(k_, x_)
    return out
