"""MIR-level inlining of private helper functions (DESIGN §7.2: rules follow calls inside the crate with an inlining
bound of 8 levels and 400 blocks per function).

A *helper* is a module-private (not `pub`, not `pub(crate)`) free or inherent function of the crate that is not a trait
impl method, is not address-taken (never used as a function pointer), is not recursive and does not itself call one of
the anchoring primitives from which the rule roles are located (ready-queue enqueue/dequeue, waker registration /
notification, raw alloc/dealloc, atomic RMWs, vtable / raw-waker construction, layout construction).  Every direct
call of a helper is replaced by a renamed copy of its blocks: arguments become assignments to the callee's parameter
locals, `return` becomes `dest = move _0'; goto <call target>`.  Extracting a block into a private helper, or inlining
one, therefore does not change what the rules see.  Helpers whose every call site was inlined are dropped from the
list of analysed function bodies (their code is analysed in place at each call site)."""
import copy
import re

ANCHOR_PRIMS = re.compile(
    r"cordyceps::MpscQueue::|diatomic_waker::DiatomicWaker::|^alloc::alloc::(alloc|dealloc|realloc|alloc_zeroed)$|"
    r"core::sync::atomic::Atomic.*::fetch_|core::task::RawWakerVTable::new$|core::task::Waker::from_raw$|"
    r"core::alloc::Layout::extend$")
MAX_DEPTH = 8
MAX_BLOCKS = 400


def _callee_name(t):
    f = t["func"]
    if f["k"] == "const" and "fn" in f:
        return f["fn"].get("res") or f["fn"].get("def")
    return None


def address_taken(j):
    """Paths of crate functions used as values (function pointers / arguments), not as call targets."""
    taken = set()

    def scan_op(o):
        if o["k"] == "const" and "fn" in o:
            taken.add(o["fn"].get("res") or o["fn"].get("def"))

    for b in j["bodies"]:
        for blk in b["blocks"]:
            for s in blk["stmts"]:
                if s["k"] != "assign":
                    continue
                rv = s["rv"]
                if rv["k"] in ("use", "cast", "repeat"):
                    scan_op(rv["op"])
                elif rv["k"] == "binop":
                    scan_op(rv["a"])
                    scan_op(rv["b"])
                elif rv["k"] == "aggregate":
                    for o in rv["ops"]:
                        scan_op(o)
            t = blk["term"]
            if t["k"] in ("call", "tailcall"):
                for a in t["args"]:
                    scan_op(a)
    return taken


def helper_set(j):
    fns = {f["path"]: f for f in j["fns"]}
    bodies = {}
    for b in j["bodies"]:
        if b["kind"] in ("Fn", "AssocFn") and b["promoted"] is None:
            bodies.setdefault(b["path"], b)
    taken = address_taken(j)
    helpers = set()
    for path, b in bodies.items():
        f = fns.get(path)
        if f is None:
            continue
        if not f["vis"].startswith("in "):
            continue           # pub / pub(crate): part of a module interface
        if path.startswith("<"):
            continue           # trait impl method
        if "::_::" in path:
            continue           # pin-project-lite generated code
        if path in taken:
            continue
        calls_prim = False
        recursive = False
        for blk in b["blocks"]:
            t = blk["term"]
            if t["k"] in ("call", "tailcall"):
                nm = _callee_name(t)
                if nm and ANCHOR_PRIMS.search(nm):
                    calls_prim = True
                if t["func"]["k"] == "const" and "fn" in t["func"] and ANCHOR_PRIMS.search(t["func"]["fn"].get("def", "")):
                    calls_prim = True
                if nm == path:
                    recursive = True
        if calls_prim or recursive:
            continue
        helpers.add(path)
    return helpers, bodies


def _remap_place(p, off):
    p["l"] += off
    for e in p["p"]:
        if e["k"] == "index":
            e["local"] += off


def _remap_operand(o, off):
    if o["k"] in ("copy", "move"):
        _remap_place(o["place"], off)


def _remap_rvalue(rv, off):
    k = rv["k"]
    if k in ("use", "cast", "repeat"):
        _remap_operand(rv["op"], off)
    elif k in ("ref", "rawptr", "discr"):
        _remap_place(rv["place"], off)
    elif k == "binop":
        _remap_operand(rv["a"], off)
        _remap_operand(rv["b"], off)
    elif k == "unop":
        _remap_operand(rv["a"], off)
    elif k == "aggregate":
        for o in rv["ops"]:
            _remap_operand(o, off)


def _remap_block(blk, loff, boff):
    for s in blk["stmts"]:
        if s["k"] == "assign":
            _remap_place(s["place"], loff)
            _remap_rvalue(s["rv"], loff)
        elif s["k"] == "setdiscr":
            _remap_place(s["place"], loff)
    t = blk["term"]
    k = t["k"]
    if k == "goto":
        t["target"] += boff
    elif k == "switch":
        _remap_operand(t["discr"], loff)
        t["targets"] = [[v, b + boff] for v, b in t["targets"]]
        t["otherwise"] += boff
    elif k == "drop":
        _remap_place(t["place"], loff)
        t["target"] += boff
        if t.get("unwind") is not None:
            t["unwind"] += boff
    elif k in ("call", "tailcall"):
        _remap_operand(t["func"], loff)
        for a in t["args"]:
            _remap_operand(a, loff)
        if k == "call":
            _remap_place(t["dest"], loff)
            if t["target"] is not None:
                t["target"] += boff
            if t.get("unwind") is not None:
                t["unwind"] += boff
    elif k == "assert":
        _remap_operand(t["cond"], loff)
        t["target"] += boff
        if t.get("unwind") is not None:
            t["unwind"] += boff
    elif k == "otherterm":
        t["succ"] = [x + boff for x in t.get("succ", [])]


def inline_body(b, helpers, bodies, stats):
    """Inline helper calls in body JSON `b` (in place)."""
    depth = {i: 0 for i in range(len(b["blocks"]))}
    changed = True
    while changed:
        changed = False
        for i in range(len(b["blocks"])):
            blk = b["blocks"][i]
            t = blk["term"]
            if t["k"] != "call" or blk["cleanup"]:
                continue
            nm = _callee_name(t)
            if nm not in helpers or nm == b["path"] or depth.get(i, 0) >= MAX_DEPTH:
                continue
            c = bodies.get(nm)
            if c is None or len(b["blocks"]) + len(c["blocks"]) > MAX_BLOCKS:
                continue
            loff = len(b["locals"])
            boff = len(b["blocks"])
            b["locals"].extend(c["locals"])
            # arguments -> callee parameter locals
            for k, a in enumerate(t["args"], start=1):
                if k > c["arg_count"]:
                    break
                blk["stmts"].append({"k": "assign", "place": {"l": loff + k, "p": [], "ty": c["locals"][k]},
                                     "rv": {"k": "use", "op": copy.deepcopy(a)}, "span": t["span"]})
            dest = t["dest"]
            target = t["target"]
            for cj, cblk in enumerate(c["blocks"]):
                nb = copy.deepcopy(cblk)
                _remap_block(nb, loff, boff)
                ct = nb["term"]
                if ct["k"] == "return":
                    nb["stmts"].append({"k": "assign", "place": copy.deepcopy(dest),
                                        "rv": {"k": "use", "op": {"k": "move", "place": {"l": loff, "p": [], "ty": c["locals"][0]}}},
                                        "span": ct["span"]})
                    if target is None:
                        nb["term"] = {"k": "unreachable", "span": ct["span"]}
                    else:
                        nb["term"] = {"k": "goto", "target": target, "span": ct["span"]}
                b["blocks"].append(nb)
                depth[boff + cj] = depth.get(i, 0) + 1
            blk["term"] = {"k": "goto", "target": boff, "span": t["span"], "inlined": nm}
            stats[nm] = stats.get(nm, 0) + 1
            changed = True
    return b


def inline_facts(j):
    """Inline helper calls in all function bodies of the fact JSON (in place).  Returns (helpers, stats)."""
    helpers, bodies = helper_set(j)
    originals = {p: copy.deepcopy(b) for p, b in bodies.items() if p in helpers}
    stats = {}
    for b in j["bodies"]:
        if b["kind"] in ("Fn", "AssocFn", "Closure") and b["promoted"] is None:
            inline_body(b, helpers, originals, stats)
    # helpers with no remaining direct call are analysed in place only
    remaining = set()
    for b in j["bodies"]:
        for blk in b["blocks"]:
            t = blk["term"]
            if t["k"] in ("call", "tailcall"):
                nm = _callee_name(t)
                if nm in helpers and b["path"] not in helpers:
                    remaining.add(nm)
    fully = sorted(h for h in helpers if h in stats and h not in remaining)
    j["inlined_helpers"] = {"helpers": sorted(helpers), "call_sites_inlined": stats, "fully_inlined": fully}
    return helpers, stats
