"""MIR-level inlining of private helper functions (DESIGN §7.2: rules follow calls inside the crate with an inlining
bound of 8 levels and 400 blocks per function).

A *helper* is a module-private free or inherent function of the crate, or a `pub(crate)` free function, that is not a trait
impl method, is not address-taken (never used as a function pointer), is not recursive and does not itself call one of
the anchoring primitives from which the rule roles are located (ready-queue enqueue/dequeue, waker registration /
notification, raw alloc/dealloc, atomic RMWs, vtable / raw-waker construction, layout construction).  Every direct
call of a helper is replaced by a renamed copy of its blocks: arguments become assignments to the callee's parameter
locals, `return` becomes `dest = move _0'; goto <call target>`.  Extracting a block into a private helper, or inlining
one, therefore does not change what the rules see.  Helpers whose every call site was inlined are dropped from the
list of analysed function bodies (their code is analysed in place at each call site)."""
import copy
import re

ANCHOR_PRIMS = re.compile(
    r"cordyceps::MpscQueue::|diatomic_waker::DiatomicWaker::|^alloc::alloc::(alloc|dealloc|realloc|alloc_zeroed)$|"
    r"core::sync::atomic::Atomic.*::fetch_|core::task::RawWakerVTable::new$|core::task::Waker::from_raw$|"
    r"core::alloc::Layout::extend$")
MAX_DEPTH = 8
MAX_BLOCKS = 400


def _callee_name(t):
    f = t["func"]
    if f["k"] == "const" and "fn" in f:
        return f["fn"].get("res") or f["fn"].get("def")
    return None


def address_taken(j):
    """Paths of crate functions used as values (function pointers / arguments), not as call targets."""
    taken = set()

    def scan_op(o):
        if o["k"] == "const" and "fn" in o:
            taken.add(o["fn"].get("res") or o["fn"].get("def"))

    for b in j["bodies"]:
        for blk in b["blocks"]:
            for s in blk["stmts"]:
                if s["k"] != "assign":
                    continue
                rv = s["rv"]
                if rv["k"] in ("use", "cast", "repeat"):
                    scan_op(rv["op"])
                elif rv["k"] == "binop":
                    scan_op(rv["a"])
                    scan_op(rv["b"])
                elif rv["k"] == "aggregate":
                    for o in rv["ops"]:
                        scan_op(o)
            t = blk["term"]
            if t["k"] in ("call", "tailcall"):
                for a in t["args"]:
                    scan_op(a)
    return taken


def helper_set(j):
    fns = {f["path"]: f for f in j["fns"]}
    bodies = {}
    for b in j["bodies"]:
        if b["kind"] in ("Fn", "AssocFn") and b["promoted"] is None:
            bodies.setdefault(b["path"], b)
    taken = address_taken(j)
    helpers = set()
    # pub(crate) METHODS: the module interfaces the roles are anchored on are the ones that touch the anchor primitives
    # themselves (the waker list's pop / push / register / constructor), call such a function directly (the drain, the push
    # primitive) or call one of those directly (the vacating drain).  Any other pub(crate) method is a shared helper
    # (`has_spare_capacity`, `buffered_size_hint`, `admit` ...) and is read through like a private one.
    def direct_callees(b):
        out = set()
        for blk in b["blocks"]:
            t = blk["term"]
            if t["k"] in ("call", "tailcall"):
                nm = _callee_name(t)
                if nm:
                    out.add(nm)
                if t["func"]["k"] == "const" and "fn" in t["func"]:
                    out.add(t["func"]["fn"].get("def", ""))
        return out
    callees = {p_: direct_callees(b_) for p_, b_ in bodies.items()}
    lvl0 = {p_ for p_, cs in callees.items() if any(ANCHOR_PRIMS.search(c) for c in cs)}
    # ... also through its own closures and through private helpers (both are read as part of the function itself)
    closure_parent = {b_["path"]: b_.get("parent_fn") for b_ in j["bodies"] if b_["kind"] == "Closure" and b_["promoted"] is None}
    closure_prims = set()
    for b_ in j["bodies"]:
        if b_["kind"] == "Closure" and b_["promoted"] is None and any(ANCHOR_PRIMS.search(c) for c in direct_callees(b_)):
            closure_prims.add(b_["path"])
    grew = True
    while grew:
        grew = False
        for cp in list(closure_prims):
            par = closure_parent.get(cp)
            if par in closure_parent and par not in closure_prims:
                closure_prims.add(par)
                grew = True
            elif par in bodies and par not in lvl0:
                lvl0.add(par)
                grew = True
        for p_, cs in callees.items():
            if p_ in lvl0:
                continue
            for c in cs:
                fc = fns.get(c)
                if c in lvl0 and fc is not None and fc["vis"].startswith("in ") and not c.startswith("<"):
                    lvl0.add(p_)
                    grew = True
                    break
    lvl1 = {p_ for p_, cs in callees.items() if cs & lvl0}
    lvl2 = {p_ for p_, cs in callees.items() if cs & lvl1}
    # ... except a thin forwarder: one crate callee, straight-line (a `rearm(i)` that only calls the ready-queue's `push(i)`)
    def thin(p_):
        b_ = bodies[p_]
        crate_callees = {c for c in callees[p_] if c in bodies}
        mutators = {q_ for q_, cs_ in callees.items() if any(re.search(r"core::pin::Pin::<.*>::set$", c_) for c_ in cs_)}
        if len(crate_callees & lvl0) != 1 or (crate_callees & mutators) or len(b_["blocks"]) > 12:
            return False          # more than a forwarder (the push primitive inserts into the slot map AND marks the slot)
        for bi, blk in enumerate(b_["blocks"]):
            if blk["cleanup"]:
                continue
            for s_ in _succs_json(blk["term"]):
                if s_ <= bi and not b_["blocks"][s_]["cleanup"]:
                    return False          # a back edge: a loop
        return True
    # ... and except a composite of the primitive type's own interface (`WakerList::new_all_queued(cap)` = `new(cap)` followed
    # by `push(i)` for every i): every crate function it calls is a method of its own type that touches the primitives itself,
    # so it adds nothing but sequencing (the vacating drain, which calls the non-vacating one, is a role of its own)
    def own_composite(p_):
        f_ = fns.get(p_)
        if f_ is None or not f_.get("impl") or p_.startswith("<"):
            return False
        cc = [c for c in callees[p_] if c in bodies]
        return bool(cc) and all((fns.get(c) or {}).get("impl") == f_["impl"] and c in lvl0 for c in cc)
    lvl1 = {p_ for p_ in lvl1 if p_ in lvl0 or not (thin(p_) or own_composite(p_))}
    lvl2 = {p_ for p_, cs in callees.items() if cs & lvl1 and (p_ in lvl0 or not own_composite(p_))}
    interface = lvl0 | lvl1 | lvl2
    private_traits = {f_["trait_decl"] for f_ in j["fns"] if f_.get("trait_decl") and not f_.get("effective_pub") and
                      (f_["vis"].startswith("in ") or f_["vis"] == "crate")}
    private_trait_impl_methods = set()
    for im in j["impls"]:
        if im.get("trait") in private_traits and not im.get("negative"):
            private_trait_impl_methods |= set(im.get("items", []))
    call_sites = {}
    for b_ in j["bodies"]:
        if b_["kind"] in ("Fn", "AssocFn", "Closure") and b_["promoted"] is None:
            lst = []
            for blk in b_["blocks"]:
                t = blk["term"]
                if t["k"] in ("call", "tailcall") and not blk["cleanup"]:
                    nm = _callee_name(t)
                    if nm:
                        lst.append(nm)
            call_sites[b_["path"]] = lst
    for path, b in bodies.items():
        f = fns.get(path)
        if f is None:
            continue
        private = f["vis"].startswith("in ")
        crate_free_fn = f["vis"] == "crate" and f.get("impl") is None and not f.get("effective_pub")
        crate_helper_method = f["vis"] == "crate" and f.get("impl") is not None and not f.get("effective_pub") and path not in interface
        if not (private or crate_free_fn or crate_helper_method):
            continue           # pub items and the pub(crate) interface methods keep their bodies (roles are anchored on them)
        if path.startswith("<") and path not in private_trait_impl_methods:
            continue           # trait impl method (those of a crate-private trait are shared helpers reached by static dispatch)
        if "::_::" in path:
            continue           # pin-project-lite generated code
        if path in taken and f.get("impl") is None:
            continue           # a free function whose address is taken (the waker vtable's entries) keeps its body; a private
                               # METHOD that is also handed out as a function item (`find_map(Slot::occupied_mut)`) is still read
                               # through where it is called directly
        calls_prim = False
        recursive = False
        for blk in b["blocks"]:
            t = blk["term"]
            if t["k"] in ("call", "tailcall"):
                nm = _callee_name(t)
                if nm and ANCHOR_PRIMS.search(nm):
                    calls_prim = True
                if t["func"]["k"] == "const" and "fn" in t["func"] and ANCHOR_PRIMS.search(t["func"]["fn"].get("def", "")):
                    calls_prim = True
                if nm == path:
                    recursive = True
        if recursive:
            continue
        if calls_prim:
            # a helper around an anchor primitive keeps its body (the role lives in it) -- unless it is private, called from
            # exactly one place and never handed out, and all it does with the primitives is allocate / construct: then the
            # role simply belongs to that caller (`alloc_block(layout)`, `init_header(cap, stub)` split off the constructor)
            sites = sum(1 for p2, cs2 in call_sites.items() for c2 in cs2 if c2 == path)
            only_alloc = all(re.search(r"^alloc::alloc::(alloc|alloc_zeroed|realloc|handle_alloc_error)$|core::alloc::Layout::|"
                                       r"(cordyceps::MpscQueue|diatomic_waker::DiatomicWaker)::(<.*>::)?new\w*$", c2)
                             for c2 in callees.get(path, ()) if ANCHOR_PRIMS.search(c2))
            # ... or it is higher-order: it applies a callable it was given (`mark_woken(slot, queue, || meta.waker.notify())`), so
            # what it does depends on the site and it can only be judged there
            higher_order = False
            for blk in b["blocks"]:
                t = blk["term"]
                if t["k"] == "call" and t["func"]["k"] == "const" and "fn" in t["func"] and \
                        t["func"]["fn"].get("def") in ("core::ops::FnOnce::call_once", "core::ops::FnMut::call_mut", "core::ops::Fn::call") and t["args"]:
                    a0 = t["args"][0]
                    if a0["k"] in ("move", "copy") and not a0["place"]["p"]:
                        src = _trace_param(b, a0["place"]["l"])
                        if src is not None:
                            higher_order = True
            # ... or data-parameterised the same way: it branches on the variant of (a field of) a parameter
            # (`ReadyQueue { queue, task: None }.mark(slot)` notifies `task` only if there is one)
            if not higher_order and _switches_on_param(b):
                higher_order = True
            if not (private and path not in taken and ((sites == 1 and only_alloc) or higher_order)):
                continue          # (the reference-count and queue primitives' wrappers are roles of their own)
        helpers.add(path)
    return helpers, bodies


def _trace_param(b, local):
    """`local` is (a plain move / reborrow of) one of b's parameters -> that parameter's index, else None."""
    for _ in range(6):
        if 1 <= local <= b["arg_count"]:
            return local
        s_ = _single_assign(b, local)
        if s_ is None:
            return None
        rv = s_["rv"]
        if rv["k"] == "use" and rv["op"]["k"] in ("move", "copy") and not rv["op"]["place"]["p"]:
            local = rv["op"]["place"]["l"]
        elif rv["k"] == "ref" and [e["k"] for e in rv["place"]["p"]] in ([], ["deref"]):
            local = rv["place"]["l"]
        else:
            return None
    return None


def _switches_on_param(b):
    """Some switch of b tests the discriminant of a place rooted (through derefs / fields / plain copies) at a parameter."""
    def rooted(local, depth=0):
        if depth > 6:
            return False
        if 1 <= local <= b["arg_count"]:
            return True
        s_ = _single_assign(b, local)
        if s_ is None:
            return False
        rv = s_["rv"]
        if rv["k"] == "use" and rv["op"]["k"] in ("move", "copy") and all(e["k"] in ("deref", "field") for e in rv["op"]["place"]["p"]):
            return rooted(rv["op"]["place"]["l"], depth + 1)
        if rv["k"] == "ref" and all(e["k"] in ("deref", "field") for e in rv["place"]["p"]):
            return rooted(rv["place"]["l"], depth + 1)
        return False
    for blk in b["blocks"]:
        t = blk["term"]
        if blk["cleanup"] or t["k"] != "switch" or t["discr"]["k"] not in ("move", "copy") or t["discr"]["place"]["p"]:
            continue
        d = _single_assign(b, t["discr"]["place"]["l"])
        if d is not None and d["rv"]["k"] == "discr" and all(e["k"] in ("deref", "field") for e in d["rv"]["place"]["p"]) \
                and rooted(d["rv"]["place"]["l"]):
            return True
    return False


def _remap_place(p, off):
    p["l"] += off
    for e in p["p"]:
        if e["k"] == "index":
            e["local"] += off


def _remap_operand(o, off):
    if o["k"] in ("copy", "move"):
        _remap_place(o["place"], off)


def _remap_rvalue(rv, off):
    k = rv["k"]
    if k in ("use", "cast", "repeat"):
        _remap_operand(rv["op"], off)
    elif k in ("ref", "rawptr", "discr"):
        _remap_place(rv["place"], off)
    elif k == "binop":
        _remap_operand(rv["a"], off)
        _remap_operand(rv["b"], off)
    elif k == "unop":
        _remap_operand(rv["a"], off)
    elif k == "aggregate":
        for o in rv["ops"]:
            _remap_operand(o, off)


def _remap_block(blk, loff, boff):
    for s in blk["stmts"]:
        if s["k"] == "assign":
            _remap_place(s["place"], loff)
            _remap_rvalue(s["rv"], loff)
        elif s["k"] == "setdiscr":
            _remap_place(s["place"], loff)
    t = blk["term"]
    k = t["k"]
    if k == "goto":
        t["target"] += boff
    elif k == "switch":
        _remap_operand(t["discr"], loff)
        t["targets"] = [[v, b + boff] for v, b in t["targets"]]
        t["otherwise"] += boff
    elif k == "drop":
        _remap_place(t["place"], loff)
        t["target"] += boff
        if t.get("unwind") is not None:
            t["unwind"] += boff
    elif k in ("call", "tailcall"):
        _remap_operand(t["func"], loff)
        for a in t["args"]:
            _remap_operand(a, loff)
        if k == "call":
            _remap_place(t["dest"], loff)
            if t["target"] is not None:
                t["target"] += boff
            if t.get("unwind") is not None:
                t["unwind"] += boff
    elif k == "assert":
        _remap_operand(t["cond"], loff)
        t["target"] += boff
        if t.get("unwind") is not None:
            t["unwind"] += boff
    elif k == "otherterm":
        t["succ"] = [x + boff for x in t.get("succ", [])]


def _subst_local(blk, frm, to):
    """Rename local `frm` to `to` in one (already remapped) block."""
    def pl(p):
        if p["l"] == frm:
            p["l"] = to
        for e in p["p"]:
            if e["k"] == "index" and e["local"] == frm:
                e["local"] = to

    def op(o):
        if o["k"] in ("copy", "move"):
            pl(o["place"])

    def rv(r):
        k = r["k"]
        if k in ("use", "cast", "repeat"):
            op(r["op"])
        elif k in ("ref", "rawptr", "discr"):
            pl(r["place"])
        elif k == "binop":
            op(r["a"])
            op(r["b"])
        elif k == "unop":
            op(r["a"])
        elif k == "aggregate":
            for o in r["ops"]:
                op(o)
    for s_ in blk["stmts"]:
        if s_["k"] == "assign":
            pl(s_["place"])
            rv(s_["rv"])
        elif s_["k"] == "setdiscr":
            pl(s_["place"])
    t = blk["term"]
    k = t["k"]
    if k == "switch":
        op(t["discr"])
    elif k == "drop":
        pl(t["place"])
    elif k in ("call", "tailcall"):
        op(t["func"])
        for a in t["args"]:
            op(a)
        if k == "call":
            pl(t["dest"])
    elif k == "assert":
        op(t["cond"])



IMPLS = []          # the impl table of the fact file being canonicalised (set by inline_facts)
GENERICS = {}       # fn path -> names of its type / const parameters (positionally the `def_args` of a call)


def _bind_generics(c, t):
    """Generic parameters of callee c that occur as the Self type of a crate-trait method call inside it, bound to the
    concrete types of the call site t by matching the callee's parameter types against the argument types:
    {param name: concrete type string}."""
    names = set()
    for blk in c["blocks"]:
        ct = blk["term"]
        if ct["k"] == "call" and ct["func"]["k"] == "const" and "fn" in ct["func"]:
            fn = ct["func"]["fn"]
            if fn.get("trait") and not fn.get("res") and (
                    (fn.get("local") and re.match(r"^[A-Z]\w*$", fn.get("self_ty") or "")) or
                    # a std trait's method on a type parameter (named, or an argument-position `impl Trait`): it is the
                    # crate's own impl when the call site binds the parameter to a crate type that has one
                    (re.match(r"^([A-Z]\w*|impl .*)$", fn.get("self_ty") or "") and
                     (fn["self_ty"] in c["locals"][1:c["arg_count"] + 1] or fn["self_ty"] in (GENERICS.get(c["path"]) or [])))):
                names.add(fn["self_ty"])
    out = {}
    # parameters named at the call (`poll_settled::<F, KeepAll>(..)`), whether or not an argument's type mentions them
    gen = GENERICS.get(c["path"])
    cfn = t["func"].get("fn") or {}
    cargs = cfn.get("res_args") if cfn.get("res") == c["path"] else (cfn.get("def_args") if cfn.get("def") == c["path"] else None)
    if gen and cargs and len(gen) == len(cargs):
        for nm, ty_ in zip(gen, cargs):
            if nm in names and ty_ != nm and not re.match(r"^([A-Z]\w*|impl .*)$", ty_):
                out[nm] = ty_
    for nm in names:
        if nm in out:
            continue
        for k, a in enumerate(t["args"], start=1):
            if k > c["arg_count"]:
                break
            pat = c["locals"][k]
            if not re.search(r"(?<![\w:])%s(?![\w:])" % re.escape(nm), pat):
                continue
            aty = a["place"]["ty"] if a["k"] in ("copy", "move") else a.get("ty", "")
            rx = "^" + re.sub(r"(?<![\w:])%s(?![\w:])" % re.escape(re.escape(nm)), "(.+)", re.escape(pat)) + "$"
            try:
                m = re.match(rx, aty)
            except re.error:
                m = None
            if m:
                out[nm] = m.group(1)
                break
    return out


TYPES = {}          # the type table of the fact file being canonicalised (set by inline_facts)


def _type_binding(c, t):
    """{type parameter of callee c: the type the call names for it} -- every parameter, from the call's own generic arguments."""
    gen = GENERICS.get(c["path"])
    cfn = t["func"].get("fn") or {}
    cargs = cfn.get("res_args") if cfn.get("res") == c["path"] else (cfn.get("def_args") if cfn.get("def") == c["path"] else None)
    if not gen or not cargs or len(gen) != len(cargs):
        return {}
    return {g: a for g, a in zip(gen, cargs) if g != a and re.match(r"^[A-Z]\w*$", g) and not a.startswith("const ")}


def _subst_type_key(key, tb, rx):
    """The type string `key` of an inlined generic helper with its type parameters replaced by what the call site binds them to;
    the substituted type is entered into the type table (built from the original's tree) so that ownership / drop reasoning
    sees `<FuturesUnorderedBounded<F> as Stream>::Item`, not the helper's `<Q as Stream>::Item`."""
    if not isinstance(key, str) or not rx.search(key):
        return key
    new = rx.sub(lambda m: tb[m.group(0)], key)
    if new in TYPES or key not in TYPES:
        return new
    t = copy.deepcopy(TYPES[key])
    if t.get("k") == "param" and t.get("name") in tb:
        tgt = TYPES.get(tb[t["name"]])
        if tgt is not None:
            TYPES[new] = copy.deepcopy(tgt)
        return new
    TYPES[new] = t          # registered first: recursive types terminate
    for k_, v_ in list(t.items()):
        if k_ in ("k", "name", "local", "mut"):
            continue
        if isinstance(v_, str):
            t[k_] = _subst_type_key(v_, tb, rx)
        elif isinstance(v_, list):
            t[k_] = [_subst_type_key(x_, tb, rx) if isinstance(x_, str) else x_ for x_ in v_]
    return new


def _subst_types_in(node, tb, rx):
    if isinstance(node, dict):
        for k_, v_ in node.items():
            if k_ == "ty" and isinstance(v_, str):
                node[k_] = _subst_type_key(v_, tb, rx)
            elif k_ not in ("func", "span"):
                _subst_types_in(v_, tb, rx)
    elif isinstance(node, list):
        for x_ in node:
            _subst_types_in(x_, tb, rx)


def _devirtualise(ct, bind):
    """A call of a crate-trait method on a generic parameter that the inline site binds to a concrete type is the impl's method."""
    f = ct["func"]
    if not (f["k"] == "const" and "fn" in f):
        return
    fn = f["fn"]
    if fn.get("res") or not fn.get("trait") or fn.get("self_ty") not in bind:
        return
    head = bind[fn["self_ty"]].split("<")[0]
    meth = fn["def"].rsplit("::", 1)[1]
    for im in IMPLS:
        if im.get("trait") == fn["trait"] and (im.get("self_ty") or "").split("<")[0] == head and not im.get("negative"):
            for it in im.get("items", []):
                if it.endswith("::" + meth):
                    fn["res"] = it
                    fn["res_local"] = True
                    fn["devirtualised"] = True
                    return


def inline_body(b, helpers, bodies, stats):
    """Inline helper calls in body JSON `b` (in place)."""
    depth = {i: 0 for i in range(len(b["blocks"]))}
    changed = True
    while changed:
        changed = False
        for i in range(len(b["blocks"])):
            blk = b["blocks"][i]
            t = blk["term"]
            if t["k"] != "call" or blk["cleanup"]:
                continue
            nm = _callee_name(t)
            if nm not in helpers or nm == b["path"] or depth.get(i, 0) >= MAX_DEPTH:
                continue
            c = bodies.get(nm)
            if c is None or len(b["blocks"]) + len(c["blocks"]) > MAX_BLOCKS:
                continue
            loff = len(b["locals"])
            boff = len(b["blocks"])
            b["locals"].extend(c["locals"])
            # arguments -> callee parameter locals
            for k, a in enumerate(t["args"], start=1):
                if k > c["arg_count"]:
                    break
                blk["stmts"].append({"k": "assign", "place": {"l": loff + k, "p": [], "ty": c["locals"][k]},
                                     "rv": {"k": "use", "op": copy.deepcopy(a)}, "span": t["span"]})
            dest = t["dest"]
            target = t["target"]
            # a plain destination local takes the place of the callee's return local (the callee's `_0 = ..` become
            # assignments to the destination itself); a projected destination receives a final move
            direct = not dest["p"]
            bind = _bind_generics(c, t)
            tb = _type_binding(c, t)
            rx = re.compile(r"(?<![\w:])(%s)(?![\w:])" % "|".join(re.escape(g_) for g_ in sorted(tb, key=len, reverse=True))) if tb else None
            if tb:
                for li in range(loff, len(b["locals"])):
                    b["locals"][li] = _subst_type_key(b["locals"][li], tb, rx)
            for cj, cblk in enumerate(c["blocks"]):
                nb = copy.deepcopy(cblk)
                _remap_block(nb, loff, boff)
                if tb:
                    _subst_types_in(nb, tb, rx)
                if direct:
                    _subst_local(nb, loff, dest["l"])
                ct = nb["term"]
                if ct["k"] == "call" and bind:
                    _devirtualise(ct, bind)
                if ct["k"] == "return":
                    if not direct:
                        nb["stmts"].append({"k": "assign", "place": copy.deepcopy(dest),
                                            "rv": {"k": "use", "op": {"k": "move", "place": {"l": loff, "p": [], "ty": c["locals"][0]}}},
                                            "span": ct["span"]})
                    if target is None:
                        nb["term"] = {"k": "unreachable", "span": ct["span"]}
                    else:
                        nb["term"] = {"k": "goto", "target": target, "span": ct["span"]}
                b["blocks"].append(nb)
                depth[boff + cj] = depth.get(i, 0) + 1
            blk["term"] = {"k": "goto", "target": boff, "span": t["span"], "inlined": nm}
            stats[nm] = stats.get(nm, 0) + 1
            changed = True
    return b


# ---------------------------------------------------------------------------------------------------------------
# std combinators applied to a closure of the crate: `opt.map(|x| ..)`, `poll.map(..)`, `res.map_err(..)`, ...
# The call is replaced by its definition: a switch on the scrutinee, the closure body inlined in the arm that calls
# it, the closure value dropped where the std implementation drops it.  `match` written out by hand and the
# combinator form therefore look the same to the rules.

OPTION = [["0", "None"], ["1", "Some"]]
POLL = [["0", "Ready"], ["1", "Pending"]]
RESULT = [["0", "Ok"], ["1", "Err"]]
# def path -> (variants, closure arg position, {variant: action}, payload type index in def_args per variant)
#   actions: ("call", wrap_variant|None)   dest = Wrap(closure(payload)) / closure(payload)
#            ("call0", wrap_variant|None)  dest = closure()
#            ("unit", variant)             dest = Variant (no payload)
#            ("rewrap", variant)           dest = Variant(move payload)
#            ("payload",)                  dest = move payload
#            ("scrut",)                    dest = move scrutinee
#            ("bool", v)                   dest = const v
#            ("argval", k)                 dest = move argument k of the combinator (map_or's default); dropped in the other arm
COMBINATORS = {
    "core::option::Option::<T>::map": (OPTION, 1, {"None": ("unit", "None"), "Some": ("call", "Some")}, {"Some": 0}),
    "core::option::Option::<T>::and_then": (OPTION, 1, {"None": ("unit", "None"), "Some": ("call", None)}, {"Some": 0}),
    "core::option::Option::<T>::unwrap_or_else": (OPTION, 1, {"None": ("call0", None), "Some": ("payload",)}, {"Some": 0}),
    "core::option::Option::<T>::or_else": (OPTION, 1, {"None": ("call0", None), "Some": ("scrut",)}, {"Some": 0}),
    "core::option::Option::<T>::ok_or_else": (OPTION, 1, {"None": ("call0", "Err"), "Some": ("rewrap", "Ok")}, {"Some": 0}),
    "core::option::Option::<T>::is_some_and": (OPTION, 1, {"None": ("bool", "0"), "Some": ("call", None)}, {"Some": 0}),
    "core::option::Option::<T>::is_none_or": (OPTION, 1, {"None": ("bool", "1"), "Some": ("call", None)}, {"Some": 0}),
    "core::option::Option::<T>::map_or": (OPTION, 2, {"None": ("argval", 1), "Some": ("call", None)}, {"Some": 0}),
    "core::result::Result::<T, E>::map_or": (RESULT, 2, {"Err": ("argval", 1), "Ok": ("call", None)}, {"Ok": 0, "Err": 1}),
    "core::task::Poll::<T>::map": (POLL, 1, {"Pending": ("unit", "Pending"), "Ready": ("call", "Ready")}, {"Ready": 0}),
    "core::result::Result::<T, E>::map": (RESULT, 1, {"Ok": ("call", "Ok"), "Err": ("rewrap", "Err")}, {"Ok": 0, "Err": 1}),
    "core::result::Result::<T, E>::map_err": (RESULT, 1, {"Ok": ("rewrap", "Ok"), "Err": ("call", "Err")}, {"Ok": 0, "Err": 1}),
    "core::result::Result::<T, E>::and_then": (RESULT, 1, {"Ok": ("call", None), "Err": ("rewrap", "Err")}, {"Ok": 0, "Err": 1}),
    "core::result::Result::<T, E>::unwrap_or_else": (RESULT, 1, {"Ok": ("payload",), "Err": ("call", None)}, {"Ok": 0, "Err": 1}),
}


# value combinators (no closure): scrutinee arg0, one extra value arg1
#   actions: ("payload",) dest = move payload, arg1 dropped; ("arg",) dest = move arg1;
#            ("rewrap", V) dest = V(move payload), arg1 dropped; ("wraparg", V) dest = V(move arg1)
VALUE_COMBINATORS = {
    "core::option::Option::<T>::unwrap_or": (OPTION, {"Some": ("payload",), "None": ("arg",)}, {"Some": 0}),
    "core::result::Result::<T, E>::unwrap_or": (RESULT, {"Ok": ("payload",), "Err": ("arg",)}, {"Ok": 0, "Err": 1}),
    "core::option::Option::<T>::ok_or": (OPTION, {"Some": ("rewrap", "Ok"), "None": ("wraparg", "Err")}, {"Some": 0}),
}


def expand_value_combinator(b, i, stats):
    blk = b["blocks"][i]
    t = blk["term"]
    f = t["func"]
    if not (f["k"] == "const" and "fn" in f):
        return False
    spec = VALUE_COMBINATORS.get(f["fn"].get("def"))
    if spec is None or t["target"] is None or len(t["args"]) != 2 or len(b["blocks"]) + 8 > MAX_BLOCKS:
        return False
    variants, actions, pidx = spec
    scrut, extra = t["args"]
    if scrut["k"] not in ("copy", "move"):
        return False
    span = t["span"]
    dest, target = t["dest"], t["target"]
    def_args = f["fn"].get("def_args") or []
    out_adt = dest["ty"].split("<")[0]
    sp = scrut["place"]

    def new_local(ty):
        b["locals"].append(ty)
        return len(b["locals"]) - 1

    def new_block(stmts, term):
        b["blocks"].append({"stmts": stmts, "term": term, "cleanup": False})
        return len(b["blocks"]) - 1

    def payload(vname):
        vi = [int(v) for v, n in variants if n == vname][0]
        ty = def_args[pidx[vname]] if vname in pidx and pidx[vname] < len(def_args) else "?"
        return {"l": sp["l"], "p": list(sp["p"]) + [{"k": "downcast", "variant": vname, "idx": vi},
                                                    {"k": "field", "i": 0, "name": "0", "ty": ty}], "ty": ty}

    def assign(place, rv):
        return {"k": "assign", "place": copy.deepcopy(place), "rv": rv, "span": span}

    def agg(variant, ops):
        return {"k": "aggregate", "agg": "adt", "adt": out_adt, "adt_args": [], "variant": variant,
                "fields": ["0"] if ops else [], "ops": ops}
    # the extra value is evaluated before the call: keep it in a local so that both arms can name it
    if extra["k"] in ("copy", "move"):
        xop = copy.deepcopy(extra)
    else:
        xl = new_local(extra.get("ty", "?"))
        blk["stmts"].append(assign({"l": xl, "p": [], "ty": extra.get("ty", "?")}, {"k": "use", "op": copy.deepcopy(extra)}))
        xop = {"k": "move", "place": {"l": xl, "p": [], "ty": extra.get("ty", "?")}}
    dl = new_local("isize")
    blk["stmts"].append(assign({"l": dl, "p": [], "ty": "isize"}, {"k": "discr", "place": copy.deepcopy(sp), "variants": variants}))
    unreach = new_block([], {"k": "unreachable", "span": span})
    targets = []
    for val, vname in variants:
        act = actions[vname]
        if act[0] in ("payload", "rewrap"):
            rv = {"k": "use", "op": {"k": "move", "place": payload(vname)}} if act[0] == "payload" else agg(act[1], [{"k": "move", "place": payload(vname)}])
            after = target
            if xop["k"] == "move":
                after = new_block([], {"k": "drop", "place": copy.deepcopy(xop["place"]), "needs_drop": True, "target": target, "unwind": None, "span": span})
            targets.append([val, new_block([assign(dest, rv)], {"k": "goto", "target": after, "span": span})])
        else:
            rv = {"k": "use", "op": copy.deepcopy(xop)} if act[0] == "arg" else agg(act[1], [copy.deepcopy(xop)])
            targets.append([val, new_block([assign(dest, rv)], {"k": "goto", "target": target, "span": span})])
    blk["term"] = {"k": "switch", "discr": {"k": "move", "place": {"l": dl, "p": [], "ty": "isize"}}, "targets": targets,
                   "otherwise": unreach, "span": span, "inlined": f["fn"].get("def")}
    stats["<value>" + f["fn"].get("def")] = stats.get("<value>" + f["fn"].get("def"), 0) + 1
    return True


def _next_fn(iter_ty, item_ty):
    """The `Iterator::next` callee record for an iterator type, named as rustc resolves it for a `for` loop."""
    res = "core::iter::Iterator::next"
    if iter_ty.startswith("core::ops::Range<"):
        res = "core::iter::range::<impl core::iter::Iterator for core::ops::Range<A>>::next"
    elif iter_ty.startswith("core::ops::RangeInclusive<"):
        res = "core::iter::range::<impl core::iter::Iterator for core::ops::RangeInclusive<A>>::next"
    elif iter_ty.startswith("core::slice::IterMut<"):
        res = "<core::slice::IterMut<'a, T> as core::iter::Iterator>::next"
    elif iter_ty.startswith("core::slice::Iter<"):
        res = "<core::slice::Iter<'a, T> as core::iter::Iterator>::next"
    elif iter_ty.startswith("core::iter::Enumerate<"):
        res = "<core::iter::Enumerate<I> as core::iter::Iterator>::next"
    return {"k": "const", "ty": "fn(&mut %s) -> core::option::Option<%s>" % (iter_ty, item_ty),
            "fn": {"def": "core::iter::Iterator::next", "def_args": [iter_ty], "def_str": "<%s as core::iter::Iterator>::next" % iter_ty,
                   "krate": "core", "local": False, "trait": "core::iter::Iterator", "self_ty": iter_ty, "res": res, "res_local": False,
                   "res_shim": "item", "synthetic": True}}


def expand_for_each(b, i, closures, stats):
    """`iter.for_each(closure)` with a crate closure becomes the `for` loop it is defined as: next() / Some -> closure body /
    None -> drop the closure and continue after the call."""
    blk = b["blocks"][i]
    t = blk["term"]
    f = t["func"]
    if not (f["k"] == "const" and "fn" in f and f["fn"].get("def") == "core::iter::Iterator::for_each"):
        return False
    if t["target"] is None or len(t["args"]) != 2:
        return False
    it, cl = t["args"]
    if it["k"] != "move" or it["place"]["p"] or cl["k"] != "move" or cl["place"]["p"]:
        return False
    cd = _closure_def(b, cl["place"]["l"])
    if cd is None or cd[0] not in closures:
        return False
    c = closures[cd[0]]
    if c["arg_count"] != 2 or len(b["blocks"]) + len(c["blocks"]) + 8 > MAX_BLOCKS:
        return False
    span = t["span"]
    target = t["target"]
    iter_ty = it["place"]["ty"]
    item_ty = c["locals"][2]
    opt_ty = "core::option::Option<%s>" % item_ty
    cplace = cl["place"]

    def new_local(ty):
        b["locals"].append(ty)
        return len(b["locals"]) - 1

    def new_block(stmts, term):
        b["blocks"].append({"stmts": stmts, "term": term, "cleanup": False})
        return len(b["blocks"]) - 1

    def assign(place, rv):
        return {"k": "assign", "place": copy.deepcopy(place), "rv": rv, "span": span}
    rl = new_local("&mut " + iter_ty)
    nl = new_local(opt_ty)
    dl = new_local("isize")
    unreach = new_block([], {"k": "unreachable", "span": span})
    exit_blk = new_block([assign(t["dest"], {"k": "use", "op": {"k": "const", "ty": "()", "s": "()"}})],
                         {"k": "drop", "place": copy.deepcopy(cplace), "needs_drop": True, "target": target, "unwind": None, "span": span})
    head = new_block([assign({"l": rl, "p": [], "ty": "&mut " + iter_ty}, {"k": "ref", "mut": True, "place": copy.deepcopy(it["place"])})], None)
    sw = new_block([assign({"l": dl, "p": [], "ty": "isize"}, {"k": "discr", "place": {"l": nl, "p": [], "ty": opt_ty}, "variants": OPTION})], None)
    b["blocks"][head]["term"] = {"k": "call", "func": _next_fn(iter_ty, item_ty),
                                 "args": [{"k": "move", "place": {"l": rl, "p": [], "ty": "&mut " + iter_ty}}],
                                 "dest": {"l": nl, "p": [], "ty": opt_ty}, "target": sw, "unwind": t.get("unwind"), "span": span}
    # closure body
    loff = len(b["locals"])
    b["locals"].extend(c["locals"])
    env_by_ref = c["locals"][1].startswith("&")
    envp = {"l": loff + 1, "p": [], "ty": c["locals"][1]}
    pre = [assign(envp, {"k": "ref", "mut": c["locals"][1].startswith("&mut"), "place": copy.deepcopy(cplace)}) if env_by_ref
           else assign(envp, {"k": "use", "op": {"k": "move", "place": copy.deepcopy(cplace)}})]
    pre.append(assign({"l": loff + 2, "p": [], "ty": item_ty},
                      {"k": "use", "op": {"k": "move", "place": {"l": nl, "p": [{"k": "downcast", "variant": "Some", "idx": 1},
                                                                               {"k": "field", "i": 0, "name": "0", "ty": item_ty}], "ty": item_ty}}}))
    boff = len(b["blocks"]) + 1
    entry = new_block(pre, {"k": "goto", "target": boff, "span": span})
    for cblk in c["blocks"]:
        nb = copy.deepcopy(cblk)
        _remap_block(nb, loff, boff)
        if nb["term"]["k"] == "return":
            nb["term"] = {"k": "goto", "target": head, "span": nb["term"]["span"]}
        b["blocks"].append(nb)
    b["blocks"][sw]["term"] = {"k": "switch", "discr": {"k": "move", "place": {"l": dl, "p": [], "ty": "isize"}},
                               "targets": [["0", exit_blk], ["1", entry]], "otherwise": unreach, "span": span}
    blk["term"] = {"k": "goto", "target": head, "span": span, "inlined": "Iterator::for_each with " + cd[0]}
    stats[cd[0]] = stats.get(cd[0], 0) + 1
    return True


def _single_assign(b, local):
    found = None
    for blk in b["blocks"]:
        for s_ in blk["stmts"]:
            if s_["k"] == "assign" and s_["place"]["l"] == local and not s_["place"]["p"]:
                if found is not None:
                    return None
                found = s_
        t = blk["term"]
        if t["k"] == "call" and t["dest"]["l"] == local and not t["dest"]["p"]:
            return None
    return found


def _trace_closure_local(b, local):
    """Follow plain moves / copies / (re)borrows from `local` back to a local that is built as a crate closure."""
    for _ in range(8):
        if _closure_def(b, local) is not None:
            return local
        s_ = _single_assign(b, local)
        if s_ is None:
            return None
        rv = s_["rv"]
        if rv["k"] == "use" and rv["op"]["k"] in ("move", "copy") and not rv["op"]["place"]["p"]:
            local = rv["op"]["place"]["l"]
        elif rv["k"] == "ref" and (not rv["place"]["p"] or [e["k"] for e in rv["place"]["p"]] == ["deref"]):
            local = rv["place"]["l"]
        else:
            return None
    return None


def expand_closure_call(b, i, closures, stats):
    """`f(args)` where f is (a move / borrow of) a closure built in this very body -- typically a closure argument of a
    private helper that has just been inlined -- becomes the closure's body."""
    blk = b["blocks"][i]
    t = blk["term"]
    f = t["func"]
    if not (f["k"] == "const" and "fn" in f and f["fn"].get("def") in ("core::ops::FnOnce::call_once", "core::ops::FnMut::call_mut", "core::ops::Fn::call")):
        return False
    if t["target"] is None or len(t["args"]) != 2 or t["args"][0]["k"] not in ("move", "copy") or t["args"][0]["place"]["p"]:
        return False
    cl_local = _trace_closure_local(b, t["args"][0]["place"]["l"])
    if cl_local is None:
        return False
    cd = _closure_def(b, cl_local)
    if cd is None or cd[0] not in closures:
        return False
    c = closures[cd[0]]
    if len(b["blocks"]) + len(c["blocks"]) + 4 > MAX_BLOCKS:
        return False
    span = t["span"]
    dest, target = t["dest"], t["target"]
    tup = t["args"][1]
    loff = len(b["locals"])
    b["locals"].extend(c["locals"])
    cty = c["locals"][1]
    cplace = {"l": cl_local, "p": [], "ty": b["locals"][cl_local]}

    def assign(place, rv):
        return {"k": "assign", "place": copy.deepcopy(place), "rv": rv, "span": span}
    pre = []
    if cty.startswith("&"):
        pre.append(assign({"l": loff + 1, "p": [], "ty": cty}, {"k": "ref", "mut": cty.startswith("&mut"), "place": cplace}))
    else:
        pre.append(assign({"l": loff + 1, "p": [], "ty": cty}, {"k": "use", "op": {"k": "move", "place": cplace}}))
    for k in range(2, c["arg_count"] + 1):
        if tup["k"] not in ("move", "copy"):
            return False
        fld = {"l": tup["place"]["l"], "p": list(tup["place"]["p"]) + [{"k": "field", "i": k - 2, "name": str(k - 2), "ty": c["locals"][k]}], "ty": c["locals"][k]}
        pre.append(assign({"l": loff + k, "p": [], "ty": c["locals"][k]}, {"k": "use", "op": {"k": "move", "place": fld}}))
    blk["stmts"].extend(pre)
    boff = len(b["blocks"])
    direct = not dest["p"]
    for cblk in c["blocks"]:
        nb = copy.deepcopy(cblk)
        _remap_block(nb, loff, boff)
        if direct:
            _subst_local(nb, loff, dest["l"])
        ct = nb["term"]
        if ct["k"] == "return":
            if not direct:
                nb["stmts"].append(assign(dest, {"k": "use", "op": {"k": "move", "place": {"l": loff, "p": [], "ty": c["locals"][0]}}}))
            nb["term"] = {"k": "goto", "target": target, "span": ct["span"]}
        b["blocks"].append(nb)
    blk["term"] = {"k": "goto", "target": boff, "span": span, "inlined": "closure call " + cd[0]}
    stats[cd[0]] = stats.get(cd[0], 0) + 1
    return True


def _closure_def(b, local):
    """The crate closure a local is built from: its only definition is a closure aggregate (returns (path, stmt))."""
    found = None
    for blk in b["blocks"]:
        for s in blk["stmts"]:
            if s["k"] == "assign" and s["place"]["l"] == local and not s["place"]["p"]:
                rv = s["rv"]
                if rv["k"] == "aggregate" and rv.get("agg") == "closure" and found is None:
                    found = (rv["closure"], s)
                else:
                    return None
        t = blk["term"]
        if t["k"] == "call" and t["dest"]["l"] == local and not t["dest"]["p"]:
            return None
    return found


def _expand_combinator_fn_item(b, i, spec, stats):
    """`opt.and_then(Slot::project)`: the callable is a function item of this crate, not a closure -- the arm that would run
    the closure calls the function with the payload (the ordinary helper inlining then reads through it)."""
    blk = b["blocks"][i]
    t = blk["term"]
    f = t["func"]
    variants, cpos, actions, pidx = spec
    scrut, cl = t["args"][0], t["args"][cpos]
    if any(a[0] in ("call0", "argval") for a in actions.values()) or len(b["blocks"]) + 8 > MAX_BLOCKS:
        return False
    m = re.search(r"-> (.*) \{[^{}]*\}$", cl["ty"])
    if m is None:
        return False
    rty = m.group(1)
    span = t["span"]
    dest, target = t["dest"], t["target"]
    def_args = f["fn"].get("def_args") or []
    out_adt = dest["ty"].split("<")[0]
    sp = scrut["place"]

    def new_local(ty):
        b["locals"].append(ty)
        return len(b["locals"]) - 1

    def new_block(stmts, term):
        b["blocks"].append({"stmts": stmts, "term": term, "cleanup": False})
        return len(b["blocks"]) - 1

    def payload(vname):
        vi = [int(v) for v, n in variants if n == vname][0]
        ty = def_args[pidx[vname]] if vname in pidx and pidx[vname] < len(def_args) else "?"
        return {"l": sp["l"], "p": list(sp["p"]) + [{"k": "downcast", "variant": vname, "idx": vi},
                                                    {"k": "field", "i": 0, "name": "0", "ty": ty}], "ty": ty}

    def assign(place, rv):
        return {"k": "assign", "place": copy.deepcopy(place), "rv": rv, "span": span}

    def agg(variant, ops):
        return {"k": "aggregate", "agg": "adt", "adt": out_adt, "adt_args": [], "variant": variant,
                "fields": ["0"] if ops else [], "ops": ops}
    dl = new_local("isize")
    blk["stmts"].append(assign({"l": dl, "p": [], "ty": "isize"}, {"k": "discr", "place": copy.deepcopy(sp), "variants": variants}))
    unreach = new_block([], {"k": "unreachable", "span": span})
    targets = []
    for val, vname in variants:
        act = actions[vname]
        if act[0] == "call":
            tmp = new_local(rty)
            ret = {"k": "move", "place": {"l": tmp, "p": [], "ty": rty}}
            rv = agg(act[1], [ret]) if act[1] else {"k": "use", "op": ret}
            after = new_block([assign(dest, rv)], {"k": "goto", "target": target, "span": span})
            entry = new_block([], {"k": "call", "func": copy.deepcopy(cl), "args": [{"k": "move", "place": payload(vname)}],
                                   "dest": {"l": tmp, "p": [], "ty": rty}, "target": after, "unwind": None, "span": span})
            targets.append([val, entry])
        else:
            if act[0] == "unit":
                rv = agg(act[1], [])
            elif act[0] == "rewrap":
                rv = agg(act[1], [{"k": "move", "place": payload(vname)}])
            elif act[0] == "payload":
                rv = {"k": "use", "op": {"k": "move", "place": payload(vname)}}
            elif act[0] == "scrut":
                rv = {"k": "use", "op": {"k": "move", "place": copy.deepcopy(sp)}}
            else:
                rv = {"k": "use", "op": {"k": "const", "ty": "bool", "bits": act[1]}}
            targets.append([val, new_block([assign(dest, rv)], {"k": "goto", "target": target, "span": span})])
    nm = cl["fn"].get("res") or cl["fn"].get("def")
    blk["term"] = {"k": "switch", "discr": {"k": "move", "place": {"l": dl, "p": [], "ty": "isize"}}, "targets": targets,
                   "otherwise": unreach, "span": span, "inlined": f["fn"].get("def") + " with fn " + nm}
    stats["fn-item:" + nm] = stats.get("fn-item:" + nm, 0) + 1
    return True


def expand_combinator(b, i, closures, stats):
    blk = b["blocks"][i]
    t = blk["term"]
    f = t["func"]
    if not (f["k"] == "const" and "fn" in f):
        return False
    spec = COMBINATORS.get(f["fn"].get("def"))
    if spec is None or t["target"] is None:
        return False
    variants, cpos, actions, pidx = spec
    if len(t["args"]) <= cpos:
        return False
    scrut, cl = t["args"][0], t["args"][cpos]
    if scrut["k"] in ("copy", "move") and cl["k"] == "const" and (cl.get("fn") or {}).get("res_local"):
        return _expand_combinator_fn_item(b, i, spec, stats)
    if scrut["k"] not in ("copy", "move") or cl["k"] != "move" or cl["place"]["p"]:
        return False
    cd = _closure_def(b, cl["place"]["l"])
    if cd is None or cd[0] not in closures:
        return False
    c = closures[cd[0]]
    if len(b["blocks"]) + len(c["blocks"]) + 8 > MAX_BLOCKS:
        return False
    span = t["span"]
    dest, target = t["dest"], t["target"]
    def_args = f["fn"].get("def_args") or []
    out_adt = dest["ty"].split("<")[0]
    sp = scrut["place"]
    cplace = cl["place"]
    env_by_ref = c["locals"][1].startswith("&")

    def new_local(ty):
        b["locals"].append(ty)
        return len(b["locals"]) - 1

    def new_block(stmts, term):
        b["blocks"].append({"stmts": stmts, "term": term, "cleanup": False})
        return len(b["blocks"]) - 1

    def payload(vname):
        vi = [int(v) for v, n in variants if n == vname][0]
        ty = def_args[pidx[vname]] if vname in pidx and pidx[vname] < len(def_args) else "?"
        return {"l": sp["l"], "p": list(sp["p"]) + [{"k": "downcast", "variant": vname, "idx": vi},
                                                    {"k": "field", "i": 0, "name": "0", "ty": ty}], "ty": ty}

    def assign(place, rv):
        return {"k": "assign", "place": copy.deepcopy(place), "rv": rv, "span": span}

    def agg(variant, ops):
        return {"k": "aggregate", "agg": "adt", "adt": out_adt, "adt_args": [], "variant": variant,
                "fields": ["0"] if ops else [], "ops": ops}

    def drop_closure_then(tgt):
        return new_block([], {"k": "drop", "place": copy.deepcopy(cplace), "needs_drop": True, "target": tgt, "unwind": None, "span": span})

    dl = new_local("isize")
    blk["stmts"].append(assign({"l": dl, "p": [], "ty": "isize"}, {"k": "discr", "place": copy.deepcopy(sp), "variants": variants}))
    unreach = new_block([], {"k": "unreachable", "span": span})
    targets = []
    for val, vname in variants:
        act = actions[vname]
        if act[0] in ("call", "call0"):
            loff = len(b["locals"])
            b["locals"].extend(c["locals"])
            pre = []
            envp = {"l": loff + 1, "p": [], "ty": c["locals"][1]}
            if env_by_ref:
                pre.append(assign(envp, {"k": "ref", "mut": c["locals"][1].startswith("&mut"), "place": copy.deepcopy(cplace)}))
            else:
                pre.append(assign(envp, {"k": "use", "op": {"k": "move", "place": copy.deepcopy(cplace)}}))
            if act[0] == "call" and c["arg_count"] >= 2:
                pre.append(assign({"l": loff + 2, "p": [], "ty": c["locals"][2]}, {"k": "use", "op": {"k": "move", "place": payload(vname)}}))
            after = drop_closure_then(target) if env_by_ref else target
            for act2 in actions.values():
                if act2[0] == "argval" and t["args"][act2[1]]["k"] == "move":
                    # the unused default value is dropped in the arm that calls the closure
                    after = new_block([], {"k": "drop", "place": copy.deepcopy(t["args"][act2[1]]["place"]), "needs_drop": True,
                                           "target": after, "unwind": None, "span": span})
            boff = len(b["blocks"]) + 1
            entry = new_block(pre, {"k": "goto", "target": boff, "span": span})
            assert entry == boff - 1
            for cblk in c["blocks"]:
                nb = copy.deepcopy(cblk)
                _remap_block(nb, loff, boff)
                ct = nb["term"]
                if ct["k"] == "return":
                    ret = {"k": "move", "place": {"l": loff, "p": [], "ty": c["locals"][0]}}
                    rv = agg(act[1], [ret]) if act[1] else {"k": "use", "op": ret}
                    nb["stmts"].append(assign(dest, rv))
                    nb["term"] = {"k": "goto", "target": after, "span": ct["span"]}
                b["blocks"].append(nb)
            targets.append([val, entry])
        else:
            if act[0] == "unit":
                rv = agg(act[1], [])
            elif act[0] == "rewrap":
                rv = agg(act[1], [{"k": "move", "place": payload(vname)}])
            elif act[0] == "payload":
                rv = {"k": "use", "op": {"k": "move", "place": payload(vname)}}
            elif act[0] == "scrut":
                rv = {"k": "use", "op": {"k": "move", "place": copy.deepcopy(sp)}}
            elif act[0] == "argval":
                rv = {"k": "use", "op": copy.deepcopy(t["args"][act[1]])}
            else:
                rv = {"k": "use", "op": {"k": "const", "ty": "bool", "bits": act[1]}}
            after = drop_closure_then(target)
            targets.append([val, new_block([assign(dest, rv)], {"k": "goto", "target": after, "span": span})])
    blk["term"] = {"k": "switch", "discr": {"k": "move", "place": {"l": dl, "p": [], "ty": "isize"}}, "targets": targets,
                   "otherwise": unreach, "span": span, "inlined": f["fn"].get("def") + " with " + cd[0]}
    stats[cd[0]] = stats.get(cd[0], 0) + 1
    return True



# ---------------------------------------------------------------------------------------------------------------
# Higher-order helpers: a closure C that captures a callable which, at the place where C is built, is itself a closure
# K of this crate (`try_push_at(q, fut, || claim_back(ctr))` with `|data| Wrapper { data, index: claim() }` inside the
# inlined helper).  C is copied per construction site and the calls it makes through that capture become K's body, so
# the copy reads like the closure a developer would have written by hand at that site.

def _trace_capture(c, local):
    """Follow plain moves / (re)borrows from `local` in closure body c back to a capture field: (*_1).k / *(*_1).k -> k."""
    for _ in range(8):
        s_ = _single_assign(c, local)
        if s_ is None:
            return None
        rv = s_["rv"]
        pl = None
        if rv["k"] == "use" and rv["op"]["k"] in ("move", "copy"):
            pl = rv["op"]["place"]
        elif rv["k"] == "ref":
            pl = rv["place"]
        if pl is None:
            return None
        if pl["l"] == 1:
            ks = [e for e in pl["p"] if e["k"] == "field"]
            if len(ks) == 1 and all(e["k"] in ("deref", "field") for e in pl["p"]):
                return ks[0]["i"]
            return None
        if [e["k"] for e in pl["p"]] in ([], ["deref"]):
            local = pl["l"]
        else:
            return None
    return None


def _inline_known_closure_call(c, i, kbody, stats):
    """In closure body c, block i calls through a capture that is known to be closure kbody: splice kbody in (self
    parameter := the call's own receiver operand)."""
    blk = c["blocks"][i]
    t = blk["term"]
    if t["target"] is None or len(t["args"]) != 2 or len(c["blocks"]) + len(kbody["blocks"]) + 4 > MAX_BLOCKS:
        return False
    span = t["span"]
    dest, target, tup = t["dest"], t["target"], t["args"][1]
    loff = len(c["locals"])
    c["locals"].extend(kbody["locals"])

    def assign(place, rv):
        return {"k": "assign", "place": copy.deepcopy(place), "rv": rv, "span": span}
    pre = [assign({"l": loff + 1, "p": [], "ty": kbody["locals"][1]}, {"k": "use", "op": copy.deepcopy(t["args"][0])})]
    for k in range(2, kbody["arg_count"] + 1):
        if tup["k"] not in ("move", "copy"):
            return False
        fld = {"l": tup["place"]["l"], "p": list(tup["place"]["p"]) + [{"k": "field", "i": k - 2, "name": str(k - 2), "ty": kbody["locals"][k]}], "ty": kbody["locals"][k]}
        pre.append(assign({"l": loff + k, "p": [], "ty": kbody["locals"][k]}, {"k": "use", "op": {"k": "move", "place": fld}}))
    blk["stmts"].extend(pre)
    boff = len(c["blocks"])
    direct = not dest["p"]
    for cblk in kbody["blocks"]:
        nb = copy.deepcopy(cblk)
        _remap_block(nb, loff, boff)
        if direct:
            _subst_local(nb, loff, dest["l"])
        ct = nb["term"]
        if ct["k"] == "return":
            if not direct:
                nb["stmts"].append(assign(dest, {"k": "use", "op": {"k": "move", "place": {"l": loff, "p": [], "ty": kbody["locals"][0]}}}))
            nb["term"] = {"k": "goto", "target": target, "span": ct["span"]}
        c["blocks"].append(nb)
    blk["term"] = {"k": "goto", "target": boff, "span": span, "inlined": "captured closure " + kbody["path"]}
    stats[kbody["path"]] = stats.get(kbody["path"], 0) + 1
    return True



def _trace_const_capture(f, local):
    """The capture operand `local` of body f is (a borrow / copy of) a local whose only definition is a field-less enum variant
    or a constant: (rvalue json, value type).  Else None."""
    for _ in range(8):
        s_ = _single_assign(f, local)
        if s_ is None:
            return None
        rv = s_["rv"]
        if rv["k"] == "aggregate" and rv.get("agg") == "adt" and not rv.get("ops"):
            return copy.deepcopy(rv), s_["place"]["ty"]
        if rv["k"] == "use" and rv["op"]["k"] == "const":
            return copy.deepcopy(rv), s_["place"]["ty"]
        if rv["k"] == "use" and rv["op"]["k"] in ("move", "copy") and not rv["op"]["place"]["p"]:
            local = rv["op"]["place"]["l"]
        elif rv["k"] == "ref" and not rv["place"]["p"]:
            local = rv["place"]["l"]
        else:
            return None
    return None


def _rewrite_capture_reads(c, k, new_local):
    """Every place of closure body c that starts with (*_1).k is re-rooted at new_local."""
    def fix(p):
        if p["l"] == 1 and len(p["p"]) >= 2 and p["p"][0]["k"] == "deref" and p["p"][1]["k"] == "field" and p["p"][1]["i"] == k:
            p["l"] = new_local
            p["p"] = p["p"][2:]

    def op(o):
        if o["k"] in ("copy", "move"):
            fix(o["place"])

    def rv(r):
        kk = r["k"]
        if kk in ("use", "cast", "repeat"):
            op(r["op"])
        elif kk in ("ref", "rawptr", "discr"):
            fix(r["place"])
        elif kk == "binop":
            op(r["a"])
            op(r["b"])
        elif kk == "unop":
            op(r["op"] if "op" in r and isinstance(r["op"], dict) else r.get("a", {"k": "const"}))
        elif kk == "aggregate":
            for o in r["ops"]:
                op(o)
    for blk in c["blocks"]:
        for s_ in blk["stmts"]:
            if s_["k"] == "assign":
                fix(s_["place"])
                rv(s_["rv"])
        t = blk["term"]
        if t["k"] in ("call", "tailcall"):
            for a in t["args"]:
                op(a)
            if "dest" in t:
                fix(t["dest"])
        elif t["k"] == "switch":
            op(t["discr"])
        elif t["k"] == "drop":
            fix(t["place"])


def _fold_known_switches(c):
    """switch on the discriminant of a place that is known, from this body alone, to hold one variant: a local built once as that
    variant (or a copy of it, or read through a shared borrow of it), or a field of a struct literal built once in this body.
    The terminator becomes a goto to the arm of that variant."""
    # a local that is borrowed mutably (or whose address is taken) may be rewritten through that borrow
    mut_borrowed = set()
    for blk in c["blocks"]:
        for s_ in blk["stmts"]:
            if s_["k"] == "assign" and ((s_["rv"]["k"] == "ref" and s_["rv"].get("mut")) or s_["rv"]["k"] == "rawptr"):
                mut_borrowed.add(s_["rv"]["place"]["l"])

    def referent(local):
        """local is (a copy of) `&x` for a plain local x -> x"""
        r_ = _single_assign(c, local)
        while r_ is not None and r_["rv"]["k"] == "use" and r_["rv"]["op"]["k"] in ("move", "copy") and not r_["rv"]["op"]["place"]["p"]:
            r_ = _single_assign(c, r_["rv"]["op"]["place"]["l"])
        if r_ is not None and r_["rv"]["k"] == "ref" and not r_["rv"]["place"]["p"] and not r_["rv"].get("mut"):
            return r_["rv"]["place"]["l"]
        return None

    def place_variant(pl, depth=0):
        if depth > 8:
            return None
        kinds = [e["k"] for e in pl["p"]]
        if not kinds:
            return variant_of(pl["l"], depth + 1)
        if kinds == ["deref"]:
            x = referent(pl["l"])
            return variant_of(x, depth + 1) if x is not None else None
        if kinds in (["field"], ["deref", "field"]):
            base = pl["l"]
            if kinds[0] == "deref":
                base = referent(base)
                if base is None:
                    return None
            a_ = _single_assign(c, base)
            while a_ is not None and a_["rv"]["k"] == "use" and a_["rv"]["op"]["k"] in ("move", "copy") and not a_["rv"]["op"]["place"]["p"] \
                    and base not in mut_borrowed:
                base = a_["rv"]["op"]["place"]["l"]
                a_ = _single_assign(c, base)
            if a_ is None or base in mut_borrowed or a_["rv"]["k"] != "aggregate" or a_["rv"].get("agg") != "adt":
                return None
            fi = pl["p"][-1]["i"]
            ops_ = a_["rv"].get("ops") or []
            if fi < len(ops_):
                o_ = ops_[fi]
                if o_["k"] == "const" and o_.get("variant"):
                    return o_["variant"]
                if o_["k"] in ("move", "copy"):
                    return place_variant(o_["place"], depth + 1)
        return None

    def variant_of(local, depth=0):
        if depth > 8:
            return None
        s_ = _single_assign(c, local)
        if s_ is None or local in mut_borrowed:
            return None
        rv = s_["rv"]
        if rv["k"] == "aggregate" and rv.get("agg") == "adt" and rv.get("variant") is not None and _is_enum_variant(rv):
            return rv["variant"]                # built as this variant (with or without payload) and never rewritten
        if rv["k"] == "use" and rv["op"]["k"] == "const" and rv["op"].get("variant"):
            return rv["op"]["variant"]          # a field-less enum constant passed directly (`try_push_at(End::Back, ..)`)
        if rv["k"] == "use" and rv["op"]["k"] in ("move", "copy"):
            return place_variant(rv["op"]["place"], depth + 1)
        return None
    n = 0
    for blk in c["blocks"]:
        t = blk["term"]
        if t["k"] != "switch" or t["discr"]["k"] not in ("move", "copy") or t["discr"]["place"]["p"]:
            continue
        d = _single_assign(c, t["discr"]["place"]["l"])
        if d is not None and d["rv"]["k"] == "use" and d["rv"]["op"]["k"] == "const" and "bits" in d["rv"]["op"] \
                and t["discr"]["place"]["l"] not in mut_borrowed and t["discr"]["place"]["l"] > c["arg_count"]:
            # the switched local has one definition left and it is a constant (`matches!(end, End::Back)` after the match on the
            # known `end` was folded and its dead arm emptied)
            bits = str(d["rv"]["op"]["bits"])
            tgt = None
            for tv, tb in t["targets"]:
                if str(tv) == bits:
                    tgt = tb
            if tgt is None:
                tgt = t["otherwise"]
            blk["term"] = {"k": "goto", "target": tgt, "span": t["span"], "folded": "constant " + bits}
            n += 1
            continue
        if d is None or d["rv"]["k"] != "discr":
            continue
        v = place_variant(d["rv"]["place"])
        if v is None:
            continue
        val = [x[0] for x in d["rv"]["variants"] if x[1] == v]
        if not val:
            continue
        tgt = None
        for tv, tb in t["targets"]:
            if str(tv) == str(val[0]):
                tgt = tb
        if tgt is None:
            tgt = t["otherwise"]
        blk["term"] = {"k": "goto", "target": tgt, "span": t["span"], "folded": "discriminant known: " + v}
        n += 1
    return n


def _is_enum_variant(rv):
    """the aggregate names a variant of an enum (struct literals carry their own name as `variant`)"""
    adt = rv.get("adt") or ""
    return rv.get("variant") != adt.rsplit("::", 1)[-1] or adt.startswith("core::option::") or adt.startswith("core::result::")



def _succs_json(t):
    out = []
    for key in ("target", "unwind", "otherwise", "real_target", "cleanup"):
        v = t.get(key)
        if isinstance(v, int):
            out.append(v)
    for tv in t.get("targets", []) or []:
        if isinstance(tv, (list, tuple)) and len(tv) == 2 and isinstance(tv[1], int):
            out.append(tv[1])
        elif isinstance(tv, int):
            out.append(tv)
    return out


def _prune_unreachable(c):
    """Blocks no longer reachable from the entry (after a switch was folded) lose their statements: the definitions they held
    must not count as definitions of the locals any more."""
    seen = set()
    work = [0]
    while work:
        x = work.pop()
        if x in seen or x >= len(c["blocks"]):
            continue
        seen.add(x)
        work.extend(_succs_json(c["blocks"][x]["term"]))
    for i, blk in enumerate(c["blocks"]):
        if i not in seen:
            blk["stmts"] = []
            blk["term"] = {"k": "unreachable", "span": blk["term"]["span"]}


def specialise_closures(j, helpers, helper_bodies):
    """See above.  Returns {original closure path: number of specialised copies}."""
    closures = {}
    for b in j["bodies"]:
        if b["kind"] == "Closure" and b["promoted"] is None:
            closures.setdefault(b["path"], b)
    originals = {p: copy.deepcopy(b) for p, b in closures.items()}
    made = {}
    stats = {}
    new_bodies = []
    for f in list(j["bodies"]):
        if f["kind"] not in ("Fn", "AssocFn", "Closure") or f["promoted"] is not None:
            continue
        for blk in f["blocks"]:
            for s_ in blk["stmts"]:
                rv = s_.get("rv") if s_["k"] == "assign" else None
                if not (rv and rv["k"] == "aggregate" and rv.get("agg") == "closure" and rv["closure"] in originals):
                    continue
                cpath = rv["closure"]
                known = {}
                for k, o in enumerate(rv["ops"]):
                    if o["k"] in ("move", "copy") and not o["place"]["p"]:
                        kl = _trace_closure_local(f, o["place"]["l"])
                        cd = _closure_def(f, kl) if kl is not None else None
                        if cd is not None and cd[0] in originals and cd[0] != cpath:
                            known[k] = cd[0]
                consts = {}
                for k, o in enumerate(rv["ops"]):
                    if k not in known and o["k"] in ("move", "copy") and not o["place"]["p"]:
                        tc = _trace_const_capture(f, o["place"]["l"])
                        if tc is not None:
                            consts[k] = (tc[0], tc[1], o["place"]["ty"])
                if not known and not consts:
                    continue
                c = copy.deepcopy(originals[cpath])
                hit = False
                for k, (crv, vty, capty) in consts.items():
                    nl = len(c["locals"])
                    c["locals"].append(vty)
                    pre = [{"k": "assign", "place": {"l": nl, "p": [], "ty": vty}, "rv": crv, "span": c["blocks"][0]["term"]["span"]}]
                    root = nl
                    if capty.startswith("&"):
                        c["locals"].append(capty)
                        pre.append({"k": "assign", "place": {"l": nl + 1, "p": [], "ty": capty},
                                    "rv": {"k": "ref", "mut": capty.startswith("&mut"), "place": {"l": nl, "p": [], "ty": vty}},
                                    "span": c["blocks"][0]["term"]["span"]})
                        root = nl + 1
                    _rewrite_capture_reads(c, k, root)
                    c["blocks"][0]["stmts"] = pre + c["blocks"][0]["stmts"]
                if consts:
                    for _round in range(4):
                        if not _fold_known_switches(c):
                            break
                        _prune_unreachable(c)
                        hit = True
                changed = True
                rounds = 0
                while changed and rounds < 4:
                    changed = False
                    rounds += 1
                    for i in range(len(c["blocks"])):
                        t = c["blocks"][i]["term"]
                        if t["k"] != "call" or c["blocks"][i]["cleanup"]:
                            continue
                        fn = t["func"]
                        if not (fn["k"] == "const" and "fn" in fn and fn["fn"].get("def") in (
                                "core::ops::FnOnce::call_once", "core::ops::FnMut::call_mut", "core::ops::Fn::call")):
                            continue
                        a0 = t["args"][0] if t["args"] else None
                        if not (a0 and a0["k"] in ("move", "copy") and not a0["place"]["p"]):
                            continue
                        k = _trace_capture(c, a0["place"]["l"])
                        if k in known and _inline_known_closure_call(c, i, originals[known[k]], stats):
                            hit = changed = True
                if not hit:
                    continue
                # helper calls that came in with K's body (K's own private helpers)
                inline_body(c, helpers, helper_bodies, {})
                made[cpath] = made.get(cpath, 0) + 1
                c["path"] = "%s@%s#%d" % (cpath, f["path"], made[cpath])
                c["parent_fn"] = f["path"]
                c["specialised_from"] = cpath
                rv["closure"] = c["path"]
                new_bodies.append(c)
    j["bodies"].extend(new_bodies)
    return made, stats


def expand_combinators(j):
    """Expand std-combinator calls taking a crate closure in every function body.  Returns
    {closure path: number of expanded call sites}."""
    closures = {}
    for b in j["bodies"]:
        if b["kind"] == "Closure" and b["promoted"] is None:
            closures.setdefault(b["path"], b)
    originals = {p: copy.deepcopy(b) for p, b in closures.items()}
    stats = {}
    for b in j["bodies"]:
        if b["kind"] not in ("Fn", "AssocFn", "Closure") or b["promoted"] is not None:
            continue
        changed = True
        rounds = 0
        while changed and rounds < 6:
            changed = False
            rounds += 1
            for i in range(len(b["blocks"])):
                blk = b["blocks"][i]
                if blk["term"]["k"] == "call" and not blk["cleanup"]:
                    if expand_combinator(b, i, originals, stats) or expand_value_combinator(b, i, stats) or expand_for_each(b, i, originals, stats) or expand_closure_call(b, i, originals, stats):
                        changed = True
    # a closure is analysed in place only when every construction of it feeds an expanded call
    built = {}
    for b in j["bodies"]:
        for blk in b["blocks"]:
            for s in blk["stmts"]:
                if s["k"] == "assign" and s["rv"]["k"] == "aggregate" and s["rv"].get("agg") == "closure":
                    built[s["rv"]["closure"]] = built.get(s["rv"]["closure"], 0) + 1
    remaining_uses = {}
    for b in j["bodies"]:
        for blk in b["blocks"]:
            t = blk["term"]
            if t["k"] in ("call", "tailcall"):
                for a in t["args"]:
                    if a["k"] in ("move", "copy") and a["place"]["ty"].startswith("{closure@"):
                        cd = _closure_def(b, a["place"]["l"]) if not a["place"]["p"] else None
                        if cd:
                            remaining_uses[cd[0]] = remaining_uses.get(cd[0], 0) + 1
    fully = sorted(p for p in stats if not p.startswith("<value>") and not p.startswith("fn-item:") and remaining_uses.get(p, 0) == 0)
    return stats, fully


def _only_captured(j, cpath):
    """Every value of closure cpath is only ever captured by specialised closures (never passed to a call)."""
    for b in j["bodies"]:
        for blk in b["blocks"]:
            t = blk["term"]
            if t["k"] in ("call", "tailcall"):
                for a in t["args"]:
                    if a["k"] in ("move", "copy") and not a["place"]["p"]:
                        kl = _trace_closure_local(b, a["place"]["l"])
                        cd = _closure_def(b, kl) if kl is not None else None
                        if cd and cd[0] == cpath:
                            return False
    return True


def inline_facts(j):
    """Inline helper calls in all function bodies of the fact JSON (in place).  Returns (helpers, stats)."""
    global IMPLS, GENERICS, TYPES
    TYPES = j.get("types", {})
    IMPLS = j.get("impls", [])
    GENERICS = {f_["path"]: f_.get("generics") or [] for f_ in j.get("fns", [])}
    helpers, bodies = helper_set(j)
    originals = {p: copy.deepcopy(b) for p, b in bodies.items() if p in helpers}
    stats = {}
    for b in j["bodies"]:
        if b["kind"] in ("Fn", "AssocFn", "Closure") and b["promoted"] is None:
            n0 = len(b["blocks"])
            inline_body(b, helpers, originals, stats)
            # a helper that branches on a field-less enum argument (`Stop::Backlog.pending(cx)`), read at a site that passes a
            # constant, does what that constant selects
            if len(b["blocks"]) != n0:
                for _round in range(4):
                    if not _fold_known_switches(b):
                        break
                    _prune_unreachable(b)
    # helpers with no remaining direct call are analysed in place only
    remaining = set()
    for b in j["bodies"]:
        for blk in b["blocks"]:
            t = blk["term"]
            if t["k"] in ("call", "tailcall"):
                nm = _callee_name(t)
                if nm in helpers and b["path"] not in helpers:
                    remaining.add(nm)
    fully = sorted(h for h in helpers if h in stats and h not in remaining)
    made, kstats = specialise_closures(j, helpers, originals)
    # a closure every construction of which was replaced by a specialised copy is no longer built anywhere
    still_built = set()
    for b in j["bodies"]:
        if b["path"] in fully:
            continue          # a helper that only lives on inside its callers
        for blk in b["blocks"]:
            for s_ in blk["stmts"]:
                if s_["k"] == "assign" and s_["rv"]["k"] == "aggregate" and s_["rv"].get("agg") == "closure":
                    still_built.add(s_["rv"]["closure"])
    fully += sorted(p for p in made if p not in still_built)
    cstats, cfully = expand_combinators(j)
    if any(k_.startswith("fn-item:") for k_ in cstats):
        # a combinator was expanded with a function item of this crate as its callable: that call is a direct call now
        for b in j["bodies"]:
            if b["kind"] in ("Fn", "AssocFn", "Closure") and b["promoted"] is None:
                inline_body(b, helpers, originals, stats)
        remaining = set()
        for b in j["bodies"]:
            for blk in b["blocks"]:
                t = blk["term"]
                if t["k"] in ("call", "tailcall"):
                    nm = _callee_name(t)
                    if nm in helpers and b["path"] not in helpers:
                        remaining.add(nm)
                for a in (t.get("args") or []) if t["k"] in ("call", "tailcall") else []:
                    if a["k"] == "const" and (a.get("fn") or {}).get("res") in helpers:
                        remaining.add(a["fn"]["res"])      # still handed to something as a value
        fully = sorted(set(fully) | {h for h in helpers if h in stats and h not in remaining})
    for p_, n_ in kstats.items():
        cstats[p_] = cstats.get(p_, 0) + n_
    # closures that were spliced into specialised copies and are not handed to anything else
    cfully = sorted(set(cfully) | {p_ for p_ in kstats if p_ in still_built and _only_captured(j, p_)})
    j["inlined_helpers"] = {"helpers": sorted(helpers), "call_sites_inlined": stats, "fully_inlined": fully + cfully,
                            "combinator_closures": cstats}
    return helpers, stats
