#!/usr/bin/env python3
"""Developer tool: extract facts of /repo + a patch (benign/<name> or seeded/<name>) into /tmp/df_<name>.json."""
import os, shutil, subprocess, sys
sys.path.insert(0, os.path.dirname(os.path.abspath(__file__)))
import mutants, extract
for name in sys.argv[1:]:
    d = None
    for base in ("/verif/benign/", "/verif/seeded/", "/verif/additive_twins/", "/verif/benign_limits/"):
        if os.path.exists(base + name + "/patch.diff"):
            d = base + name
    root = "/tmp/df_repo_" + name
    shutil.rmtree(root, ignore_errors=True)
    os.makedirs(root)
    mutants.copy_tree("/repo", root)
    r = subprocess.run(["patch", "-p1", "-i", d + "/patch.diff"], cwd=root, capture_output=True, text=True)
    f, s = extract.extract(root)
    shutil.copy(f, "/tmp/df_%s.json" % name)
    shutil.rmtree(s)
    shutil.rmtree(root)
    print("/tmp/df_%s.json" % name)
