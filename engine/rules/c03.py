"""C03 -- shared waker state: reference-count protocol, orderings, alloc/free pairing, pointer arithmetic,
single-consumer discipline, thread-safety surface."""
import re

from framework import AnchorLost
from lib_facts import place_str, fn_name, callee_matches
from lib_flow import (strip_refs, expr_calls, expr_str, variant_facts, feasible_cfg, enumerate_paths, flag_search)
from lib_inter import returned_exprs
from lib_drops import live_drops
from roles import roles, direct_sites, callee_body, reaches, sites, RE_DW_REGISTER, RE_ENQUEUE
from c01 import _site_label, d_loc, _closure

EXPLANATION = (
    "Static decision of the protocol shape of the shared waker allocation: R3.1 per vtable entry the strong count is "
    "incremented / decremented the right number of times on every path (clone: +1 exactly once and returns the same data "
    "pointer + same vtable; drop and WakerList::drop: -1 exactly once and free exactly on the 'was last' edge; wake_by_ref: "
    "neither; wake = wake_by_ref then drop; constructor stores 1); R3.2 the waker handed to children is ManuallyDrop from "
    "creation and no owning Waker is dropped on a normal path anywhere in the crate; R3.3 orderings are at least "
    "(inc Relaxed, dec Release, Acquire fence or AcqRel/SeqCst RMW before reporting 'last'); R3.4 alloc only in the "
    "constructor, dealloc only in the free function, the free function only called on the 'was last' edge from the two "
    "release sites, both layouts come from the same layout function applied to the capacity / the header's len field "
    "which is written once from that capacity, drop_in_place precedes dealloc; R3.5 header-pointer arithmetic agreement "
    "(item k is written at slice+k with index k, stub at slice+cap with index cap and handed to the queue, loop over "
    "0..cap, meta_raw subtracts index items then the same offset helper, layout multiplies by cap+1); R3.6 dequeue and "
    "task-waker registration are reachable only through &mut receivers up to the public API, no Clone/Copy of the "
    "collections, WakerList built only by its constructor; R3.7 vtable functions are non-generic, unsafe Send/Sync impls "
    "exist only for WakerList. NOT decided: data-race freedom as a whole-program fact, dependency internals.")
WITNESSES = "quick"  # E3 compile_fail witnesses (tier in which they run)
ASSUMPTIONS = [
    "dev-profile MIR at mir-opt-level=0 represents the source",
    "cordyceps::MpscQueue / diatomic_waker::DiatomicWaker / spin::SpinMutex are themselves race-free as documented",
    "Waker::from_raw / RawWakerVTable contract of core",
]

ORD_RANK = {"Relaxed": 0, "Release": 1, "Acquire": 1, "AcqRel": 2, "SeqCst": 3}


def ordering_of(expr):
    if expr[0] == "agg" and expr[1].startswith("core::sync::atomic::Ordering::"):
        return expr[1].split("::")[-1]
    if expr[0] == "const" and expr[1] == "core::sync::atomic::Ordering":
        return expr[2]
    return None


def rc_fns(ctx):
    inc = [b for b in ctx.facts.fn_bodies() if direct_sites(b, r"core::sync::atomic::Atomic.*::fetch_add$")]
    dec = [b for b in ctx.facts.fn_bodies() if direct_sites(b, r"core::sync::atomic::Atomic.*::fetch_sub$")]
    return inc, dec


def _path_allowed(fl, p, known):
    """The path does not take an arm of a match on parameter k that contradicts known[k] (the variant the caller passes)."""
    if not known:
        return True
    for a, b2 in zip(p, p[1:]):
        for lab in fl.edge_labels(a).get(b2, []):
            if lab[0] not in ("variant", "notvariants"):
                continue
            x = strip_refs(lab[1])
            if x[0] == "param" and x[1] in known:
                if lab[0] == "variant" and lab[2] != known[x[1]]:
                    return False
                if lab[0] == "notvariants" and known[x[1]] in lab[2]:
                    return False
    return True


def count_calls_on_paths(ctx, body, targets, depth=3, known=None):
    """For each feasible normal return path: number of call sites (transitively reaching any body in
    `targets` within depth) on it.  Returns list of counts (one per path) and the site blocks.
    A callee that is handed a field-less enum constant (`signal(waker, Handoff::Owned)`) is counted along the paths that
    constant selects (known = {parameter index: variant})."""
    tp = {t.path for t in targets}
    site_blocks = {}
    fl = ctx.flow(body)
    for bb, t, fn in body.calls():
        if fn is None or body.is_cleanup(bb):
            continue
        cb = callee_body(ctx.facts, fn)
        if cb is None:
            continue
        if cb.path in tp:
            site_blocks[bb] = 1
        elif depth > 0 and cb.path != body.path:
            kn = {}
            for k, a in enumerate(t["args"], start=1):
                ae = strip_refs(fl.operand_expr(a))
                if ae[0] == "agg" and not ae[2] and "::" in ae[1] and ae[1].rsplit("::", 1)[0] in ctx.facts.adts:
                    kn[k] = ae[1].rsplit("::", 1)[1]
            sub = count_calls_on_paths(ctx, cb, targets, depth - 1, kn)[0]
            if sub and max(sub) > 0:
                # callee contributes: require it to be path-uniform to give a number
                site_blocks[bb] = sub[0] if len(set(sub)) == 1 else -999
    succ, _ = feasible_cfg(body, fl)
    counts = []
    for k, p in enumerate_paths(body, succ):
        if k != "return":
            continue
        if not _path_allowed(fl, p, known):
            continue
        counts.append(sum(site_blocks.get(b, 0) for b in p))
    return counts, site_blocks


def true_edge_targets(ctx, body, call_bb):
    """Blocks entered on the 'true' edge of a switch on the bool result of the call at call_bb."""
    fl = ctx.flow(body)
    out = []
    for sb in range(body.n):
        for tgt, labs in fl.edge_labels(sb).items():
            for lab in labs:
                if lab[0] == "bool" and lab[2] is True and lab[1][0] == "call" and lab[1][3] == call_bb:
                    out.append(tgt)
    return out


def r3_1(ctx, R, inc, dec, free_fn):
    ctx.rule("R3.1", "reference-count protocol: VT[clone] +1 exactly once on every path, no -1, returns RawWaker(data = "
                     "its argument, same vtable static as the borrowed waker); VT[drop] / Drop for the list: -1 exactly "
                     "once, FREE exactly on the true edge of that decrement; VT[wake_by_ref]: neither; VT[wake]: "
                     "wake_by_ref then drop; constructor stores 1")
    vt = R.vt
    ci, _ = count_calls_on_paths(ctx, vt["clone"], inc)
    cd, _ = count_calls_on_paths(ctx, vt["clone"], dec)
    ctx.ob("R3.1", vt["clone"], "clone:+1-exactly-once", bool(ci) and set(ci) == {1} and set(cd) <= {0}, d_loc(vt["clone"]),
           "inc per path %s dec per path %s" % (ci, cd))
    fl = ctx.flow(vt["clone"])
    ok = False
    det = ""
    borrowed_vt = None
    for b in ctx.facts.fn_bodies():
        if direct_sites(b, r"core::task::Waker::from_raw$"):
            bf = ctx.flow(b)
            for bb, t, fn in direct_sites(b, r"core::task::RawWaker::new$"):
                borrowed_vt = bf.operand_expr(t["args"][1])
    for bb, e in returned_exprs(ctx, vt["clone"]):
        if e[0] == "call" and (e[1] or "").endswith("RawWaker::new"):
            data = strip_refs(e[2][0])
            ok = data[0] == "param" and e[2][1] == borrowed_vt
            det = "data=%s vtable=%s (borrowed waker vtable %s)" % (expr_str(data), expr_str(e[2][1]), expr_str(borrowed_vt) if borrowed_vt else None)
    ctx.ob("R3.1", vt["clone"], "clone:same-data-same-vtable", ok, d_loc(vt["clone"]), det)

    # release sites: every crate function that calls the decrement function directly
    releasers = []
    for b in ctx.facts.fn_bodies():
        if any(R.calls_to_body(b, d_) for d_ in dec):
            nm = "vt[drop]" if b.path == vt["drop"].path else ("vt[wake]" if b.path == vt["wake"].path else b.path.split("::")[-1] + ":" + b.path.split(" as ")[0].lstrip("<"))
            releasers.append((nm, b))
    ctx.floor("R3.1", "release-sites", len(releasers), 2)
    ctx.ob("R3.1", vt["drop"], "vt[drop]-is-a-release-site", any(b.path == vt["drop"].path for _, b in releasers) or
           set(count_calls_on_paths(ctx, vt["drop"], dec)[0]) == {1}, d_loc(vt["drop"]))
    entry_paths = {vt["drop"].path, vt["wake"].path, vt["wake_by_ref"].path, vt["clone"].path}
    for name, b in releasers:
        cdd, dsites = count_calls_on_paths(ctx, b, dec, depth=0)
        cii, _ = count_calls_on_paths(ctx, b, inc)
        shared_helper = b.path not in entry_paths and "core::ops::Drop" not in b.path and \
            all(cb_.path in entry_paths or "core::ops::Drop" in cb_.path for cb_, _ in R.callers_of(b)) and bool(R.callers_of(b))
        if shared_helper:
            # a helper shared by vtable entries that gives the reference up only for some of them (selected by a parameter):
            # at most one decrement per path here; the exact count is decided per vtable entry with the argument it passes
            ctx.ob("R3.1", b, "%s:-1-at-most-once(shared by vtable entries)" % name, bool(cdd) and set(cdd) <= {0, 1} and set(cii) <= {0}, d_loc(b),
                   "dec per path %s inc per path %s; callers %s" % (cdd, cii, [cb_.path for cb_, _ in R.callers_of(b)]))
        else:
            ctx.ob("R3.1", b, "%s:-1-exactly-once" % name, bool(cdd) and set(cdd) == {1} and set(cii) <= {0}, d_loc(b),
                   "dec per path %s inc per path %s" % (cdd, cii))
        frees = R.calls_to_body(b, free_fn)
        decsites = [bb for bb in dsites]
        ok = len(frees) == 1 and len(decsites) == 1
        det = "free sites %d dec sites %d" % (len(frees), len(decsites))
        if ok:
            tts = true_edge_targets(ctx, b, decsites[0])
            fb = frees[0][0]
            ok = any(b.dominates(t, fb) and len(b.pred[t]) == 1 for t in tts)
            ok = ok and all(b.must_pass(t, b.returns(), [fb]) for t in tts)
            det += "; free dominated by dec==true edge and must-pass: %s" % ok
        ctx.ob("R3.1", b, "%s:free-iff-last" % name, ok, d_loc(b), det)
    wi, _ = count_calls_on_paths(ctx, vt["wake_by_ref"], inc)
    wd, _ = count_calls_on_paths(ctx, vt["wake_by_ref"], dec)
    ctx.ob("R3.1", vt["wake_by_ref"], "wake_by_ref:no-count-change", set(wi) <= {0} and set(wd) <= {0}, d_loc(vt["wake_by_ref"]),
           "inc %s dec %s" % (wi, wd))
    w = vt["wake"]
    kd, _ = count_calls_on_paths(ctx, w, dec)
    ki, _ = count_calls_on_paths(ctx, w, inc)
    ctx.ob("R3.1", w, "wake(by value):-1-exactly-once-on-every-path", bool(kd) and set(kd) == {1} and set(ki) <= {0}, d_loc(w),
           "dec per path %s inc per path %s" % (kd, ki))
    # constructor stores 1
    ctor = alloc_fn(ctx)
    n1 = 0
    if ctor:
        cf = ctx.flow(ctor)
        for bb, t, fn in direct_sites(ctor, r"core::sync::atomic::Atomic.*::new$"):
            v = cf.operand_expr(t["args"][0])
            n1 += 1
            ctx.ob("R3.1", ctor, "constructor-count-starts-at-1", v[0] == "const" and v[2] == "1", ctor.loc(bb), expr_str(v))
    ctx.floor("R3.1", "count-initialisations", n1, 1)


def alloc_fn(ctx):
    c = [b for b in ctx.facts.fn_bodies() if direct_sites(b, r"^alloc::alloc::(alloc|alloc_zeroed)$")]
    return c[0] if len(c) == 1 else None


def is_waker(t):
    return t["k"] == "adt" and t["name"] == "core::task::Waker"


def r3_2(ctx, R):
    ctx.rule("R3.2", "borrowed wakers are never released: Waker::from_raw flows directly into ManuallyDrop::new; no crate "
                     "function has a live normal-path drop of an owning core::task::Waker; no ManuallyDrop::drop/take/into_inner")
    n = 0
    for b in ctx.facts.fn_bodies():
        fl = ctx.flow(b)
        for bb, t, fn in direct_sites(b, r"core::task::Waker::from_raw$"):
            n += 1
            uses = fl.uses_of_local(t["dest"]["l"]) if not t["dest"]["p"] else []
            ok = False
            # follow single moves
            cur = t["dest"]["l"]
            for _ in range(4):
                us = fl.uses_of_local(cur)
                if len(us) != 1:
                    break
                ub, ui, node = us[0]
                if ui == "term" and node["k"] == "call" and node["func"]["k"] == "const" and \
                        callee_matches(node["func"]["fn"], r"core::mem::ManuallyDrop::<.*>::new$"):
                    ok = True
                    break
                if ui != "term" and node["k"] == "assign" and node["rv"]["k"] == "use" and not node["place"]["p"]:
                    cur = node["place"]["l"]
                    continue
                break
            if t["dest"]["l"] == 0:
                ok = False
            ctx.ob("R3.2", b, "from_raw->ManuallyDrop::new@%s" % _site_label(b, bb), ok, b.loc(bb))
        lds = live_drops(ctx, b, is_waker)
        if lds:
            ctx.ob("R3.2", b, "no-live-waker-drop", False, b.loc(lds[0][0]), "drops %s" % [place_str(p) for _, p, _ in lds if p])
        for bb, t, fn in direct_sites(b, r"core::mem::ManuallyDrop::<.*>::(drop|take|into_inner)$"):
            ctx.ob("R3.2", b, "ManuallyDrop-release@%s" % _site_label(b, bb), False, b.loc(bb))
    ctx.floor("R3.2", "from_raw-sites", n, 1)
    ctx.ob("R3.2", "<crate>", "no-owning-waker-dropped-anywhere", True, "", "all %d function bodies scanned" % len(ctx.facts.fn_bodies()))


def r3_3(ctx, R, inc, dec):
    ctx.rule("R3.3", "minimal orderings: fetch_add >= Relaxed; fetch_sub in {Release, AcqRel, SeqCst}; every path of the "
                     "decrement function that returns 'was last' (true) passes an Acquire-or-stronger fence after the RMW, "
                     "or the RMW itself is AcqRel/SeqCst")
    for b in inc:
        fl = ctx.flow(b)
        for bb, t, fn in direct_sites(b, r"fetch_add$"):
            o = ordering_of(fl.operand_expr(t["args"][2]))
            ctx.ob("R3.3", b, "inc-ordering", o in ORD_RANK, b.loc(bb), "ordering %s" % o)
    for b in dec:
        fl = ctx.flow(b)
        for bb, t, fn in direct_sites(b, r"fetch_sub$"):
            o = ordering_of(fl.operand_expr(t["args"][2]))
            ctx.ob("R3.3", b, "dec-ordering>=Release", o in ("Release", "AcqRel", "SeqCst"), b.loc(bb), "ordering %s" % o)
            strong = o in ("AcqRel", "SeqCst")
            from lib_flow import sensitive_paths, PathEval, path_bool_labels
            fence_blocks = []
            for fb, ft, ffn in direct_sites(b, r"core::sync::atomic::fence$"):
                fo = ordering_of(fl.operand_expr(ft["args"][0]))
                if fo in ("Acquire", "AcqRel", "SeqCst"):
                    fence_blocks.append(fb)
            bad_acq = []
            bad_iff = []
            npaths = 0
            for kind, path, know in sensitive_paths(b, fl, 2):
                if kind != "return" or bb not in path:
                    continue
                npaths += 1
                pe = PathEval(b, path)
                ret = pe.local_expr(0)
                labels = path_bool_labels(b, pe, path)

                def is_old_eq_1(e):
                    """-> +1 if e is (old == 1), -1 if (old != 1), 0 otherwise; old = result of this RMW"""
                    if e[0] == "binop" and e[1] in ("Eq", "Ne"):
                        x, y = e[2], e[3]
                        for p_, q_ in ((x, y), (y, x)):
                            if p_[0] == "call" and p_[3] == bb and q_[0] == "const" and q_[2] == "1":
                                return 1 if e[1] == "Eq" else -1
                    return 0

                # truth of `old == 1` on this path, from the branches taken
                last = None
                for e_, v_ in labels:
                    s_ = is_old_eq_1(e_)
                    if s_:
                        last = v_ if s_ == 1 else (not v_)
                # value returned on this path
                if ret[0] == "const":
                    val = ret[2] == "1"
                else:
                    val = None
                    for e_, v_ in labels:
                        if e_ == ret:
                            val = v_
                    s_ = is_old_eq_1(ret)
                    if val is None and s_:
                        val = last if last is not None else "is-last-expr"
                        if s_ == -1 and isinstance(val, bool):
                            val = not val
                        if s_ == -1 and val == "is-last-expr":
                            val = "not-last-expr"
                may_be_true = val is True or val in (None, "is-last-expr")
                if may_be_true and not strong:
                    after = path[path.index(bb) + 1:]
                    if not any(f_ in after for f_ in fence_blocks):
                        bad_acq.append(path)
                ok_iff = (val == "is-last-expr") or (isinstance(val, bool) and last is not None and val == last)
                if not ok_iff:
                    bad_iff.append((path, val, last))
            ctx.ob("R3.3", b, "acquire-before-reporting-last", npaths > 0 and not bad_acq, b.loc(bb),
                   "rmw %s; %d return paths; paths that may report 'last' without an Acquire fence after the RMW: %d" % (o, npaths, len(bad_acq)),
                   path=bad_acq[0] if bad_acq else None)
            ctx.ob("R3.3", b, "last-iff-old==1", npaths > 0 and not bad_iff, b.loc(bb),
                   "value returned vs (old == 1) per path: %s" % [(v, l) for _, v, l in bad_iff[:3]])
    ctx.floor("R3.3", "rc-functions", len(inc) + len(dec), 2)


def r3_4(ctx, R, dec, free_fns, layout_fn):
    ctx.rule("R3.4", "who-may-alloc/free + same layout: alloc only in the constructor; dealloc only in FREE; FREE called only "
                     "from the release sites (R3.1); the Layout given to alloc / dealloc is LAYOUT(cap) / LAYOUT(capacity "
                     "parameter) with every FREE caller passing the header's len field, which the constructor writes from the "
                     "same cap; in FREE drop_in_place(header) dominates dealloc and nothing follows dealloc")
    ctor = alloc_fn(ctx)
    ctx.need(ctor is not None, "ALLOC: exactly one crate function calls alloc::alloc::alloc")
    ctx.need(len(free_fns) == 1, "FREE: exactly one crate function calls alloc::alloc::dealloc (found %d)" % len(free_fns))
    free = free_fns[0]
    cf = ctx.flow(ctor)
    for bb, t, fn in direct_sites(ctor, r"^alloc::alloc::alloc$"):
        lay = cf.operand_expr(t["args"][0])
        ok = lay[0] == "call" and lay[1] == layout_fn.path and strip_refs(lay[2][0])[0] == "param"
        ctx.ob("R3.4", ctor, "alloc-layout=LAYOUT(cap)", ok, ctor.loc(bb), expr_str(lay))
        cap_param = strip_refs(lay[2][0]) if ok else None
    ff = ctx.flow(free)
    dz = direct_sites(free, r"^alloc::alloc::dealloc$")
    for bb, t, fn in dz:
        lay = ff.operand_expr(t["args"][1])
        ptr = strip_refs(ff.operand_expr(t["args"][0]))
        ok = lay[0] == "call" and lay[1] == layout_fn.path and strip_refs(lay[2][0])[0] == "param"
        capi = strip_refs(lay[2][0])[1] if ok else None
        if not ok and lay[0] == "call" and lay[1] == layout_fn.path:
            # the capacity is read back from the header that is being freed: LAYOUT((*p).len) with p the freed pointer
            a_ = strip_refs(lay[2][0])
            root = ptr
            while root[0] == "call" and root[2] and re.search(r"::cast(_mut|_const)?$", root[1] or ""):
                root = strip_refs(root[2][0])
            if a_[0] == "proj" and a_[2] and a_[2][-1].startswith(".") and _is_header_len(ctx, ctor, a_[2][-1]) and \
                    strip_refs(a_[1]) == root and root[0] == "param":
                ok = True
        ctx.ob("R3.4", free, "dealloc-layout=LAYOUT(capacity-param)", ok, free.loc(bb), expr_str(lay))
        dips = direct_sites(free, r"core::ptr::drop_in_place$")
        okd = any(free.dominates(d[0], bb) and strip_refs(ff.operand_expr(d[1]["args"][0])) == ptr for d in dips)
        ctx.ob("R3.4", free, "drop_in_place-precedes-dealloc(same pointer)", okd, free.loc(bb))
        after = [x for x in free.reachable(bb) if x != bb and free.term(x)["k"] == "call"]
        ctx.ob("R3.4", free, "nothing-after-dealloc", not after, free.loc(bb), "calls after dealloc: %d" % len(after))
        # every caller passes header.len as that parameter (when the capacity is a parameter at all)
        for cb_, ss in (R.callers_of(free) if capi else []):
            cfl = ctx.flow(cb_)
            for sbb, st, sfn in ss:
                a = cfl.operand_expr(st["args"][capi - 1]) if capi else ("unknown",)
                okl = a[0] == "proj" and a[2][-1].startswith(".") and _is_header_len(ctx, ctor, a[2][-1])
                ctx.ob("R3.4", cb_, "free-called-with-header.len@%s" % _site_label(cb_, sbb), okl, cb_.loc(sbb), expr_str(a))
    allocers = [b.path for b in ctx.facts.fn_bodies() if direct_sites(b, r"^alloc::alloc::(alloc|alloc_zeroed|realloc)$")]
    ctx.ob("R3.4", "<crate>", "who-may-alloc", allocers == [ctor.path], "", str(allocers))
    deallocers = [b.path for b in ctx.facts.fn_bodies() if direct_sites(b, r"^alloc::alloc::dealloc$")]
    ctx.ob("R3.4", "<crate>", "who-may-dealloc", deallocers == [free.path], "", str(deallocers))
    callers = sorted(b.path for b, _ in R.callers_of(free))
    rel = sorted(b.path for b in ctx.facts.fn_bodies() if any(R.calls_to_body(b, d_) for d_ in dec))
    ctx.ob("R3.4", "<crate>", "who-may-free", set(callers) <= set(rel) and bool(callers), "", "callers %s release sites %s" % (callers, rel))


def _is_header_len(ctx, ctor, field):
    """`field` of the header struct is initialised in the constructor aggregate from the cap parameter."""
    cf = ctx.flow(ctor)
    for bb in range(ctor.n):
        for s in ctor.stmts(bb):
            if s["k"] == "assign" and s["rv"]["k"] == "aggregate" and s["rv"].get("agg") == "adt":
                names = s["rv"].get("fields", [])
                if field[1:] in names:
                    v = strip_refs(cf.operand_expr(s["rv"]["ops"][names.index(field[1:])]))
                    # written from the capacity parameter, and this aggregate also holds the atomic count
                    if v[0] == "param" and any("Atomic" in (cf.operand_expr(o)[1] or "") for o in s["rv"]["ops"] if cf.operand_expr(o)[0] == "call"):
                        return True
    return False


def _layout_types(ctx, layout_fn):
    """(header type, item type) as LAYOUT names them: Layout::new::<H>() is extended by a layout built from Layout::new::<I>()."""
    lf = ctx.flow(layout_fn)
    for bb, t, fn in direct_sites(layout_fn, r"core::alloc::Layout::extend$"):
        recv, nxt = strip_refs(lf.operand_expr(t["args"][0])), strip_refs(lf.operand_expr(t["args"][1]))
        hs = [c for c in ([recv] if recv[0] == "call" else []) + list(expr_calls(recv)) if (c[1] or "").endswith("Layout::new")]
        its = [c for c in ([nxt] if nxt[0] == "call" else []) + list(expr_calls(nxt)) if re.search(r"Layout::(new|array)$", c[1] or "")]
        if len(hs) == 1 and len({_site_type_arg(layout_fn, c[3]) for c in its}) == 1:
            return _site_type_arg(layout_fn, hs[0][3]), _site_type_arg(layout_fn, its[0][3])
    return None


class _NoOffsetModel(Exception):
    pass


def _site_type_arg(b, site):
    t = b.term(site)
    fn = (t.get("func") or {}).get("fn") or {}
    a = fn.get("def_args") or []
    return a[0] if a else None


_OFFSET_CTX = [None]


def _eval_offset(b, e, S, A, seen, env=None, depth=0):
    """Value of a byte-offset expression in a 16-bit wrapping model of usize where the size of the type whose size is asked is
    S and the alignment of the type whose alignment is asked is A; `seen` collects ("size"|"align", type)."""
    M = 0xFFFF
    e = strip_refs(e)

    ctx = _OFFSET_CTX[0]
    if depth > 6:
        raise _NoOffsetModel("depth")

    def ev(x):
        return _eval_offset(b, x, S, A, seen, env, depth)
    if e[0] == "param":
        if env is not None and e[1] in env:
            return env[e[1]]
        raise _NoOffsetModel("parameter")
    if e[0] == "const" and ctx is not None and len(e) > 3 and e[3] in ctx.facts.bodies:
        # a named constant / promoted: what its initialiser computes
        cb = ctx.facts.bodies[e[3]]
        return _eval_offset(cb, strip_refs(ctx.flow(cb).local_expr(0)), S, A, seen, None, depth + 1)
    if e[0] == "call" and ctx is not None and (e[1] or "") in ctx.facts.bodies and not re.search(r"^core::|^alloc::", e[1]):
        # a (const) helper of the crate: its result for these argument values
        cb = ctx.facts.bodies[e[1]]
        vals = {i + 1: ev(a_) for i, a_ in enumerate(e[2])}
        return _eval_offset(cb, strip_refs(ctx.flow(cb).local_expr(0)), S, A, seen, vals, depth + 1)
    if e[0] == "proj" and e[2] == (".0",) and e[1][0] == "binop" and e[1][1].endswith("WithOverflow"):
        e = ("binop", e[1][1].replace("WithOverflow", ""), e[1][2], e[1][3])
    if e[0] == "proj" and e[2] in (("@Some", ".0"), ("@Ok", ".0")) and e[1][0] == "call" and re.search(r"::checked_(add|sub|mul)$", e[1][1] or ""):
        nm = e[1][1].rsplit("_", 1)[1]
        return ev(("binop", {"add": "Add", "sub": "Sub", "mul": "Mul"}[nm], e[1][2][0], e[1][2][1]))
    if e[0] == "const":
        try:
            v = int(e[2])
        except (TypeError, ValueError):
            raise _NoOffsetModel("const")
        if v > 0x100:
            raise _NoOffsetModel("const %d" % v)
        return v
    if e[0] == "call":
        nm = e[1] or ""
        if re.search(r"core::mem::size_of$", nm):
            seen.add(("size", _site_type_arg(b, e[3])))
            return S
        if re.search(r"core::mem::align_of$", nm):
            seen.add(("align", _site_type_arg(b, e[3])))
            return A
        if re.search(r"core::alloc::Layout::(size|align)$", nm) and e[2]:
            l_ = strip_refs(e[2][0])
            while l_[0] == "proj" and l_[2] == ("*",):
                l_ = strip_refs(l_[1])
            lb = b
            if l_[0] == "const" and ctx is not None:
                # `Layout::new::<T>()` promoted to a constant / kept in a named constant
                nm_ = l_[3] if len(l_) > 3 else re.sub(r"::promoted\[(\d+)\]$", r"::{promoted#\1}", str(l_[2]))
                if nm_ in ctx.facts.bodies:
                    lb = ctx.facts.bodies[nm_]
                    l_ = strip_refs(ctx.flow(lb).local_expr(0))
            if l_[0] == "call" and re.search(r"core::alloc::Layout::new$", l_[1] or ""):
                kind = "size" if nm.endswith("size") else "align"
                seen.add((kind, _site_type_arg(lb, l_[3])))
                return S if kind == "size" else A
            raise _NoOffsetModel("layout of " + expr_str(l_)[:40])
        m = re.search(r"core::num::<impl usize>::(wrapping|saturating)_(add|sub|mul)$", nm)
        if m and len(e[2]) == 2:
            a, c = ev(e[2][0]), ev(e[2][1])
            r = {"add": a + c, "sub": a - c, "mul": a * c}[m.group(2)]
            if m.group(1) == "saturating":
                return max(0, min(M, r))
            return r & M
        if re.search(r"core::num::<impl usize>::next_multiple_of$", nm) and len(e[2]) == 2:
            a, c = ev(e[2][0]), ev(e[2][1])
            if c == 0:
                raise _NoOffsetModel("multiple of 0")
            return (a + c - 1) // c * c
        if re.search(r"core::num::<impl usize>::div_ceil$", nm) and len(e[2]) == 2:
            a, c = ev(e[2][0]), ev(e[2][1])
            if c == 0:
                raise _NoOffsetModel("division by 0")
            return (a + c - 1) // c
        if re.search(r"core::cmp::(max|Ord::max)$", nm) and len(e[2]) == 2:
            return max(ev(e[2][0]), ev(e[2][1]))
        raise _NoOffsetModel(nm.split("::")[-1])
    if e[0] == "binop":
        a, c = ev(e[2]), ev(e[3])
        op = e[1].replace("Unchecked", "")
        if op == "Add":
            if a + c > M:
                raise _NoOffsetModel("overflow")
            return a + c
        if op == "Sub":
            if a < c:
                raise _NoOffsetModel("underflow")
            return a - c
        if op == "Mul":
            if a * c > M:
                raise _NoOffsetModel("overflow")
            return a * c
        if op in ("Div", "Rem"):
            if c == 0:
                raise _NoOffsetModel("division by 0")
            return a // c if op == "Div" else a % c
        if op == "BitAnd":
            return a & c
        if op == "BitOr":
            return a | c
        if op == "BitXor":
            return a ^ c
        if op == "Shl" and c < 16:
            return (a << c) & M
        if op == "Shr" and c < 16:
            return a >> c
        raise _NoOffsetModel(op)
    if e[0] == "unop" and e[1] == "Not":
        return (~ev(e[2])) & M
    if e[0] == "cast":
        return ev(e[-1]) if isinstance(e[-1], tuple) else ev(e[1])
    raise _NoOffsetModel(e[0])


def offset_is_padded_header_size(ctx, b, off):
    """The byte offset between the header and the item slice means `size_of::<Header>() rounded up to align_of::<Item>()` -- the
    offset `Layout::extend` uses when LAYOUT sizes the block: decided by evaluating the expression for every header size
    0..=96 and every power-of-two alignment up to 128.  -> (ok | None when the expression is outside the model, detail)"""
    off = strip_refs(off)
    _OFFSET_CTX[0] = ctx
    if off[0] == "const" and len(off) > 3 and off[3] in ctx.facts.bodies:
        cb = ctx.facts.bodies[off[3]]
        b, off = cb, strip_refs(ctx.flow(cb).local_expr(0))
    if off[0] == "proj" and any((c[1] or "").endswith("Layout::extend") for c in expr_calls(off)) and off[2][-1] == ".1":
        return True, "the offset Layout::extend reports"
    seen = set()
    try:
        for S in range(0, 97):
            for A in (1, 2, 4, 8, 16, 32, 64, 128):
                seen.clear()
                v = _eval_offset(b, off, S, A, seen)
                want = (S + A - 1) // A * A
                if v != want:
                    return False, "header size %d, item alignment %d: offset %d, Layout::extend places the items at %d" % (S, A, v, want)
    except _NoOffsetModel as ex:
        return None, "outside the model: %s" % ex
    st = {t for k, t in seen if k == "size"}
    at = {t for k, t in seen if k == "align"}
    if len(st) != 1 or len(at) != 1:
        return False, "size of %s, alignment of %s" % (sorted(map(str, st)), sorted(map(str, at)))
    return True, "size_of::<%s>() rounded up to align_of::<%s>()" % (list(st)[0], list(at)[0])


def _counts_zero_to_param(b, fl, l, use_bb):
    """Local l is a loop counter running 0, 1, .. up to (excluding) a parameter: initialised to the constant 0 before the loop that
    contains use_bb, stepped by exactly +1 inside that loop and nowhere else, and use_bb lies behind the true edge of `l < param`
    tested in the same loop; the step comes after the use (use_bb reaches the step block, not the other way round without passing
    the loop head)."""
    loops = [(h, body) for h, body in b.loops().items() if use_bb in body]
    if not loops:
        return False
    head, body = min(loops, key=lambda x: len(x[1]))
    inits, steps = [], []
    for (db, ix, k, n) in fl.defs.get(l, []):
        if k != "assign":
            return False
        e = fl.rvalue_expr(n["rv"], db)
        if e[0] == "const" and str(e[2]) == "0" and db not in body and b.dominates(db, head):
            inits.append(db)
        elif db in body:
            e2 = e[1] if (e[0] == "proj" and e[2] == (".0",)) else e
            if e2[0] == "binop" and e2[1].startswith("Add") and e2[2] == ("multi", l) and e2[3][0] == "const" and str(e2[3][2]) == "1":
                steps.append(db)
            else:
                return False
        else:
            return False
    if len(inits) != 1 or len(steps) != 1:
        return False
    guarded = False
    for sb in body:
        for tgt, labs in fl.edge_labels(sb).items():
            for lab in labs:
                if lab[0] == "bool" and lab[2] is True and lab[1][0] == "binop" and lab[1][1] == "Lt" and strip_refs(lab[1][2]) == ("multi", l) \
                        and strip_refs(lab[1][3])[0] == "param" and b.dominates(tgt, use_bb) and len(b.pred[tgt]) == 1:
                    guarded = True
    return guarded and b.dominates(use_bb, steps[0])


def r3_5(ctx, R, layout_fn):
    ctx.rule("R3.5", "header-pointer arithmetic agreement: (a) the byte-offset helper is used by exactly the slice-start "
                     "computation, the reverse computation and the constructor; (b) in the constructor every "
                     "ptr::write(slice.add(K), Item{index: K', ..}) has K == K' (loop variable of 0..cap, resp. cap for the "
                     "stub) and the stub pointer is the one given to MpscQueue::new_with_stub; (c) the reverse computation "
                     "subtracts (*ptr).index items and then exactly the helper's bytes; (d) LAYOUT sizes the slice as "
                     "padded item size * (cap + 1)")
    ctor = alloc_fn(ctx)
    cf = ctx.flow(ctor)
    # (a) every byte-offset step between header and item slice (u8-pointer add / sub with a non-parameter offset) uses the
    # same offset computation: compared by expression shape, so it does not matter whether the computation lives in a
    # helper or is written out at each site
    from lib_flow import expr_shape
    steps = []
    for b in ctx.facts.fn_bodies():
        fl = ctx.flow(b)
        for bb, t, fn in b.calls():
            if fn and not b.is_cleanup(bb) and re.search(r"core::ptr::mut_ptr::<impl \*mut u8>::(add|sub)$", fn["def_str"]):
                off = fl.operand_expr(t["args"][1])
                steps.append((b, bb, "add" if fn["def_str"].endswith("add") else "sub", expr_shape(off), off))
    shapes = {s_[3] for s_ in steps}
    fwd = sum(1 for s_ in steps if s_[2] == "add")
    rev = sum(1 for s_ in steps if s_[2] == "sub")
    def _layout_derived(st):
        shp, off = st[3], st[4]
        if "Layout::new" in shp or "size_of" in shp or "::slice_offset" in shp or re.search(r"\(\)$", shp):
            return True
        # a named constant whose initialiser computes the offset from the header's layout
        if off[0] == "const" and len(off) > 3 and off[3] in ctx.facts.bodies:
            from roles import reaches
            return reaches(ctx.facts, ctx.facts.bodies[off[3]], r"core::alloc::Layout::(new|size|align)$|core::mem::(size_of|align_of)$", 3)
        return False
    uses_layout = all(_layout_derived(s_) for s_ in steps)
    ctx.ob("R3.5", ctor, "(a) one offset computation, used forward and backward", len(shapes) == 1 and fwd >= 2 and rev >= 1 and uses_layout, d_loc(ctor),
           "%d byte-offset steps (add %d, sub %d), %d distinct offset shapes: %s" % (len(steps), fwd, rev, len(shapes), [x[:90] for x in sorted(shapes)][:2]))
    # (e) what the offset MEANS: the place where LAYOUT (Layout::extend) puts the items
    hdr_item = _layout_types(ctx, layout_fn)
    for (b_, bb_, kind_, shp_, off_) in steps:
        ok_, det_ = offset_is_padded_header_size(ctx, b_, off_)
        if ok_ and hdr_item and " rounded up " in det_:
            m_ = re.match(r"size_of::<(.*)>\(\) rounded up to align_of::<(.*)>\(\)$", det_)
            if m_ and (m_.group(1), m_.group(2)) != hdr_item:
                ok_, det_ = False, det_ + " but LAYOUT extends the layout of %s by items of %s" % hdr_item
        ctx.ob("R3.5", b_, "(e) offset = header size rounded up to item alignment@%s" % _site_label(b_, bb_), bool(ok_), b_.loc(bb_), det_)
    in_ctor = any(s_[0].path == ctor.path and s_[2] == "add" for s_ in steps)
    ctx.ob("R3.5", ctor, "(a) the constructor places the items at that offset", in_ctor, d_loc(ctor))
    # (b) constructor writes: every item slice+K, K in 0..=cap, is written with index K; the stub is slice+cap
    writes = direct_sites(ctor, r"core::ptr::write$")
    nitem = 0
    covered = set()
    slice_bases = []
    for bb, t, fn in writes:
        val = cf.operand_expr(t["args"][1])
        dst = cf.operand_expr(t["args"][0])
        if val[0] == "agg" and "index" in val[3]:
            nitem += 1
            idx = val[2][val[3].index("index")]
            # dst = add(slice, K)
            ok = dst[0] == "call" and (dst[1] or "").endswith("::add") and dst[2][1] == idx
            if ok:
                slice_bases.append(dst[2][0])
            in_loop = any(bb in body for body in ctor.loops().values())
            kind = "loop-item" if in_loop else "stub"
            if in_loop:
                # idx is the Some payload of (0..cap)::next or (0..=cap)::next
                rng_ok = False
                for c in expr_calls(idx):
                    if c[1] and "Range" in c[1] and c[1].endswith("::next"):
                        it = strip_refs(c[2][0])
                        while it[0] == "call" and it[1] and it[1].endswith("into_iter"):
                            it = strip_refs(it[2][0])
                        if it[0] == "agg" and it[1].endswith("Range::Range") and it[2][0][0] == "const" and it[2][0][2] == "0" \
                                and strip_refs(it[2][1])[0] == "param":
                            rng_ok = True
                            if ok:
                                covered.add("0..cap")
                        if it[0] == "call" and (it[1] or "").endswith("RangeInclusive::<Idx>::new") and len(it[2]) == 2 and \
                                it[2][0][0] == "const" and it[2][0][2] == "0" and strip_refs(it[2][1])[0] == "param":
                            rng_ok = True
                            if ok:
                                covered |= {"0..cap", "cap"}
                if not rng_ok:
                    # the counted form of the same loop: `let mut i = 0; while i < cap { write(slice.add(i), item(i)); i += 1 }`
                    si = strip_refs(idx)
                    if si[0] == "multi" and _counts_zero_to_param(ctor, cf, si[1], bb):
                        rng_ok = True
                        if ok:
                            covered.add("0..cap")
                ok = ok and rng_ok
            else:
                ok = ok and strip_refs(idx)[0] == "param"
                if ok:
                    covered.add("cap")
            ctx.ob("R3.5", ctor, "(b) item written at slice+K has index K (%s)" % kind, ok, ctor.loc(bb),
                   "dst=%s index=%s" % (expr_str(dst), expr_str(idx)))
    ctx.floor("R3.5", "item-writes-in-constructor", nitem, 1)
    ctx.ob("R3.5", ctor, "(b) every item 0..=cap is initialised", covered == {"0..cap", "cap"}, d_loc(ctor), "covered: %s" % sorted(covered))
    for bb, t, fn in direct_sites(ctor, r"cordyceps::MpscQueue::<.*>::new_with_stub$"):
        a = strip_refs(cf.operand_expr(t["args"][0]))
        while a[0] == "call" and re.search(r"NonNull::<T>::new_unchecked$|::cast$|::cast_mut$", a[1] or "") and a[2]:
            a = strip_refs(a[2][0])
        ok = a[0] == "call" and (a[1] or "").endswith("::add") and strip_refs(a[2][1])[0] == "param" and \
            any(a[2][0] == sb_ for sb_ in slice_bases)
        ctx.ob("R3.5", ctor, "(b) stub handed to the queue is slice+cap", bool(ok), ctor.loc(bb), expr_str(a))
    # (c) reverse computation
    for b, bb, kind, shp, off in steps:
        if kind != "sub":
            continue
        fl = ctx.flow(b)
        t = b.term(bb)
        base = strip_refs(fl.operand_expr(t["args"][0]))
        ok = False
        if base[0] == "call" and (base[1] or "").endswith("::sub"):
            p, k = strip_refs(base[2][0]), base[2][1]
            ok = p[0] == "param" and k[0] == "proj" and k[2][-1] == ".index" and strip_refs(k[1]) == p
        ctx.ob("R3.5", b, "(c) reverse = ptr.sub((*ptr).index) then bytes.sub(OFFSET)@%s" % _site_label(b, bb), ok, b.loc(bb), expr_str(base))
    # (d) layout
    lf = ctx.flow(layout_fn)
    okd = False
    for bb, t, fn in direct_sites(layout_fn, r"checked_mul$|core::alloc::Layout::array|core::alloc::Layout::repeat"):
        a, c = lf.operand_expr(t["args"][0]), lf.operand_expr(t["args"][1]) if len(t["args"]) > 1 else None
        for x, y in ((a, c), (c, a)):
            if x is None or y is None:
                continue
            sz = x[0] == "call" and (x[1] or "").endswith("Layout::size") and any((cc[1] or "").endswith("pad_to_align") for cc in expr_calls(x))
            y2 = y
            if y2[0] == "proj" and y2[2] == (".0",):
                y2 = y2[1]
            cap1 = y2[0] == "binop" and y2[1].startswith("Add") and strip_refs(y2[2])[0] == "param" and y2[3][0] == "const" and y2[3][2] == "1"
            if sz and cap1:
                okd = True
    ctx.ob("R3.5", layout_fn, "(d) slice size = padded item size * (cap + 1)", okd, d_loc(layout_fn))


def r3_6(ctx, R):
    ctx.rule("R3.6", "single-consumer discipline: every crate function from which POP or task-waker registration is "
                     "reachable, up to and including the public API, takes &mut self / Pin<&mut Self> / owns the value; "
                     "the collections implement neither Clone nor Copy; WakerList aggregates are built only in its constructor")
    targets = [R.pop_fn] + R.register_fns
    tp = {t.path for t in targets}
    # reverse closure over the call graph
    callers = {}
    for b in ctx.facts.fn_bodies():
        for bb, t, fn in b.calls():
            cb = callee_body(ctx.facts, fn)
            if cb is not None:
                callers.setdefault(cb.path, set()).add(b.path)
        # function pointers to crate fns passed as arguments (poll_fn) are not consumers
    seen = set(tp)
    work = list(tp)
    while work:
        x = work.pop()
        for c in callers.get(x, ()):
            if c not in seen:
                seen.add(c)
                work.append(c)
    n = 0
    for p in sorted(seen):
        b = ctx.facts.bodies[p]
        if p == R.pop_fn.path:
            # POP itself is `unsafe fn pop(&self)`: its callers carry the exclusivity
            fnj = ctx.facts.fns.get(p)
            ctx.ob("R3.6", b, "pop-is-unsafe-or-&mut", bool(fnj and (fnj["unsafe"] or fnj["inputs"][0].startswith("&mut"))), d_loc(b))
            continue
        if b.kind == "Closure":
            continue
        fnj = ctx.facts.fns.get(p)
        if not fnj or not fnj["inputs"]:
            continue
        n += 1
        recv = fnj["inputs"][0]
        ok = recv.startswith("&mut ") or recv.startswith("core::pin::Pin<&mut ") or not recv.startswith("&")
        ctx.ob("R3.6", b, "consumer-path-needs-exclusive-receiver", ok, d_loc(b), "receiver %s" % recv)
    ctx.floor("R3.6", "functions-reaching-pop/register", n, 10)
    for i in ctx.facts.impls:
        if i["trait"] in ("core::clone::Clone", "core::marker::Copy"):
            st = i["self_ty"]
            bad = bool(re.match(r"(waker_list::WakerList|futures_\w+::Futures\w+|merge_\w+::Merge\w+|slot_map::PinSlotMap)", st))
            ctx.ob("R3.6", st, "no-Clone/Copy-of-collections", not bad, "", i["trait"])
    builders = []
    for b in ctx.facts.fn_bodies():
        for bb in range(b.n):
            for s in b.stmts(bb):
                if s["k"] == "assign" and s["rv"]["k"] == "aggregate" and s["rv"].get("adt") == "waker_list::WakerList":
                    builders.append(b.path)
    ctor = alloc_fn(ctx)
    ctx.ob("R3.6", "<crate>", "WakerList-built-only-by-constructor", builders == [ctor.path], "", str(builders))


def r3_7(ctx, R):
    ctx.rule("R3.7", "thread-safety surface: the four vtable functions are non-generic and touch no slot-map / child type; "
                     "unsafe impl Send / Sync exist only for the waker list handle")
    def child_generic(x, c):
        # a type parameter that stands for a callable (`impl FnOnce()`, or one the body calls) is a helper's hook, not a child
        return x["k"] == "param" and not x["name"].startswith(("impl Fn", "impl FnMut", "impl FnOnce"))
    for role, b in R.vt.items():
        generic = any(ctx.facts.type_mentions(t, child_generic) for t in b.locals)
        for cb in _closure(ctx, [b], 3):
            if any(ctx.facts.type_mentions(t, child_generic) for t in cb.locals):
                generic = True
        ctx.ob("R3.7", b, "vt[%s]-non-generic" % role, not generic, d_loc(b))
    us = [(i["trait"], i["self_ty"]) for i in ctx.facts.impls
          if i["trait"] in ("core::marker::Send", "core::marker::Sync") and not i["negative"]]
    ok = sorted(us) == [("core::marker::Send", "waker_list::WakerList"), ("core::marker::Sync", "waker_list::WakerList")]
    ctx.ob("R3.7", "<crate>", "unsafe-Send/Sync-impls", ok, "", str(sorted(us)))


def r3_8(ctx, R):
    ctx.rule("R3.8", "index within capacity: every construction of the bounded collection pairs a slot map and a waker "
                     "list of the same capacity (slot-map ctor and waker-list ctor applied to the same parameter, or the "
                     "waker list sized by the collected slot map's len()); the only indices handed to MARK are keys returned "
                     "by INSERT, loop indices of 0..that capacity, or indices delivered by POP")
    ctor = alloc_fn(ctx)
    sm = R.slot_enum[1]
    n = 0
    for b in ctx.facts.fn_bodies():
        fl = ctx.flow(b)
        for rb, e in returned_exprs(ctx, b):
            if not (e[0] == "agg" and len(e[2]) >= 2):
                continue
            tys = [ctx.facts.adts.get(e[1].rsplit("::", 1)[0], {}).get("variants", [{}])[0].get("fields", [])]
            fields = {f["name"]: f["ty"] for f in tys[0]} if tys[0] else {}
            smf = [k for k, v in fields.items() if v.startswith(sm + "<")]
            wlf = [k for k, v in fields.items() if v == "waker_list::WakerList"]
            if not (smf and wlf):
                continue
            n += 1
            ops = __import__('lib_inter').flat_ops(ctx, e)
            t, w = ops[smf[0]], ops[wlf[0]]
            ok = False
            det = "%s / %s" % (expr_str(t), expr_str(w))
            if w[0] == "call" and w[1] == ctor.path:
                cap = w[2][0]
                if t[0] == "call" and (t[1] or "").endswith("::new") and strip_refs(t[2][0]) == strip_refs(cap) and strip_refs(cap)[0] == "param":
                    ok = True
                elif cap[0] == "call" and (cap[1] or "").endswith("::len") and strip_refs(cap[2][0]) == t:
                    ok = True
            ctx.ob("R3.8", b, "slot-map-and-waker-list-same-capacity", ok, b.loc(rb), det)
    ctx.floor("R3.8", "bounded-collection-constructions", n, 2)
    mark = R.mark_fn
    pops = {p.path for p in R.pop_fns}
    ins = R.insert_fn
    for b, ss in R.callers_of(mark):
        fl = ctx.flow(b)
        for bb, t, fn in ss:
            idx = fl.operand_expr(t["args"][-1])
            calls = [c[1] or "" for c in expr_calls(idx)]
            src = None
            if any(c == ins.path for c in calls):
                src = "key returned by INSERT"
            elif any("Range" in c and c.endswith("::next") for c in calls):
                src = "loop index of a Range"
            elif any(c in pops for c in calls) or any(d.path in calls for d in R.drain_fns):
                src = "index delivered by POP/DRAIN"
            elif R.is_mark_all(callee_body(ctx.facts, fn)):
                src = "MARK-ALL: every index below the list's own recorded length"
            ctx.ob("R3.8", b, "mark-index-source@%s" % _site_label(b, bb), src is not None, b.loc(bb), "%s: %s" % (src, expr_str(idx)))


def r3_9(ctx, R):
    ctx.rule("R3.9", "lock discipline of the per-slot flag: every projection of a SpinMutex-typed field in the crate is a "
                     "shared borrow that flows only into SpinMutex::lock (no get_mut / into_inner / try_lock / raw access: the "
                     "slot is shared with outstanding wakers on other threads even while the collection is borrowed mutably); "
                     "every enqueue lies between the lock() and the drop of its guard")
    n = 0
    for b in ctx.facts.fn_bodies():
        fl = ctx.flow(b)
        for bb in range(b.n):
            if b.is_cleanup(bb):
                continue
            for i, s_ in enumerate(b.stmts(bb)):
                if s_["k"] != "assign":
                    continue
                places = []
                rv = s_["rv"]
                if rv["k"] in ("ref", "rawptr", "discr"):
                    places.append((rv["place"], rv.get("mut", False), rv["k"]))
                for pl, mut, kind in places:
                    if pl["p"] and pl["p"][-1]["k"] == "field" and pl["p"][-1]["ty"].startswith("spin::mutex::SpinMutex<"):
                        n += 1
                        ok = kind == "ref" and not mut
                        uses = fl.uses_of_local(s_["place"]["l"]) if not s_["place"]["p"] else []
                        sinks = []
                        for ub, ui, node in uses:
                            if ui == "term" and node["k"] == "call" and node["func"]["k"] == "const":
                                nm = fn_name(node["func"]["fn"]) or ""
                                sinks.append(nm.split("::")[-1])
                                if not re.search(r"spin::mutex::SpinMutex::<.*>::lock$", nm):
                                    ok = False
                            else:
                                ok = False
                                sinks.append("non-call use")
                        ctx.ob("R3.9", b, "flag-accessed-only-through-lock#%d" % n, ok, b.loc(bb, i), "borrow %s%s -> %s" % (kind, " mut" if mut else "", sinks))
        # enqueue inside the guard region
        for ebb, et, efn in direct_sites(b, RE_ENQUEUE):
            locks = [(lb, lt) for lb, lt, lfn in R.flag_lock_sites(b) if b.dominates(lb, ebb)]
            ok = False
            for lb, lt in locks:
                g = lt["dest"]["l"]
                # where the guard is released: the Drop terminator of whatever holds it (the guard local itself, a local it was
                # moved into, a struct that wraps it -- `Claim { _flag: guard, fresh }`), or the call it is moved into (mem::drop)
                rel = []
                holders = set()
                work = [g]
                while work:
                    h = work.pop()
                    if h in holders:
                        continue
                    holders.add(h)
                    rel += [db for db in range(b.n) if b.term(db)["k"] == "drop" and not b.is_cleanup(db) and b.term(db)["place"]["l"] == h]
                    for (ub, ui, node) in fl.uses_of_local(h):
                        if b.is_cleanup(ub):
                            continue
                        if ui == "term" and node["k"] == "call":
                            if any(a_["k"] == "move" and a_["place"]["l"] == h for a_ in node["args"]):
                                rel.append(ub)
                        elif ui != "term" and node["k"] == "assign":
                            rv_ = node["rv"]
                            ops_ = [rv_["op"]] if rv_["k"] == "use" else (rv_["ops"] if rv_["k"] == "aggregate" else [])
                            if any(o_["k"] == "move" and o_["place"]["l"] == h for o_ in ops_):
                                work.append(node["place"]["l"])
                if rel and not any(b.dominates(db, ebb) and db != ebb for db in rel):
                    ok = True
            ctx.ob("R3.9", b, "enqueue-under-the-slot-lock@%s" % _site_label(b, ebb), ok, b.loc(ebb))
    ctx.floor("R3.9", "flag-field-borrows", n, 2)


def _deref_pointee(ty):
    for pre in ("&mut ", "&", "*mut ", "*const "):
        if ty.startswith(pre):
            return ty[len(pre):]
    m = re.match(r"&'\w+ (mut )?(.*)$", ty)
    if m:
        return m.group(2)
    return None


def shared_types(ctx, inc):
    """The ADTs living in the shared waker allocation: the header (receiver of the count functions), the slot item
    (element of its queue) and the non-primitive types of their fields."""
    hdr = _deref_pointee(inc[0].locals[1]) if inc and inc[0].arg_count >= 1 else None
    out = set()
    if hdr is None or hdr not in ctx.facts.adts:
        return hdr, out
    out.add(hdr)
    work = [hdr]
    while work:
        a = work.pop()
        adt = ctx.facts.adts.get(a.split("<")[0])
        if adt is None:
            continue
        for v in adt["variants"]:
            for f in v["fields"]:
                t = ctx.facts.types.get(f["ty"])
                if t is None or t["k"] != "adt":
                    continue
                if f["ty"] not in out:
                    out.add(f["ty"])
                    for a2 in t.get("args", []):
                        if isinstance(a2, str) and a2.split("<")[0] in ctx.facts.adts and a2 not in out and a2.startswith(hdr.split("::")[0] + "::"):
                            out.add(a2)
                            work.append(a2)
    return hdr, out


RE_WRITE_PRIM = (r"^core::ptr::(write|write_volatile|write_unaligned|replace|swap|drop_in_place|swap_nonoverlapping)$|"
                 r"^core::mem::(replace|swap|take)$|"
                 r"^core::ptr::mut_ptr::<impl \*mut T>::(write|write_volatile|replace|swap|drop_in_place)$|"
                 r"^core::ptr::NonNull::<T>::(write|replace|swap|drop_in_place)$")
RE_COPY_PRIM = r"^core::(ptr|intrinsics)::(copy|copy_nonoverlapping)$|^core::ptr::mut_ptr::<impl \*mut T>::copy_from(_nonoverlapping)?$"


def _holds_lock_guard(ctx, ty, _seen=None):
    """The type is, or (through fields of crate structs / enums, tuples, Option ...) contains, a mutex guard."""
    _seen = _seen or set()
    if ty in _seen:
        return False
    _seen.add(ty)
    t = ctx.facts.types.get(ty)
    if t is None:
        return "MutexGuard" in ty
    k = t["k"]
    if k == "adt":
        if "MutexGuard" in t["name"]:
            return True
        adt = ctx.facts.adts.get(t["name"])
        if adt is not None:
            for v in adt["variants"]:
                for f in v["fields"]:
                    if _holds_lock_guard(ctx, f["ty"], _seen):
                        return True
        return any(isinstance(a, str) and _holds_lock_guard(ctx, a, _seen) for a in t["args"])
    if k == "tuple":
        return any(_holds_lock_guard(ctx, a, _seen) for a in t["tys"])
    if k in ("array", "slice"):
        return _holds_lock_guard(ctx, t["ty"], _seen)
    return False


def r3_11(ctx, R, inc, dec, free_fn):
    ctx.rule("R3.11", "the decrement is this owner's LAST touch: in every function, after a call that gives up a reference (the "
                      "decrement itself, or a crate function that decrements on all its paths, e.g. the vtable drop) nothing "
                      "reaches the shared block any more -- no further crate call, no load or store through a pointer to the "
                      "header / slot item -- except, on the edge where the decrement reported 'was the last owner', the fence "
                      "and the call of the freeing function (with its argument reads)")
    hdr, shared = shared_types(ctx, inc)
    decp = {d_.path for d_ in dec}
    # functions that release on every return path (depth 1): callers' calls to them are release calls too
    rel_fns = set(decp)
    for b in ctx.facts.fn_bodies():
        cnt, _ = count_calls_on_paths(ctx, b, dec, depth=0)
        if cnt and set(cnt) == {1}:
            rel_fns.add(b.path)
    n = 0
    for b in ctx.facts.fn_bodies():
        if b.path in decp:
            continue
        fl = ctx.flow(b)
        for bb, t, fn in b.calls():
            cb = callee_body(ctx.facts, fn)
            if cb is None or cb.path not in rel_fns or b.is_cleanup(bb):
                continue
            n += 1
            last_tgts = set(true_edge_targets(ctx, b, bb)) if cb.path in decp else set()
            # blocks reachable after the release call, not through the 'was last' edge
            seen = set()
            work = [x for x in b.normal_succ(bb)]
            while work:
                x = work.pop()
                if x in seen or x in last_tgts:
                    continue
                seen.add(x)
                work.extend(b.normal_succ(x))
            bad = []
            for x in sorted(seen):
                if b.is_cleanup(x):
                    continue
                tx = b.term(x)
                if tx["k"] == "call":
                    fnx = tx["func"]["fn"] if tx["func"]["k"] == "const" and "fn" in tx["func"] else None
                    cbx = callee_body(ctx.facts, fnx) if fnx else None
                    if cbx is not None or fnx is None:
                        bad.append("%s calls %s" % (b.loc(x), cbx.path.split("::")[-1] if cbx is not None else "<indirect>"))
                if tx["k"] == "drop" and _holds_lock_guard(ctx, tx["place"]["ty"]):
                    # releasing the slot's lock guard writes the lock word -- inside the shared block
                    bad.append("%s drops a lock guard of the shared block (%s)" % (b.loc(x), tx["place"]["ty"]))
                if tx["k"] == "call" and tx["func"]["k"] == "const" and "fn" in tx["func"] and re.search(r"core::mem::drop$", tx["func"]["fn"]["def"]) and tx["args"]:
                    a_ = tx["args"][0]
                    aty = a_["place"]["ty"] if a_["k"] in ("copy", "move") else a_.get("ty", "")
                    if _holds_lock_guard(ctx, aty):
                        bad.append("%s drops a lock guard of the shared block (%s)" % (b.loc(x), aty))
                for s_ in b.stmts(x):
                    if s_["k"] != "assign":
                        continue
                    places = [s_["place"]]
                    rv = s_["rv"]
                    if rv["k"] in ("ref", "rawptr", "discr"):
                        places.append(rv["place"])
                    for key in ("op", "a", "b"):
                        o = rv.get(key)
                        if isinstance(o, dict) and o.get("k") in ("copy", "move"):
                            places.append(o["place"])
                    for p in places:
                        ty = b.locals[p["l"]]
                        for e in p["p"]:
                            if e["k"] == "deref":
                                ty = _deref_pointee(ty) or "?"
                                if ty in shared:
                                    bad.append("%s touches %s" % (b.loc(x), place_str(p)))
                            elif e["k"] == "field":
                                ty = e.get("ty", "?")
            # the switch on the decrement's own result lives in the successor: reading that bool is not a touch
            ctx.ob("R3.11", b, "nothing-after-giving-up-the-reference@%s" % _site_label(b, bb), not bad, b.loc(bb), "; ".join(bad[:3]))
    ctx.floor("R3.11", "release-calls", n, 3)


def r3_10(ctx, R, inc, ctor, free_fn):
    ctx.rule("R3.10", "the shared allocation is written non-atomically only while nobody else can reach it: plain stores "
                      "through a pointer to the header / slot item (or one of their fields' types), &mut borrows of such "
                      "memory, and ptr::write / replace / swap / drop_in_place / mem::replace / swap / take / copy on it "
                      "occur only in the constructor (before the block is published) and in the function that frees the "
                      "block (after the count reached zero); everywhere else the block is touched through the &-methods of "
                      "its atomics, its DiatomicWaker, its MPSC queue and its spin mutex")
    hdr, shared = shared_types(ctx, inc)
    ctx.need(hdr is not None and len(shared) >= 3, "SHARED: header ADT of the reference-count functions and its field types")
    allowed = {ctor.path, free_fn.path}

    def shared_ty(ty):
        return ty in shared

    def place_hits_shared(b, p):
        """place goes through a deref whose pointee is a shared type and has no further deref after it"""
        ty = b.locals[p["l"]]
        hit = False
        for e in p["p"]:
            if e["k"] == "deref":
                ty = _deref_pointee(ty) or "?"
                hit = shared_ty(ty)
            elif e["k"] == "field":
                ty = e.get("ty", "?")
            elif e["k"] == "downcast":
                pass
            else:
                ty = "?"
        return hit
    n = 0
    nfn = 0
    for b in ctx.facts.fn_bodies():
        sites = []
        for bb in range(b.n):
            if b.is_cleanup(bb):
                continue
            for s_ in b.stmts(bb):
                if s_["k"] != "assign":
                    continue
                if any(e["k"] == "deref" for e in s_["place"]["p"]) and place_hits_shared(b, s_["place"]):
                    sites.append((bb, "store to " + place_str(s_["place"])))
                rv = s_["rv"]
                if rv["k"] == "ref" and rv.get("mut") and any(e["k"] == "deref" for e in rv["place"]["p"]) and place_hits_shared(b, rv["place"]):
                    sites.append((bb, "&mut " + place_str(rv["place"])))
        for bb, t, fn in b.calls():
            if fn is None or b.is_cleanup(bb) or not t["args"]:
                continue
            d = fn["def"]
            k = None
            if re.search(RE_WRITE_PRIM, d):
                k = 0
            elif re.search(RE_COPY_PRIM, d):
                k = 0 if "copy_from" in d else 1
            if k is None or k >= len(t["args"]):
                continue
            a = t["args"][k]
            aty = a["place"]["ty"] if a["k"] in ("copy", "move") else a.get("ty", "")
            pt = _deref_pointee(aty)
            m = re.match(r"core::ptr::NonNull<(.*)>$", aty)
            if m:
                pt = m.group(1)
            if pt is not None and shared_ty(pt):
                sites.append((bb, "%s on %s" % (d.split("::")[-1], aty)))
        if sites:
            nfn += 1
        for bb, what in sites:
            n += 1
            ctx.ob("R3.10", b, "plain-write-to-shared-block@%s" % what.split(" ")[0] + "#%d" % sum(1 for x in sites[:sites.index((bb, what))] if x[1].split(" ")[0] == what.split(" ")[0]),
                   b.path in allowed, b.loc(bb), what + ("" if b.path in allowed else "; only %s may do this" % sorted(allowed)))
    ctx.floor("R3.10", "plain-writes-to-the-shared-block (constructor + free)", n, 2)
    ctx.ob("R3.10", "<crate>", "shared types identified", True, "", "header %s; shared types %s" % (hdr, sorted(shared)))


def index_identity(ctx, R):
    """R3.5 as a shared link (C01 / C02 / C11): the index POP reports is the slot's own position -- the constructor writes
    index K into the item at slice+K, untruncated, and header<->item arithmetic uses one offset."""
    ctor = alloc_fn(ctx)
    ctx.need(ctor is not None, "ALLOC")
    cf = ctx.flow(ctor)
    lay = None
    for bb, t, fn in direct_sites(ctor, r"^alloc::alloc::alloc$"):
        e = cf.operand_expr(t["args"][0])
        if e[0] == "call" and e[1] in ctx.facts.bodies:
            lay = ctx.facts.bodies[e[1]]
    ctx.need(lay is not None, "LAYOUT: alloc's layout must come from a crate function")
    r3_5(ctx, R, lay)
    # the stored index has the full width of a slot position
    for path, adt in ctx.facts.adts.items():
        if adt["kind"] != "struct":
            continue
        fs = adt["variants"][0]["fields"]
        if not any(f["ty"].startswith("cordyceps::mpsc_queue::Links<") for f in fs):
            continue       # the queue node type: the struct that embeds the intrusive links
        for f in fs:
            if f["ty"] in ("usize", "u8", "u16", "u32", "u64", "u128", "isize", "i8", "i16", "i32", "i64"):
                ctx.ob("R3.5", path, "slot-index-field-is-usize:" + f["name"], f["ty"] == "usize", "", "type %s" % f["ty"])
    ctx.rule("R3.5", "see C03 R3.5 (shared): the item at slice+K stores index K (full usize width); forward and reverse pointer "
                     "arithmetic agree -- so the index delivered by POP names the slot that was marked / woken")


def run(ctx):
    R = roles(ctx)
    R.pop_fn, R.vt
    inc, dec = rc_fns(ctx)
    ctx.need(len(inc) == 1 and len(dec) == 1, "RC: exactly one fetch_add function and one fetch_sub function (found %d/%d)" % (len(inc), len(dec)))
    free_fns = [b for b in ctx.facts.fn_bodies() if direct_sites(b, r"^alloc::alloc::dealloc$")]
    ctx.need(len(free_fns) == 1, "FREE: exactly one crate function calls dealloc")
    ctor = alloc_fn(ctx)
    ctx.need(ctor is not None, "ALLOC")
    cf = ctx.flow(ctor)
    lay = None
    for bb, t, fn in direct_sites(ctor, r"^alloc::alloc::alloc$"):
        e = cf.operand_expr(t["args"][0])
        if e[0] == "call" and e[1] in ctx.facts.bodies:
            lay = ctx.facts.bodies[e[1]]
    ctx.need(lay is not None, "LAYOUT: alloc's layout must come from a crate function")
    r3_1(ctx, R, inc, dec, free_fns[0])
    r3_2(ctx, R)
    r3_3(ctx, R, inc, dec)
    r3_4(ctx, R, dec, free_fns, lay)
    r3_5(ctx, R, lay)
    r3_6(ctx, R)
    r3_7(ctx, R)
    r3_8(ctx, R)
    r3_9(ctx, R)
    r3_10(ctx, R, inc, ctor, free_fns[0])
    r3_11(ctx, R, inc, dec, free_fns[0])
