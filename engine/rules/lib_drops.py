"""A5 live-drop analysis: Drop terminators (and drop_in_place / mem::drop calls) reachable on feasible
normal paths, with the dropped type, variant-aware and take-aware."""
import re

from lib_facts import place_str, callee_matches
from lib_flow import feasible_cfg, reach_in, variant_facts, strip_refs, expr_calls

NON_OWNING = (
    "alloc::collections::binary_heap::PeekMut", "core::slice::IterMut", "core::slice::Iter",
    "core::pin::Pin",  # Pin<&mut T> only (Pin<Box<T>> is reached through Box below)
)
OWNING_THROUGH = ("alloc::boxed::Box", "alloc::vec::Vec", "alloc::collections::BinaryHeap", "core::option::Option",
                  "core::task::Poll", "core::result::Result", "core::mem::ManuallyDrop", "core::mem::MaybeUninit")


def owns(facts, ty_key, pred, _seen=None, _depth=0):
    """Does a value of type `ty_key` own (would its drop glue drop) a value satisfying pred(tree)?
    References, raw pointers and guard types do not own; crate ADTs own their fields' types."""
    if _seen is None:
        _seen = set()
    if ty_key in _seen or _depth > 12:
        return False
    _seen.add(ty_key)
    t = facts.types.get(ty_key)
    if t is None:
        return False
    if pred(t):
        return True
    k = t["k"]
    if k in ("ref", "ptr", "fnptr", "fndef", "prim", "dyn"):
        return False
    if k in ("slice", "array"):
        return owns(facts, t["ty"], pred, _seen, _depth + 1)
    if k == "tuple":
        return any(owns(facts, a, pred, _seen, _depth + 1) for a in t["tys"])
    if k == "closure":
        # closure generics = parent generics.., kind, signature, tupled captures: only the captures are owned
        ups = [a for a in t["args"] if isinstance(a, str)][-1:]
        return any(owns(facts, a, pred, _seen, _depth + 1) for a in ups)
    if k == "adt":
        nm = t["name"]
        if nm in ("alloc::collections::binary_heap::PeekMut", "core::slice::IterMut", "core::slice::Iter",
                  "core::marker::PhantomData", "core::ptr::NonNull", "core::mem::MaybeUninit",
                  "core::mem::ManuallyDrop"):
            return False
        if nm == "core::pin::Pin":
            return any(owns(facts, a, pred, _seen, _depth + 1) for a in t["args"] if isinstance(a, str))
        adt = facts.adts.get(nm)
        if adt is not None:
            # substitute nothing: field types are in terms of the ADT's own parameters; conservatively use args
            if any(owns(facts, a, pred, _seen, _depth + 1) for a in t["args"] if isinstance(a, str)):
                return True
            for v in adt["variants"]:
                for f in v["fields"]:
                    if owns(facts, f["ty"], pred, _seen, _depth + 1):
                        return True
            return False
        return any(owns(facts, a, pred, _seen, _depth + 1) for a in t["args"] if isinstance(a, str))
    if k == "alias":
        return False
    return False


def is_output_like(t):
    """Type tree node denoting a child's output / stream item: <X as Future>::Output, <X as Stream>::Item,
    TryFuture::Ok/Err, TryStream::Ok/Err, or a type parameter named O (DRAIN's output parameter)."""
    if t["k"] == "alias" and re.search(r"(Future::Output|Stream::Item|TryFuture::(Ok|Err)|TryStream::(Ok|Err))$", t["name"]):
        return True
    return False


def payload_free(facts, vfacts_at, pstr, ty_key, pred):
    """Under the variant facts holding at a block, does the value at place `pstr` (type ty_key) own no
    value satisfying pred?  Follows Poll/Option/Result/crate-enum variants fixed by facts."""
    t = facts.types.get(ty_key)
    if t is None:
        return False
    if not owns(facts, ty_key, pred):
        return True
    if t["k"] != "adt":
        return False
    var = None
    for (p, v) in vfacts_at:
        if p == pstr:
            var = v
    if var is None:
        return False
    nm = t["name"]
    args = [a for a in t["args"] if isinstance(a, str)]
    if nm == "core::task::Poll":
        if var == "Pending":
            return True
        return payload_free(facts, vfacts_at, "(%s as Ready).0" % pstr, args[0], pred)
    if nm == "core::option::Option":
        if var == "None":
            return True
        return payload_free(facts, vfacts_at, "(%s as Some).0" % pstr, args[0], pred)
    if nm == "core::result::Result":
        idx = 0 if var == "Ok" else 1
        return payload_free(facts, vfacts_at, "(%s as %s).0" % (pstr, var), args[idx], pred)
    if nm == "core::ops::ControlFlow":
        idx = 1 if var == "Continue" else 0
        return payload_free(facts, vfacts_at, "(%s as %s).0" % (pstr, var), args[idx], pred)
    adt = facts.adts.get(nm)
    if adt:
        for v in adt["variants"]:
            if v["name"] == var:
                return not any(owns(facts, f["ty"], pred) for f in v["fields"])
    return False


def live_drops(ctx, body, pred):
    """[(bb, place_json, how)] drops on feasible normal paths of a value that may own something
    satisfying pred.  `how` in {"drop", "drop_in_place", "mem::drop"}."""
    fl = ctx.flow(body)
    succ, _ = feasible_cfg(body, fl)
    reach = reach_in(succ, 0)
    vf = variant_facts(body, fl)
    out = []
    takes = []  # (bb, place_expr) of mem::take / mem::replace targets
    for bb in sorted(reach):
        t = body.term(bb)
        if t["k"] == "call" and t["func"]["k"] == "const" and "fn" in t["func"]:
            fn = t["func"]["fn"]
            if callee_matches(fn, r"core::mem::(take|replace)$"):
                takes.append((bb, strip_refs(fl.operand_expr(t["args"][0]))))
    # blocks from which the function can still return: a drop on a path that can only end in a panic / abort (the rejected
    # future released before "attempted to push into a full ..." is raised) is not a drop on a normal path
    returning = set()
    for bb in range(body.n):
        if body.term(bb)["k"] == "return":
            returning |= _can_reach(body, bb)
    for bb in sorted(reach):
        if body.is_cleanup(bb) or bb not in returning:
            continue
        t = body.term(bb)
        if t["k"] == "drop":
            ty = t["place"]["ty"]
            if not owns(ctx.facts, ty, pred):
                continue
            ps = place_str(t["place"])
            if payload_free(ctx.facts, vf.get(bb, frozenset()), ps, ty, pred):
                continue
            # take-aware: the place was emptied by mem::take on every path (dominating take, no store between)
            pe = strip_refs(fl.place_expr(t["place"]))
            if any(body.dominates(tb, bb) and te == pe and not _stored_between(body, fl, tb, bb, pe) for tb, te in takes):
                continue
            if not t["place"]["p"] and _free_on_every_path(ctx, body, fl, bb, t["place"], ty, pred):
                continue
            out.append((bb, t["place"], "drop"))
        elif t["k"] == "call" and t["func"]["k"] == "const" and "fn" in t["func"]:
            fn = t["func"]["fn"]
            if callee_matches(fn, r"core::ptr::drop_in_place$|core::mem::drop$|core::mem::MaybeUninit::<.*>::assume_init_drop$"):
                a = t["args"][0]
                ty = a["place"]["ty"] if a["k"] != "const" else a["ty"]
                tt = ctx.facts.types.get(ty)
                inner = tt["ty"] if tt and tt["k"] in ("ref", "ptr") else ty
                # assume_init_drop / drop_in_place *of the element* release what a MaybeUninit holds; dropping a container of
                # MaybeUninit<T> (mem::drop, Drop terminator) releases no T
                releases_mu = not callee_matches(fn, r"core::mem::drop$") and tt and "MaybeUninit" in ty and \
                    ctx.facts.type_mentions(ty, lambda x, c: pred(x))
                if owns(ctx.facts, inner, pred) or releases_mu:
                    out.append((bb, a.get("place"), fn["def"].split("::")[-1]))
    return out


def _free_on_every_path(ctx, body, fl, bb, place, ty, pred):
    """The drop of local `place` at block bb sits behind a join; decide per feasible path: since its latest definition on the path
    the local was moved out whole (the drop is then a no-op -- the value now lives where it was moved to), or the variant
    knowledge of the path says that what is left owns nothing satisfying pred (`Poll::Pending`, `None`)."""
    from lib_flow import sensitive_paths
    l = place["l"]
    ps = place_str(place)
    n = 0
    try:
        for kind, path, know in sensitive_paths(body, fl, 2):
            for i, x in enumerate(path):
                if x != bb:
                    continue
                n += 1
                # latest definition of the local before this visit
                d = -1
                moved = False
                for j in range(i):
                    blk = path[j]
                    for s_ in body.stmts(blk):
                        if s_["k"] != "assign":
                            continue
                        if s_["place"]["l"] == l and not s_["place"]["p"]:
                            d, moved = j, False
                        rv = s_["rv"]
                        ops = []
                        if rv["k"] in ("use", "cast", "repeat"):
                            ops = [rv["op"]]
                        elif rv["k"] == "aggregate":
                            ops = rv["ops"]
                        for o in ops:
                            if o["k"] == "move" and o["place"]["l"] == l and not o["place"]["p"]:
                                moved = True
                    t_ = body.term(blk)
                    if t_["k"] == "call":
                        for a in t_["args"]:
                            if a["k"] == "move" and a["place"]["l"] == l and not a["place"]["p"]:
                                moved = True
                        if t_["dest"]["l"] == l and not t_["dest"]["p"] and j + 1 <= i:
                            d, moved = j, False
                if moved:
                    continue
                kn = know[i] if i < len(know) else {}
                if payload_free(ctx.facts, frozenset(kn.items()), ps, ty, pred):
                    continue
                return False
    except RuntimeError:
        return False
    return n > 0


def _stored_between(body, fl, a, b, pe):
    region = body.reachable(a) & _can_reach(body, b)
    for (bb, i, s) in fl.stores:
        if bb in region and bb not in (a,) and i != "term":
            if strip_refs(fl.place_expr(s["place"])) == pe and bb != b:
                return True
    return False


def _can_reach(body, target):
    pred = body.pred
    seen = {target}
    st = [target]
    while st:
        x = st.pop()
        for p in pred[x]:
            if p not in seen:
                seen.add(p)
                st.append(p)
    return seen
