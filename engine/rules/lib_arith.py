"""Finite-grid entailment for guard formulas over the counting quantities of a queue.

A guard (the boolean controlling a fill loop) is turned into a closed-form function of three abstract
quantities -- r = running futures (the slot-map counter), p = parked outputs (BinaryHeap::len), c = capacity
(slots.len()) -- by inlining crate observers (single-return-expression functions) and interpreting the integer /
boolean operators of the extracted expression tree.  The rule then checks an implication such as
`guard ==> r + p < c` for every point of a small grid.  This is a decision procedure on a *formula extracted from the
MIR*; no code of the crate is executed.  When the guard cannot be put in closed form the caller falls back to the
exact-shape rule."""
import re


class Unknown(Exception):
    pass


class Undefined(Exception):
    """arithmetic that would panic / wrap (e.g. usize underflow): the guard is not 'true' there."""


def _norm(e):
    if e[0] == "proj" and e[2] == (".0",) and e[1][0] == "binop" and e[1][1].endswith("WithOverflow"):
        return ("binop", e[1][1].replace("WithOverflow", ""), e[1][2], e[1][3])
    return e


def evaluate(ctx, body, e, env, counter, slots_field, params=None, depth=0):
    """Value (int or bool) of expression e of `body` under env {'r','p','c'}."""
    from lib_flow import strip_refs
    if depth > 8:
        raise Unknown("depth")
    e = _norm(e)
    k = e[0]
    if k in ("proj", "call"):
        import c04
        if c04.window_form(ctx, body, e) is not None:
            # incoming - outgoing of an ordered collection = running + parked (C04 R4.1-R4.3, linked by the caller)
            ctx._window_form_used = True
            return env["r"] + env["p"]
    if k == "multi":
        # a guard kept in a local (`let mut has_room = q.has_room(); while has_room { .. has_room = q.admit(x) }`): every
        # definition must be the same function of the queue's state (the caller checks that nothing changes the queue between a
        # definition and the test)
        fl = ctx.flow(body)
        vals = []
        for (bb, idx, kind, node) in fl.defs.get(e[1], []):
            if kind == "assign":
                de = fl.rvalue_expr(node["rv"], bb)
            elif kind == "call":
                de = fl.call_expr(node, bb)
            else:
                raise Unknown("partially assigned guard variable")
            if de[0] == "multi" and de[1] == e[1]:
                continue
            vals.append(evaluate(ctx, body, de, env, counter, slots_field, params, depth + 1))
        if vals and all(v == vals[0] and isinstance(v, bool) == isinstance(vals[0], bool) for v in vals):
            return vals[0]
        raise Unknown("multi")
    if k == "const":
        t = e[2]
        if t in ("0", "1") and e[1] == "bool":
            return t == "1"
        try:
            return int(t)
        except (TypeError, ValueError):
            raise Unknown("const %r" % (t,))
    if k == "param":
        if params is not None and e[1] in params:
            return params[e[1]]
        raise Unknown("free parameter")
    if k == "proj":
        if e[2] and e[2][-1] == counter:
            return env["r"]
        base = e[1]
        if base[0] == "param" and params is not None and base[1] in params and isinstance(params[base[1]], tuple):
            # a reference parameter bound to a caller expression: re-evaluate the projected caller expression
            raise Unknown("projection of bound parameter")
        raise Unknown("projection %r" % (e[2],))
    if k in ("ref",):
        return evaluate(ctx, body, e[1], env, counter, slots_field, params, depth + 1)
    if k == "cast":
        return evaluate(ctx, body, e[2], env, counter, slots_field, params, depth + 1)
    if k == "unop":
        v = evaluate(ctx, body, e[2], env, counter, slots_field, params, depth + 1)
        if e[1] == "Not":
            return (not v) if isinstance(v, bool) else ~v
        raise Unknown("unop " + e[1])
    if k == "binop":
        a = evaluate(ctx, body, e[2], env, counter, slots_field, params, depth + 1)
        b = evaluate(ctx, body, e[3], env, counter, slots_field, params, depth + 1)
        op = e[1].replace("Unchecked", "")
        if op == "Add":
            return a + b
        if op == "Sub":
            if a - b < 0:
                raise Undefined("underflow")
            return a - b
        if op == "Mul":
            return a * b
        if op == "Div":
            if b == 0:
                raise Undefined("div0")
            return a // b
        if op == "Lt":
            return a < b
        if op == "Le":
            return a <= b
        if op == "Gt":
            return a > b
        if op == "Ge":
            return a >= b
        if op == "Eq":
            return a == b
        if op == "Ne":
            return a != b
        if op == "BitAnd" and isinstance(a, bool):
            return a and b
        if op == "BitOr" and isinstance(a, bool):
            return a or b
        raise Unknown("binop " + op)
    if k == "call":
        nm = e[1] or ""
        args = e[2]
        if re.search(r"BinaryHeap::<.*>::len$", nm):
            return env["p"]
        if re.search(r"BinaryHeap::<.*>::is_empty$", nm):
            return env["p"] == 0
        if re.search(r"core::slice::<impl \[T\]>::len$|alloc::vec::Vec::<.*>::len$", nm) and ("." + slots_field) in repr(args[0]):
            return env["c"]
        m = re.search(r"core::num::<impl usize>::(saturating_sub|saturating_add|wrapping_sub|wrapping_add|min|max|checked_sub)$", nm) or \
            re.search(r"core::cmp::(Ord::)?(min|max)$", nm)
        if m:
            a = evaluate(ctx, body, args[0], env, counter, slots_field, params, depth + 1)
            b = evaluate(ctx, body, args[1], env, counter, slots_field, params, depth + 1)
            f = m.group(m.lastindex)
            if f == "saturating_sub":
                return max(0, a - b)
            if f in ("saturating_add", "wrapping_add"):
                return a + b
            if f == "wrapping_sub":
                if a - b < 0:
                    raise Undefined("wrap")
                return a - b
            if f == "min":
                return min(a, b)
            if f == "max":
                return max(a, b)
            raise Unknown(f)
        cb = ctx.facts.bodies.get(nm)
        if cb is not None:
            cfl = ctx.flow(cb)
            ret = cfl.local_expr(0)
            if ret[0] == "multi":
                ret = _and_or_form(ctx, cb, cfl)
                if ret is None:
                    raise Unknown("callee %s has no closed-form return" % nm)
            # bind callee parameters: self-like reference params keep the same abstract queue (r, p, c are global),
            # scalar params are evaluated in the caller
            newp = {}
            for i, a in enumerate(args, start=1):
                try:
                    newp[i] = evaluate(ctx, body, a, env, counter, slots_field, params, depth + 1)
                except (Unknown, Undefined):
                    pass
            return evaluate(ctx, cb, ret, env, counter, slots_field, newp, depth + 1)
        raise Unknown("call " + nm)
    raise Unknown(k)


def _and_or_form(ctx, cb, cfl):
    """`a && b` / `a || b` observers lower to a branch: recover ("binop", "BitAnd"/"BitOr", a, b) when the body has
    exactly one boolean switch and assigns a constant on one arm and an expression on the other."""
    sw = [bb for bb in range(cb.n) if cb.term(bb)["k"] == "switch" and not cb.is_cleanup(bb)]
    if len(sw) != 1:
        return None
    labs = cfl.edge_labels(sw[0])
    cond = None
    arms = {}
    for tgt, ls in labs.items():
        for lab in ls:
            if lab[0] == "bool":
                cond = lab[1]
                arms[lab[2]] = tgt
    if cond is None or set(arms) != {True, False}:
        return None
    vals = {}
    for val, tgt in arms.items():
        # first assignment to _0 reachable from tgt before the join
        seen = set()
        work = [tgt]
        while work:
            b_ = work.pop()
            if b_ in seen:
                continue
            seen.add(b_)
            hit = False
            for s in cb.stmts(b_):
                if s["k"] == "assign" and s["place"]["l"] == 0 and not s["place"]["p"]:
                    vals[val] = cfl.rvalue_expr(s["rv"], b_)
                    hit = True
            t = cb.term(b_)
            if not hit and t["k"] == "call" and t["dest"]["l"] == 0 and not t["dest"]["p"]:
                vals[val] = cfl.call_expr(t, b_)
                hit = True
            if not hit:
                work.extend(cb.normal_succ(b_))
    if set(vals) != {True, False}:
        return None
    t_, f_ = vals[True], vals[False]
    if f_[0] == "const" and f_[2] == "0":
        return ("binop", "BitAnd", cond, t_)
    if t_[0] == "const" and t_[2] == "1":
        return ("binop", "BitOr", cond, f_)
    return None


def guard_table(ctx, body, cond_expr, counter, slots_field, grid=6):
    """{(r, p, c): True|False|None(undefined)} or raises Unknown."""
    out = {}
    for c in range(grid):
        for r in range(grid):
            for p in range(grid):
                if r > c:
                    continue   # the bounded slot map never holds more than its capacity (C15)
                try:
                    v = evaluate(ctx, body, cond_expr, {"r": r, "p": p, "c": c}, counter, slots_field)
                    if not isinstance(v, bool):
                        raise Unknown("guard is not boolean")
                    out[(r, p, c)] = v
                except Undefined:
                    out[(r, p, c)] = None
    return out
