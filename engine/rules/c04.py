"""C04 -- ordered collections and adapters yield in queue order (index discipline, in-turn yield,
uniform re-base, heap order, join_all placement, adapters push back)."""
import re

from lib_facts import place_str, fn_name, callee_matches
from lib_flow import (sensitive_paths, strip_refs, expr_calls, expr_str, variant_facts, feasible_cfg, enumerate_paths, must_pass_flags,
                      flag_search)
from lib_inter import returned_exprs
from roles import roles, direct_sites, callee_body, reaches, RE_STREAM_POLL_NEXT
from c01 import _site_label, d_loc
import c07

EXPLANATION = (
    "Static decision of the order discipline: R4.1 every construction of the order wrapper around an incoming future "
    "takes its index either from the incoming counter read before exactly one +1 of that counter on the success path "
    "(push-back) or from the outgoing counter read after exactly one -1 (push-front), FromIterator numbers 0,1,2.. and "
    "stores the final count as incoming and 0 as outgoing; R4.2 every Ready(Some(v)) of the ordered poll_next is "
    "dominated by the true edge of item.index == outgoing with v that item's data, and outgoing += 1 lies on that path "
    "exactly once; R4.3 inside the region guarded by the sign-bit test of the outgoing counter the XOR stores have one "
    "common constant equal to the tested mask and cover exactly {every parked heap entry, every live task of every group, "
    "outgoing, incoming}, the heap is taken, converted and put back; bounded and unbounded siblings agree; R4.4 the "
    "wrapper's Ord compares only index with swapped operands (min-heap), PartialEq/PartialOrd agree; R4.5 join_all / "
    "try_join_all write slot i of the very tuple drained (C07 R7.1 instance) and the slot map is collected from the "
    "iterator through map(Occupied) only; R4.6 the ordered adapters insert only through push_back. NOT decided: that the "
    "wrapping arithmetic keeps the window contiguous for all counter values (numeric).")
ASSUMPTIONS = [
    "dev-profile MIR at mir-opt-level=0 represents the source",
    "BinaryHeap is a max-heap on Ord; PeekMut::pop removes the peeked (greatest) element",
    "fewer than 2^63 futures are held at once (window never straddles both halves after a re-base)",
]

WRAP = "futures_ordered_bounded::OrderWrapper"   # default; re-located by shape in run() (roles.order_wrapper_path)
RE_ADD_ASSIGN = r"core::num::Wrapping<usize> as core::ops::AddAssign"
RE_SUB_ASSIGN = r"core::num::Wrapping<usize> as core::ops::SubAssign"


def _locate_wrap(ctx):
    global WRAP
    import roles as _roles
    wp = _roles.order_wrapper_path(ctx.facts)
    if wp is not None:
        WRAP = wp


def ordered_types(ctx):
    """Crate structs with two position counters (Wrapping<usize>, or plain usize stepped with wrapping_add / wrapping_sub) and a
    BinaryHeap field."""
    _locate_wrap(ctx)
    out = []
    for path, adt in ctx.facts.adts.items():
        if adt["kind"] != "struct":
            continue
        fs = adt["variants"][0]["fields"]
        w = [f["name"] for f in fs if f["ty"] in ("core::num::Wrapping<usize>", "usize")]
        h = [f["name"] for f in fs if f["ty"].startswith("alloc::collections::BinaryHeap<")]
        if len(w) != 2 and len(h) == 1:
            # the two counters kept together in a private struct of their own (`window: Window { front, back }`)
            for f in fs:
                sub = ctx.facts.adts.get(f["ty"].split("<")[0])
                if sub is not None and sub["kind"] == "struct":
                    w2 = [g["name"] for g in sub["variants"][0]["fields"] if g["ty"] in ("core::num::Wrapping<usize>", "usize")]
                    if len(w2) == 2 and len(sub["variants"][0]["fields"]) == 2:
                        w = w2
        if len(w) == 2 and len(h) == 1:
            out.append((path, w, h[0]))
    return out


def window_form(ctx, body, e):
    """`e` is the wrapping distance incoming - outgoing of an ordered collection's position counters -- the number of
    accepted-but-not-yet-yielded futures (running + parked) as long as the index discipline of R4.1 / R4.2 / R4.3 holds
    (each accepted push_back steps incoming by one, each accepted push_front steps outgoing back by one, each yield steps
    outgoing by one, the re-base flips the same bit of both).  Forms: `(in - out).0` on Wrapping counters,
    `in.wrapping_sub(out)` on their values.  -> the ordered type's path or None."""
    e = strip_refs(e)
    if e[0] == "proj" and e[2] == (".0",):
        e = strip_refs(e[1])
    if not (e[0] == "call" and len(e[2]) == 2 and re.search(
            r"<core::num::Wrapping<usize> as core::ops::Sub>::sub$|core::num::<impl usize>::wrapping_sub$", e[1] or "")):
        return None
    for path, w, h in ordered_types(ctx):
        a, b_ = counter_of(ctx, body, e[2][0], w), counter_of(ctx, body, e[2][1], w)
        if not a or not b_ or a == b_:
            continue
        if not (body.path.startswith(path + "::<") or body.path.startswith("<" + path + "<")):
            continue
        for pb in ctx.facts.fn_bodies():
            if re.search(r"^<%s<.*> as futures_core::Stream>::poll_next$" % re.escape(path), pb.path):
                o = outgoing_counter(ctx, pb, w)
                if o is not None and b_ == o and a != o:
                    return path
    return None


def reads_window(ctx, body, e, depth=3):
    """`e` reads the counter window (window_form), directly or through crate observers it calls (len / is_empty ...)."""
    if not isinstance(e, tuple) or not e:
        return False
    if window_form(ctx, body, e) is not None:
        return True
    for sub in _subexprs(e)[1:]:
        if sub[0] in ("call", "proj") and window_form(ctx, body, sub) is not None:
            return True
    if depth > 0:
        for c in expr_calls(e):
            cb = ctx.facts.bodies.get(c[1] or "")
            if cb is not None and cb.n <= 40 and re.search(r"::(len|is_empty|is_terminated|is_full|has_room|remaining)$", cb.path):
                if reads_window(ctx, cb, ctx.flow(cb).local_expr(0), depth - 1):
                    return True
    return False


def window_links(ctx, R):
    """The rules a counter-window observer rests on, evaluated once per check."""
    if getattr(ctx, "_window_links_done", False):
        return
    ctx._window_links_done = True
    ot = ordered_types(ctx)
    have = {o.rule for o in ctx.obs}
    if "R4.1" not in have:
        r4_1(ctx, R, ot)
    if "R4.2" not in have:
        r4_2(ctx, R, ot)
    if "R4.3" not in have:
        r4_3(ctx, R, ot)
    for rid, txt in (("R4.1", "index discipline"), ("R4.2", "one step of the outgoing counter per yield"), ("R4.3", "uniform re-base")):
        ctx.rule_texts.setdefault(rid, "see C04 %s (link, because an observer of an ordered collection is computed as the wrapping "
                                       "distance of its position counters): %s -- only then does incoming - outgoing equal "
                                       "running + parked" % (rid, txt))


def closure_captures(ctx, cbody):
    """Capture expressions of a closure body, evaluated in its parent function."""
    parent = cbody.j.get("parent_fn")
    pb = ctx.facts.bodies.get(parent) if parent else None
    if pb is None:
        return None, None
    fl = ctx.flow(pb)
    for bb in range(pb.n):
        for s in pb.stmts(bb):
            if s["k"] == "assign" and s["rv"]["k"] == "aggregate" and s["rv"].get("closure") == cbody.path:
                return pb, [fl.operand_expr(o) for o in s["rv"]["ops"]]
    return pb, None


def counter_of(ctx, body, expr, counters):
    """Which counter field (name) does `expr` (a place / ref in `body`) denote?  Resolves closure captures."""
    e = strip_refs(expr)
    # direct: proj(self..., .counter[.0])
    if e[0] == "proj":
        for el in e[2]:
            if el.startswith(".") and el[1:] in counters:
                return el[1:]
        base = strip_refs(e[1])
        if body.kind == "Closure" and base[0] == "param" and base[1] == 1 and e[2] and e[2][0] in ("*", ".0") :
            # (*_1).N  -> capture N
            idx = None
            for el in e[2]:
                if el.startswith(".") and el[1:].isdigit():
                    idx = int(el[1:])
                    break
            pb, caps = closure_captures(ctx, body)
            if caps is not None and idx is not None and idx < len(caps):
                cap = caps[idx]
                # a captured closure's own capture: (*(*_1).k).m -> operand m of the closure value K captured as k
                rest = []
                seen_first = False
                for el in e[2]:
                    if el.startswith(".") and el[1:].isdigit():
                        if seen_first:
                            rest.append(int(el[1:]))
                        seen_first = True
                for m in rest:
                    cv = strip_refs(cap)
                    if cv[0] == "agg" and cv[1].startswith("closure:") and m < len(cv[2]):
                        cap = cv[2][m]
                    else:
                        break
                return counter_of(ctx, pb, cap, counters)
    return None


RE_WRAP_STEP = r"core::num::<impl usize>::(wrapping_add|wrapping_sub)$"


def counter_val(ctx, body, expr, counters):
    """(counter, offset): `expr` is the value of a position counter, possibly stepped by wrapping_add / wrapping_sub with a
    constant (offset = the signed sum of the steps)."""
    e = strip_refs(expr)
    off = 0
    for _ in range(4):
        if e[0] == "call" and re.search(RE_WRAP_STEP, e[1] or "") and len(e[2]) == 2 and e[2][1][0] == "const":
            try:
                k = int(e[2][1][2])
            except ValueError:
                return None, 0
            off += k if e[1].endswith("wrapping_add") else -k
            e = strip_refs(e[2][0])
        else:
            break
    c = counter_of(ctx, body, e, counters)
    return (c, off) if c else (None, 0)


def counter_updates(ctx, b, fl, counters):
    """Steps of the position counters in body b: ([(bb, counter)] +1 sites, [(bb, counter)] -1 sites, [(bb, counter)] other
    stores).  Forms: `ctr += 1` / `ctr -= 1` on a Wrapping counter, `ctr = <ctr value>.wrapping_add(1)` / `.wrapping_sub(1)` on a
    plain one (the stepped value may have been read into a local first)."""
    adds = [(x[0], counter_of(ctx, b, fl.operand_expr(x[1]["args"][0]), counters)) for x in direct_sites(b, RE_ADD_ASSIGN)]
    subs = [(x[0], counter_of(ctx, b, fl.operand_expr(x[1]["args"][0]), counters)) for x in direct_sites(b, RE_SUB_ASSIGN)]
    other = []
    for (sbb, i, st) in fl.stores:
        if i == "term" or b.is_cleanup(sbb):
            continue
        pe = fl.place_expr(st["place"])
        ctr = counter_of(ctx, b, pe, counters)
        if ctr is None:
            continue
        rv = st["rv"]
        if rv["k"] == "binop" and rv["op"] == "BitXor":
            continue          # the re-base (R4.3)
        c2, off = counter_val(ctx, b, fl.rvalue_expr(rv, sbb), counters)
        if c2 == ctr and off == 1:
            adds.append((sbb, ctr))
        elif c2 == ctr and off == -1:
            subs.append((sbb, ctr))
        elif c2 == ctr and off == 0:
            pass
        else:
            other.append((sbb, ctr))
    return adds, subs, other


def outgoing_counter(ctx, poll_body, counters):
    """The counter compared (Eq) with an item's index in poll_next."""
    fl = ctx.flow(poll_body)
    for bb in range(poll_body.n):
        for s in poll_body.stmts(bb):
            if s["k"] == "assign" and s["rv"]["k"] == "binop" and s["rv"]["op"] == "Eq":
                a, b = fl.operand_expr(s["rv"]["a"]), fl.operand_expr(s["rv"]["b"])
                for x, y in ((a, b), (b, a)):
                    c = counter_of(ctx, poll_body, y, counters)
                    if c and x[0] == "proj" and x[2][-1] == ".index":
                        return c
    return None


def wrapper_builders(ctx):
    """(body, bb, agg_expr) for every OrderWrapper aggregate whose data operand is a parameter (incoming future)."""
    out = []
    for b in ctx.facts.fn_bodies():
        fl = ctx.flow(b)
        for bb in range(b.n):
            if b.is_cleanup(bb):
                continue
            for s in b.stmts(bb):
                if s["k"] == "assign" and s["rv"]["k"] == "aggregate" and s["rv"].get("adt") == WRAP:
                    e = fl.rvalue_expr(s["rv"], bb)
                    data = strip_refs(e[2][e[3].index("data")])
                    if data[0] == "param":
                        out.append((b, bb, e))
    return out


def r4_1(ctx, R, otypes):
    ctx.rule("R4.1", "index discipline: wrapper index = incoming counter read before exactly one incoming += 1 on every "
                     "return path (push-back), or outgoing counter read after exactly one outgoing -= 1 (push-front); the "
                     "other counter untouched; FromIterator: index = old value of a local counter replaced by +1, stored as "
                     "incoming, outgoing = 0")
    allc = set()
    og = {}
    for path, w, h in otypes:
        allc |= set(w)
        for b in ctx.facts.fn_bodies():
            if re.search(r"^<%s<.*> as futures_core::Stream>::poll_next$" % re.escape(path), b.path):
                og[path] = outgoing_counter(ctx, b, w)
                ctx.ob("R4.1", b, "outgoing-counter-identified", og[path] is not None, d_loc(b), "counters %s -> outgoing %s" % (w, og[path]))
    outgoing = set(v for v in og.values() if v)
    incoming = allc - outgoing
    n = 0
    kinds = {}
    for b, bb, e in wrapper_builders(ctx):
        fl = ctx.flow(b)
        idx = e[2][e[3].index("index")]
        ctr, idx_off = counter_val(ctx, b, idx, allc)
        adds, subs, others_ = counter_updates(ctx, b, fl, allc)
        succ, _ = feasible_cfg(b, fl)
        paths = [p for k, p in enumerate_paths(b, succ) if k == "return"]
        # the statement reading the counter for the index
        read_bb = _def_block_of_index(b, fl, bb)
        if ctr is None and b.kind == "Closure":
            # output wrapper built by the future wrapper's own poll: it must carry over that future's index
            pb, caps = closure_captures(ctx, b)
            ie = strip_refs(idx)
            if caps is not None and ie[0] == "proj" and strip_refs(ie[1]) == ("param", 1):
                k = [int(el[1:]) for el in ie[2] if el.startswith(".") and el[1:].isdigit()]
                if k and k[0] < len(caps):
                    cap = strip_refs(caps[k[0]])
                    if cap[0] == "proj" and cap[2][-1] == ".index" and re.search(r"^<%s<.*> as futures_core::Future>::poll$" % re.escape(WRAP), pb.path):
                        n += 1
                        kinds["carry"] = kinds.get("carry", 0) + 1
                        ctx.ob("R4.1", b, "output-wrapper-carries-its-future's-index", strip_refs(cap[1])[0] in ("param", "call"), b.loc(bb), expr_str(cap))
                        continue
        if ctr is None:
            # FromIterator closure: index = mem::replace(counter, counter + 1).0
            ok = False
            det = expr_str(idx)
            if idx[0] == "proj" and idx[1][0] == "call" and (idx[1][1] or "").endswith("mem::replace"):
                newv = idx[1][2][1]
                ok = newv[0] == "call" and "Wrapping<usize> as core::ops::Add" in (newv[1] or "") and \
                    any(a[0] == "agg" and a[1].endswith("Wrapping::Wrapping") and a[2][0][0] == "const" and a[2][0][2] == "1" for a in newv[2])
                ok = ok and strip_refs(newv[2][0]) == strip_refs(idx[1][2][0]) or (ok and _same_capture(newv[2][0], idx[1][2][0]))
            if not ok:
                ok, det2 = _explicit_counter_step(ctx, b, fl, bb, paths)
                det += "; explicit form: " + det2
            n += 1
            # the read-then-advance idiom applied to the collection's own incoming counter (a shared `take_index(&mut
            # self.next_incoming_index)`) is a push-back numbering site, not a from_iter one
            kind_ = "from_iter"
            if idx[0] == "proj" and idx[1][0] == "call" and (idx[1][1] or "").endswith("mem::replace") and \
                    counter_of(ctx, b, idx[1][2][0], allc) in incoming:
                kind_ = "back"
            kinds[kind_] = kinds.get(kind_, 0) + 1
            ctx.ob("R4.1", b, "from_iter:index=old-counter,counter+=1", ok, b.loc(bb), det)
            continue
        n += 1
        if ctr in incoming:
            kinds["back"] = kinds.get("back", 0) + 1
            inc_sites = [x for x, c in adds if c == ctr]
            undo = [x for x, c in subs if c == ctr]
            if undo and compensated_on_refusal(ctx, b, fl, set(inc_sites), set(undo)):
                undo = []          # reserved before the queue is asked, handed back when it refuses: net effect only on acceptance
            other = [x for x, c in adds + subs if c is not None and c != ctr] + undo + [x for x, c in others_]
            once = bool(paths) and all(sum(1 for y in p if y in inc_sites) == 1 for p in paths)
            # read before increment: no increment site strictly dominates the read
            before = not any(b.dominates(x, read_bb) and x != read_bb for x in inc_sites) and idx_off == 0
            ctx.ob("R4.1", b, "push-back:index=incoming(before +1 exactly once)", once and before and not other, b.loc(bb),
                   "incoming=%s; +1 sites %s; once-per-path=%s; read-before-inc=%s; other counter updates=%s" % (
                       ctr, [b.loc(x) for x in inc_sites], once, before, [b.loc(x) for x in other]))
        else:
            kinds["front"] = kinds.get("front", 0) + 1
            dec_sites = [x for x, c in subs if c == ctr]
            undo = [x for x, c in adds if c == ctr]
            if undo and compensated_on_refusal(ctx, b, fl, set(dec_sites), set(undo)):
                undo = []
            other = [x for x, c in adds + subs if c is not None and c != ctr] + undo + [x for x, c in others_]
            once = bool(paths) and all(sum(1 for y in p if y in dec_sites) == 1 for p in paths)
            if idx_off == -1:
                # index = counter.wrapping_sub(1) computed from the value BEFORE the (single) decrement that stores it back
                after = not any(b.dominates(x, read_bb) and x != read_bb for x in dec_sites) and bool(dec_sites)
            else:
                after = all(b.dominates(x, read_bb) and x != read_bb for x in dec_sites) and bool(dec_sites) and idx_off == 0
            ctx.ob("R4.1", b, "push-front:index=outgoing(after -1 exactly once)", once and after and not other, b.loc(bb),
                   "outgoing=%s; -1 sites %s; once-per-path=%s; read-after-dec=%s; other counter updates=%s" % (
                       ctr, [b.loc(x) for x in dec_sites], once, after, [b.loc(x) for x in other]))
    # the output wrapper built by the future wrapper's own poll (written as a match or as Poll::map -- the combinator is
    # expanded in place) carries over that future's index
    for b in ctx.facts.fn_bodies():
        if not re.search(r"^<%s<.*> as futures_core::Future>::poll$" % re.escape(WRAP), b.path):
            continue
        fl = ctx.flow(b)
        for bb in range(b.n):
            if b.is_cleanup(bb):
                continue
            for s_ in b.stmts(bb):
                if s_["k"] == "assign" and s_["rv"]["k"] == "aggregate" and s_["rv"].get("adt") == WRAP:
                    e = fl.rvalue_expr(s_["rv"], bb)
                    ie = strip_refs(e[2][e[3].index("index")])
                    ok = ie[0] == "proj" and ie[2] and ie[2][-1] == ".index" and strip_refs(ie[1]) == ("param", 1)
                    if not ok and ie[0] == "proj" and ".index" in ie[2]:
                        # read through the pin projection of self: project(self).index (a reference to the field)
                        base = strip_refs(ie[1])
                        ok = base[0] == "call" and re.search(r"::project(_ref)?$", base[1] or "") is not None and \
                            strip_refs(base[2][0]) == ("param", 1) and all(el in (".index", "*") for el in ie[2])
                    n += 1
                    kinds["carry"] = kinds.get("carry", 0) + 1
                    ctx.ob("R4.1", b, "output-wrapper-carries-its-future's-index", ok, b.loc(bb), expr_str(ie))
    ctx.floor("R4.1", "wrapper-constructions", n, 7)
    ctx.ob("R4.1", "<crate>", "output wrapper built by the future wrapper's poll", kinds.get("carry", 0) >= 1, "", str(kinds))
    ctx.ob("R4.1", "<crate>", "siblings: back/front/from_iter builders per ordered type",
           kinds.get("back", 0) >= 2 and kinds.get("front", 0) >= 2 and kinds.get("from_iter", 0) + kinds.get("back", 0) >= 4, "", str(kinds))
    # for the bounded variant the counter update lives in the closure handed to the slot-map insertion: it runs only on acceptance
    # (C15 R15.2); here: from_iter struct aggregates
    for path, w, h in otypes:
        for b in ctx.facts.fn_bodies():
            if not re.search(r"^<%s<.*> as core::iter::FromIterator" % re.escape(path), b.path) or b.kind == "Closure":
                continue
            for rb, e in returned_exprs(ctx, b):
                if e[0] == "agg" and e[1].startswith(path + "::"):
                    ops = __import__('lib_inter').flat_ops(ctx, e)
                    holder = {}
                    for v_ in list(ops.values()):
                        # counters kept in a nested private struct: its fields count as the collection's
                        if v_[0] == "agg" and len(v_) > 3 and v_[1].split("::")[0] in path and v_[1].rsplit("::", 1)[0] in ctx.facts.adts:
                            ops.update(zip(v_[3], v_[2]))
                            for nm_ in v_[3]:
                                holder[nm_] = v_        # the struct value the numbering closure has to borrow mutably
                    o = og.get(path)
                    i = [x for x in w if x != o][0] if o else None

                    def _is_zero(v_):
                        return (v_[0] == "agg" and v_[2] and v_[2][0][0] == "const" and v_[2][0][2] == "0") or \
                            (v_[0] == "const" and v_[2] == "0") or \
                            (v_[0] == "call" and re.search(r"^<(core::num::Wrapping<\w+>|usize) as core::default::Default>::default$", v_[1] or "") is not None)
                    if o and o not in ops:
                        # the counters live in a nested private struct that is built whole (`Window::default()`) and then stepped by
                        # the numbering closure through a mutable borrow: outgoing = 0 by construction, incoming = that value
                        nested = None
                        for nm_, v_ in ops.items():
                            if v_[0] == "call" and v_[1] in ctx.facts.bodies and re.search(r" as core::default::Default>::default$", v_[1]):
                                for rb2, e2 in returned_exprs(ctx, ctx.facts.bodies[v_[1]]):
                                    if e2[0] == "agg" and len(e2) > 3 and o in e2[3] and i in e2[3]:
                                        nested = (v_, dict(zip(e2[3], e2[2])))
                        if nested is None:
                            ctx.ob("R4.1", b, "from_iter:incoming=count,outgoing=0", False, b.loc(rb), "counters %s not found in the struct literal" % (w,))
                            continue
                        ops[o] = nested[1][o]
                        ops[i] = nested[0]
                        if not _is_zero(nested[1][i]):
                            ops[o] = ("unknown",)
                    zero = o and _is_zero(ops[o])
                    # incoming = the local counter captured by the numbering closure
                    inc_ok = False
                    if i:
                        v = ops[i]
                        fl = ctx.flow(b)
                        for bb2 in range(b.n):
                            for s in b.stmts(bb2):
                                if s["k"] == "assign" and s["rv"]["k"] == "aggregate" and s["rv"].get("agg") == "closure":
                                    # the closure must borrow the counter mutably: a by-value (`move`) capture numbers a
                                    # private copy and leaves the stored counter at its initial value
                                    raw = [fl.operand_expr(op) for op in s["rv"]["ops"]]
                                    caps = [strip_refs(x) for x in raw if x[0] == "ref"]
                                    if strip_refs(v) in caps or v in caps or any(c == v for c in caps):
                                        inc_ok = True
                                    if v[0] == "multi" and any(c == v for c in caps):
                                        inc_ok = True
                                    if i in holder and holder[i] in caps:
                                        inc_ok = True
                        if not inc_ok:
                            # the counter lives in a field of a local struct (`IndexCounter { next }`) that the numbering closure borrows
                            # mutably; the literal reads that field afterwards: decided on the MIR operands (the expression view would
                            # show the field's initial constant)
                            for bb2 in range(b.n):
                                for s in b.stmts(bb2):
                                    if s["k"] == "assign" and s["rv"]["k"] == "aggregate" and s["rv"].get("adt") == path and i in (s["rv"].get("fields") or []):
                                        o_ = s["rv"]["ops"][s["rv"]["fields"].index(i)]
                                        root = None
                                        if o_["k"] in ("move", "copy"):
                                            pl_ = o_["place"]
                                            for _hop in range(6):
                                                if pl_["p"]:
                                                    root = pl_["l"] if all(e_["k"] == "field" for e_ in pl_["p"]) else None
                                                    break
                                                d_ = [n_ for (db_, ix_, k_, n_) in fl.defs.get(pl_["l"], []) if k_ == "assign"]
                                                if len(d_) == 1 and d_[0]["rv"]["k"] == "use" and d_[0]["rv"]["op"]["k"] in ("move", "copy"):
                                                    pl_ = d_[0]["rv"]["op"]["place"]
                                                else:
                                                    break
                                        if root is None:
                                            continue
                                        refs_ = {s2["place"]["l"] for bb3 in range(b.n) for s2 in b.stmts(bb3)
                                                 if s2["k"] == "assign" and s2["rv"]["k"] == "ref" and s2["rv"].get("mut") and s2["rv"]["place"]["l"] == root and not s2["rv"]["place"]["p"]}
                                        for bb3 in range(b.n):
                                            for s3 in b.stmts(bb3):
                                                if s3["k"] == "assign" and s3["rv"]["k"] == "aggregate" and s3["rv"].get("agg") == "closure" and \
                                                        any(o3["k"] in ("move", "copy") and not o3["place"]["p"] and o3["place"]["l"] in refs_ for o3 in s3["rv"]["ops"]):
                                                    inc_ok = True
                    ctx.ob("R4.1", b, "from_iter:incoming=count,outgoing=0", bool(zero) and inc_ok, b.loc(rb),
                           "outgoing=%s incoming=%s" % (expr_str(ops[o]) if o else None, expr_str(ops[i]) if i else None))


def compensated_on_refusal(ctx, b, fl, step_sites, undo_sites):
    """A reserve-then-roll-back discipline: the counter is stepped before the queue is asked, and a refusal undoes the step.  On
    every feasible return path that passes an undo site the function returns `Err(..)` (the refusal) and the path's updates
    of the counter are exactly [step, undo] in that order; every other path has no undo.  With `Wrapping` arithmetic the pair is
    the identity, so the net effect is the same as stepping on acceptance only."""
    from lib_flow import sensitive_paths, path_const_feasible, PathEval
    n = 0
    try:
        for kind, path, know in sensitive_paths(b, fl, 2):
            if kind != "return" or not any(x in undo_sites for x in path):
                continue
            if not path_const_feasible(b, path):
                continue
            n += 1
            seq = ["s" if x in step_sites else "u" for x in path if x in step_sites or x in undo_sites]
            r = PathEval(b, path).local_expr(0)
            refusing = r[0] == "agg" and r[1].endswith("Result::Err")
            if not (refusing and seq == ["s", "u"]):
                return False
    except RuntimeError:
        return False
    return n > 0


def _explicit_counter_step(ctx, b, fl, agg_bb, paths):
    """FromIterator numbering closure written without mem::replace: the index operand is read from the captured counter
    (*(*_1).k) at a statement that precedes the only update of that counter, the update happens exactly once on every
    return path and stores <captured counter> + Wrapping(1) (or is `counter += 1`)."""
    pos = _read_pos(b, fl, agg_bb)
    if pos is None:
        return False, "index operand is not read from a place"
    rbb, ri, rplace = pos
    pe = fl.place_expr(rplace)
    if not (pe[0] == "proj" and strip_refs(pe[1]) == ("param", 1) and b.kind == "Closure"):
        return False, "index not read from a capture: %s" % expr_str(pe)
    elems = tuple(el for el in pe[2])
    while elems and elems[-1] == ".0" and len(elems) > 3:
        elems = elems[:-1]
    cap = ("proj", pe[1], elems)

    def is_cap(x):
        x = strip_refs(x)
        return x[0] == "proj" and strip_refs(x[1]) == ("param", 1) and tuple(x[2]) == elems
    ups = []
    for sbb, si, st in fl.stores:
        if si == "term":
            if is_cap(fl.place_expr(st["dest"])):
                ups.append((sbb, 10 ** 6, False))
            continue
        if is_cap(fl.place_expr(st["place"])):
            v = fl.rvalue_expr(st["rv"], sbb)
            good = v[0] == "call" and "Wrapping<usize> as core::ops::Add" in (v[1] or "") and is_cap(v[2][0]) and \
                v[2][1][0] == "agg" and v[2][1][1].endswith("Wrapping::Wrapping") and v[2][1][2][0][0] == "const" and v[2][1][2][0][2] == "1"
            if not good:
                good = v[0] == "call" and (v[1] or "").endswith("<impl usize>::wrapping_add") and is_cap(v[2][0]) and \
                    v[2][1][0] == "const" and v[2][1][2] == "1"
            ups.append((sbb, si, good))
    for sbb, t, fn in direct_sites(b, RE_ADD_ASSIGN):
        if is_cap(fl.operand_expr(t["args"][0])):
            a1 = fl.operand_expr(t["args"][1])
            good = a1[0] == "const" and a1[2] == "1"
            ups.append((sbb, 10 ** 6, good))
    if not ups:
        return False, "captured counter never updated"
    once = bool(paths) and all(sum(1 for y in p for (sbb, si, g) in ups if sbb == y) == 1 for p in paths)
    good = all(g for _, _, g in ups)
    before = all((b.dominates(rbb, sbb) and (rbb != sbb or ri < si)) for sbb, si, _ in ups)
    return once and good and before, "updates %s; once-per-path=%s; +1=%s; read-before-update=%s" % ([b.loc(x[0]) for x in ups], once, good, before)


def _read_pos(body, fl, agg_bb):
    """(block, statement index, place) of the statement that reads memory for the wrapper's index operand."""
    for i0, s in enumerate(body.stmts(agg_bb)):
        if s["k"] == "assign" and s["rv"]["k"] == "aggregate" and s["rv"].get("adt") == WRAP:
            op = s["rv"]["ops"][s["rv"]["fields"].index("index")]
            cur = (agg_bb, i0)
            for _ in range(8):
                if op["k"] not in ("copy", "move"):
                    return None
                if any(e["k"] == "deref" for e in op["place"]["p"]):
                    return cur[0], cur[1], op["place"]
                sd = fl.single_def(op["place"]["l"])
                if sd in (None, "param") or sd[2] != "assign":
                    return None
                rv = sd[3]["rv"]
                if rv["k"] != "use":
                    return None
                cur = (sd[0], sd[1])
                suffix = op["place"]["p"]
                op = rv["op"]
                if op["k"] in ("copy", "move") and suffix:
                    op = dict(op, place=dict(op["place"], p=list(op["place"]["p"]) + list(suffix)))
            return None
    return None


def _same_capture(a, b):
    return strip_refs(a) == strip_refs(b)


def _def_block_of_index(body, fl, agg_bb):
    """(block, statement index) where the counter is actually read for the index operand: follows
    single-definition copies back to the statement that reads through a projection."""
    for s in body.stmts(agg_bb):
        if s["k"] == "assign" and s["rv"]["k"] == "aggregate" and s["rv"].get("adt") == WRAP:
            op = s["rv"]["ops"][s["rv"]["fields"].index("index")]
            cur_bb = agg_bb
            for _ in range(8):
                if op["k"] in ("copy", "move") and not op["place"]["p"]:
                    sd = fl.single_def(op["place"]["l"])
                    if sd in (None, "param") or sd[2] != "assign":
                        break
                    cur_bb = sd[0]
                    rv = sd[3]["rv"]
                    if rv["k"] == "use":
                        op = rv["op"]
                        continue
                break
            return cur_bb
    return agg_bb


def r4_2(ctx, R, otypes):
    ctx.rule("R4.2", "yield only in turn: each Ready(Some(v)) of an ordered poll_next is dominated by the true edge of "
                     "Eq(item.index, outgoing) with v = that item's data, and exactly one outgoing += 1 lies between that "
                     "edge and the return")
    n = 0
    for path, w, h in otypes:
        for b in ctx.facts.fn_bodies():
            if not re.search(r"^<%s<.*> as futures_core::Stream>::poll_next$" % re.escape(path), b.path):
                continue
            fl = ctx.flow(b)
            o = outgoing_counter(ctx, b, w)
            for rb, e in returned_exprs(ctx, b):
                if not (e[0] == "agg" and e[1].endswith("Poll::Ready") and e[2][0][0] == "agg" and e[2][0][1].endswith("Option::Some")):
                    continue
                n += 1
                v = e[2][0][2][0]
                ok = False
                det = expr_str(v)
                if v[0] == "proj" and v[2][-1] == ".data":
                    item = v[1] if len(v[2]) == 1 else ("proj", v[1], v[2][:-1])
                    inc_sites = {ib for ib, c_ in counter_updates(ctx, b, fl, w)[0] if c_ == o}

                    def in_turn(lab):
                        if not (lab[0] == "bool" and lab[1][0] == "binop" and ((lab[1][1] == "Eq" and lab[2] is True) or (lab[1][1] == "Ne" and lab[2] is False))):
                            return False
                        a, c = lab[1][2], lab[1][3]
                        for x, y in ((a, c), (c, a)):
                            if counter_of(ctx, b, y, w) == o and x[0] == "proj" and x[2][-1] == ".index" and _same_item(x, item):
                                return True
                        return False
                    # on every feasible path arriving at the yield: the last in-turn edge for this item is crossed and exactly
                    # one outgoing += 1 lies between it and the return
                    arrivals = 0
                    good = True
                    why = ""
                    labels = {}
                    try:
                        for kind_, pth, know in sensitive_paths(b, fl, 2):
                            for i_, bb_ in enumerate(pth):
                                if bb_ != rb:
                                    continue
                                arrivals += 1
                                last = None
                                for j in range(i_):
                                    if pth[j] not in labels:
                                        labels[pth[j]] = fl.edge_labels(pth[j])
                                    if any(in_turn(l_) for l_ in labels[pth[j]].get(pth[j + 1], [])):
                                        last = j
                                if last is None:
                                    good = False
                                    why = "a path yields without the index == outgoing test"
                                elif sum(1 for x_ in pth[last + 1:i_ + 1] if x_ in inc_sites) != 1:
                                    good = False
                                    why = "not exactly one outgoing += 1 between the test and the yield"
                    except RuntimeError as ex_:
                        good = False
                        why = str(ex_)
                    ok = good and arrivals > 0
                    det = "%d feasible arrivals; %s" % (arrivals, why or "each crosses index == outgoing and exactly one outgoing += 1")
                ctx.ob("R4.2", b, "yield-in-turn#%d" % n, ok, b.loc(rb), det)
    ctx.floor("R4.2", "ordered-yield-sites", n, 4)


def _same_item(index_expr, item_expr):
    """index_expr = <item>.index (possibly through a Deref of a PeekMut guard), item_expr = the yielded item."""
    base = index_expr[1] if len(index_expr[2]) == 1 else ("proj", index_expr[1], index_expr[2][:-1])
    a, b = strip_refs(base), strip_refs(item_expr)
    if a == b:
        return True
    # PeekMut: index read through Deref::deref(&guard); data from PeekMut::pop(guard)
    ca = [c for c in expr_calls(a) if (c[1] or "").endswith("PeekMut<'_, T, A> as core::ops::Deref>::deref")]
    cb = [c for c in expr_calls(b) if (c[1] or "").endswith("PeekMut::<'a, T, A>::pop")]
    if ca and cb:
        return strip_refs(ca[0][2][0]) == strip_refs(cb[0][2][0])
    # peek() for the test, pop() for the value: both name the top of the same heap
    pa = [c for c in expr_calls(a) if re.search(r"BinaryHeap::<T, A>::peek$", c[1] or "")]
    pb = [c for c in expr_calls(b) if re.search(r"BinaryHeap::<T, A>::pop$", c[1] or "")]
    if pa and pb:
        return strip_refs(pa[0][2][0]) == strip_refs(pb[0][2][0])
    return False


class _NoModel(Exception):
    pass


def _eval8(ctx, b, e, env, counters):
    """Value of an index expression in an 8-bit model of usize: the position counters take the values of `env`, the
    constant 1<<63 is the model's top bit (0x80), usize::MAX its 0xFF; anything else is outside the model."""
    e = strip_refs(e)
    if e[0] == "proj" and e[2] == (".0",) and e[1][0] == "binop" and e[1][1].endswith("WithOverflow"):
        e = ("binop", e[1][1].replace("WithOverflow", ""), e[1][2], e[1][3])
    c, off = counter_val(ctx, b, e, counters)
    if c is not None:
        return (env[c] + off) & 0xFF
    if e[0] == "const":
        try:
            v = int(e[2])
        except (TypeError, ValueError):
            raise _NoModel("const")
        if e[1] == "bool":
            return bool(v)
        if v == 1 << 63:
            return 0x80
        if v == (1 << 64) - 1:
            return 0xFF
        if v == (1 << 63) - 1:
            return 0x7F
        if 0 <= v < 0x40:
            return v
        raise _NoModel("const %d" % v)
    if e[0] == "binop":
        a, c_ = _eval8(ctx, b, e[2], env, counters), _eval8(ctx, b, e[3], env, counters)
        op = e[1]
        if op == "BitAnd":
            return a & c_
        if op == "BitOr":
            return a | c_
        if op == "BitXor":
            return a ^ c_
        if op in ("Eq", "Ne", "Lt", "Le", "Gt", "Ge"):
            return {"Eq": a == c_, "Ne": a != c_, "Lt": a < c_, "Le": a <= c_, "Gt": a > c_, "Ge": a >= c_}[op]
        if op in ("Sub", "SubUnchecked"):
            if a < c_:
                raise _NoModel("underflow")
            return a - c_
        if op in ("Add", "AddUnchecked"):
            if a + c_ > 0xFF:
                raise _NoModel("overflow")
            return a + c_
        if op == "Shr" and c_ == 63:
            return a >> 7
        raise _NoModel(op)
    if e[0] == "unop" and e[1] == "Not":
        v = _eval8(ctx, b, e[2], env, counters)
        return (not v) if isinstance(v, bool) else (~v) & 0xFF
    if e[0] == "call" and len(e[2]) == 2:
        m = re.search(r"core::num::<impl usize>::wrapping_(add|sub)$", e[1] or "")
        if m:
            a, c_ = _eval8(ctx, b, e[2][0], env, counters), _eval8(ctx, b, e[2][1], env, counters)
            return (a + c_) & 0xFF if m.group(1) == "add" else (a - c_) & 0xFF
        m = re.search(r"core::cmp::PartialOrd(<.*>)?>?::(lt|le|gt|ge)$|core::cmp::PartialEq(<.*>)?>?::(eq|ne)$", e[1] or "")
        if m:
            a, c_ = _eval8(ctx, b, e[2][0], env, counters), _eval8(ctx, b, e[2][1], env, counters)
            nm = (e[1] or "").split("::")[-1]
            return {"lt": a < c_, "le": a <= c_, "gt": a > c_, "ge": a >= c_, "eq": a == c_, "ne": a != c_}[nm]
    raise _NoModel(e[0])


def _wrap_guard_entailed(ctx, b, fl, counters, outgoing):
    """The re-base region (every `x ^= C` store) is guarded by a test of the position counters that means "the live
    window [outgoing, incoming) may wrap": decided in an 8-bit model for every (outgoing, length < half the index space) --
    where the guard holds, the window is contiguous after x ^= top-bit; where it does not hold, the window does not wrap.
    -> (ok, block the region starts at, detail) or None when there is no such guard."""
    xs = [bb for (bb, i, s) in fl.stores if i != "term" and not b.is_cleanup(bb) and s["rv"]["k"] == "binop" and s["rv"]["op"] == "BitXor"]
    if not xs:
        return None
    incoming = [c for c in counters if c != outgoing]
    if len(incoming) != 1:
        return None
    conj = []
    tgt_in = None
    for sb in range(b.n):
        for tgt, labs in fl.edge_labels(sb).items():
            if not all(b.dominates(tgt, x) for x in xs):
                continue
            # the edge must be the only way into tgt (otherwise the label is not a guard of the region)
            if any(tgt in b.normal_succ(p_) for p_ in range(b.n) if p_ != sb and not b.is_cleanup(p_)):
                continue
            for lab in labs:
                if lab[0] == "bool" and any(counter_val(ctx, b, x_, counters)[0] for x_ in _subexprs(lab[1])):
                    conj.append((lab[1], lab[2]))
                    if tgt_in is None or b.dominates(tgt_in, tgt):
                        tgt_in = tgt
    if not conj:
        return None
    try:
        for out in range(256):
            for ln in range(128):
                env = {outgoing: out, incoming[0]: (out + ln) & 0xFF}
                g = all(bool(_eval8(ctx, b, e_, env, counters)) is v_ for e_, v_ in conj)
                if g:
                    if (out ^ 0x80) > (env[incoming[0]] ^ 0x80):
                        return False, tgt_in, "guard %s holds at outgoing=%#x len=%d but the window still wraps after the re-base" % (
                            " && ".join(expr_str(e_) for e_, _ in conj), out, ln)
                elif out > env[incoming[0]]:
                    return False, tgt_in, "guard %s is false at outgoing=%#x len=%d (8-bit model) although the window wraps" % (
                        " && ".join(expr_str(e_) for e_, _ in conj), out, ln)
    except _NoModel as ex:
        return False, tgt_in, "guard %s is outside the index model (%s)" % (" && ".join(expr_str(e_) for e_, _ in conj), ex)
    return True, tgt_in, "guard %s entails 'window may wrap' and the re-based window is contiguous (8-bit model, all outgoing x len<128)" % (
        " && ".join(expr_str(e_) for e_, _ in conj))


def _subexprs(e, out=None):
    if out is None:
        out = []
    if not isinstance(e, tuple) or not e:
        return out
    out.append(e)
    if e[0] == "binop":
        _subexprs(e[2], out)
        _subexprs(e[3], out)
    elif e[0] in ("call", "agg"):
        for a in e[2]:
            _subexprs(a, out)
    elif e[0] in ("proj", "ref"):
        _subexprs(e[1], out)
    elif e[0] in ("unop", "cast"):
        _subexprs(e[2], out)
    return out


def r4_3(ctx, R, otypes):
    ctx.rule("R4.3", "uniform re-base: all `p = p ^ C` stores of the ordered poll_next lie behind the true edge of "
                     "(outgoing & C) == C with one common C, and cover exactly {parked heap entries (loop over the vector of "
                     "the taken heap, put back afterwards), live tasks (iter_mut over the tasks of the queue / of every "
                     "group), outgoing, incoming}; siblings agree")
    sig = {}
    for path, w, h in otypes:
        for b in ctx.facts.fn_bodies():
            if not re.search(r"^<%s<.*> as futures_core::Stream>::poll_next$" % re.escape(path), b.path):
                continue
            fl = ctx.flow(b)
            o = outgoing_counter(ctx, b, w)
            # guard
            guard_tgt = None
            mask = None
            for sb in range(b.n):
                for tgt, labs in fl.edge_labels(sb).items():
                    for lab in labs:
                        if lab[0] == "bool" and lab[2] is True and lab[1][0] == "binop" and lab[1][1] == "Eq":
                            a, c = lab[1][2], lab[1][3]
                            if a[0] == "binop" and a[1] == "BitAnd" and c[0] == "const" and a[3] == c and counter_of(ctx, b, a[2], w) == o:
                                guard_tgt, mask = tgt, c[2]
                        # (outgoing & C) != 0 is the same test when C has a single bit
                        if lab[0] == "bool" and lab[1][0] == "binop" and ((lab[1][1] == "Ne" and lab[2] is True) or (lab[1][1] == "Eq" and lab[2] is False)):
                            a, c = lab[1][2], lab[1][3]
                            if a[0] == "binop" and a[1] == "BitAnd" and c[0] == "const" and c[2] == "0" and a[3][0] == "const" and \
                                    counter_of(ctx, b, a[2], w) == o:
                                try:
                                    cv = int(a[3][2])
                                except ValueError:
                                    cv = 0
                                if cv > 0 and cv & (cv - 1) == 0:
                                    guard_tgt, mask = tgt, a[3][2]
            gdet = "mask %s" % mask
            if guard_tgt is None or mask != str(1 << 63):
                # any other test of the two position counters: decided on its meaning (see _wrap_guard_entailed)
                alt = _wrap_guard_entailed(ctx, b, fl, w, o)
                if alt is not None and alt[0]:
                    guard_tgt, mask = alt[1], str(1 << 63)
                if alt is not None:
                    gdet = alt[2]
            ctx.ob("R4.3", b, "rebase-guard=(outgoing&MSB)==MSB", guard_tgt is not None and mask == str(1 << 63), d_loc(b), gdet)
            if guard_tgt is None:
                continue
            targets = {}
            for (bb, i, s) in fl.stores:
                if i == "term" or b.is_cleanup(bb):
                    continue
                rv = s["rv"]
                if rv["k"] == "binop" and rv["op"] == "BitXor":
                    dst = fl.place_expr(s["place"])
                    src = fl.operand_expr(rv["a"])
                    c = fl.operand_expr(rv["b"])
                    kind = self_kind = None
                    if counter_of(ctx, b, dst, w):
                        kind = "counter:" + ("outgoing" if counter_of(ctx, b, dst, w) == o else "incoming")
                    else:
                        kind = _entry_kind(ctx, b, fl, dst, h)
                    same = strip_refs(dst) == strip_refs(src) or _same_target(dst, src)
                    in_region = b.dominates(guard_tgt, bb)
                    targets.setdefault(kind, []).append((bb, c, same, in_region))
            # stores made by a closure that poll_next hands to an internal-iteration helper of the crate
            # (`queue.for_each_task_mut(|task| *task.project().index ^= C)`): the element is what that helper passes to
            # the closure, classified inside the helper
            for cb in ctx.facts.fn_bodies():
                if cb.kind != "Closure" or cb.j.get("parent_fn") != b.path:
                    continue
                cfl = ctx.flow(cb)
                site = None
                for bb2, t2, fn2 in b.calls():
                    hb = callee_body(ctx.facts, fn2)
                    if hb is None or b.is_cleanup(bb2):
                        continue
                    for ai, a in enumerate(t2["args"]):
                        ae = fl.operand_expr(a)
                        if ae[0] == "agg" and ae[1] == "closure:" + cb.path:
                            site = (bb2, hb, ai + 1)
                if site is None:
                    continue
                bb2, hb, pk = site
                hfl = ctx.flow(hb)
                passed = []
                for hbb, ht, hfn in hb.calls():
                    if hfn and re.search(r"core::ops::(FnMut::call_mut|FnOnce::call_once|Fn::call)$", hfn["def"]) and not hb.is_cleanup(hbb):
                        rcv = strip_refs(hfl.operand_expr(ht["args"][0]))
                        if rcv == ("param", pk):
                            tup = hfl.operand_expr(ht["args"][1])
                            if tup[0] == "agg" and tup[1] == "tuple" and len(tup[2]) == 1:
                                passed.append(tup[2][0])
                for (sbb, i, st) in cfl.stores:
                    if i == "term" or cb.is_cleanup(sbb):
                        continue
                    rv = st["rv"]
                    if rv["k"] == "binop" and rv["op"] == "BitXor":
                        dst = cfl.place_expr(st["place"])
                        src = cfl.operand_expr(rv["a"])
                        c_ = cfl.operand_expr(rv["b"])
                        rooted = any(x == ("param", 2) for x in cfl.leaves(dst)) if hasattr(cfl, "leaves") else False
                        kinds = {_entry_kind(ctx, hb, hfl, ("proj", pe_, (".index",)), h) for pe_ in passed} if passed and rooted else {"other:closure"}
                        kind = kinds.pop() if len(kinds) == 1 else "other:closure-args-differ"
                        same = strip_refs(dst) == strip_refs(src) or _same_target(dst, src)
                        targets.setdefault(kind, []).append((bb2, c_, same, b.dominates(guard_tgt, bb2)))
            for kind, lst in targets.items():
                for (bb, c, same, in_region) in lst:
                    ctx.ob("R4.3", b, "xor-store:%s" % kind, same and in_region and c[0] == "const" and c[2] == mask, b.loc(bb),
                           "const %s read-modify-write-same-place=%s inside-guard=%s" % (c[2] if c[0] == "const" else "?", same, in_region))
            want = {"counter:outgoing", "counter:incoming", "heap-entry", "live-task"}
            ctx.ob("R4.3", b, "rebase-covers-all-four-index-stores", set(targets) == want, d_loc(b), "found %s" % sorted(str(k) for k in targets))
            # heap taken and put back
            took = [bb for bb, t, fn in direct_sites(b, r"core::mem::take$") if c07.field_of(strip_refs(fl.operand_expr(t["args"][0]))) == "." + h]
            put = [bb for (bb, i, s) in fl.stores if i != "term" and not b.is_cleanup(bb)
                   and fl.place_expr(s["place"])[0] == "proj" and fl.place_expr(s["place"])[2][-1] == "." + h]
            okput = bool(took) and bool(put) and all(b.dominates(took[0], p) for p in put) and \
                all(must_pass_flags(b, fl, x, b.returns(), put) for x in b.normal_succ(took[0]))
            ctx.ob("R4.3", b, "heap-taken-and-put-back", okput, d_loc(b), "take %s put-back %s" % ([b.loc(x) for x in took], [b.loc(x) for x in put]))
            sig[path] = sorted(str(k) for k in targets)
    ctx.floor("R4.3", "ordered-types-with-rebase", len(sig), 2)
    vals = list(sig.values())
    ctx.ob("R4.3", "<crate>", "siblings-agree-on-rebase-set", len(vals) >= 2 and all(v == vals[0] for v in vals), "", str(sig))


def _same_target(dst, src):
    # (*_94) = BitXor(copy (*_95)) where both are copies of project().index
    return strip_refs(dst) == strip_refs(src)


def _entry_kind(ctx, b, fl, dst, heap_field):
    """Classify a `.index` store target: heap entry (element of the vector made from the taken heap) or live task
    (element of PinSlotMap::iter_mut over the tasks of the inner queue / of every group)."""
    calls = expr_calls(dst)
    names = [c[1] or "" for c in calls]
    if any("slice::IterMut<'a, T> as core::iter::Iterator>::next" in n_ for n_ in names) and any(n_.endswith("BinaryHeap::<T, A>::into_vec") for n_ in names):
        # vector must come from mem::take of the heap field
        if any(n_.endswith("mem::take") for n_ in names):
            return "heap-entry"
    if any("SlotMapIterMut" in n_ and n_.endswith("::next") for n_ in names):
        # iterating tasks: receiver of iter_mut is `.tasks` of the inner queue, or of each group in a loop over all groups
        for c in calls:
            if (c[1] or "").endswith("::iter_mut") and "PinSlotMap" in c[1]:
                recv = strip_refs(c[2][0])
                inner_calls = [x[1] or "" for x in expr_calls(recv)]
                if recv[0] == "proj" and recv[2][-1] == ".tasks":
                    grp = strip_refs(recv[1])
                    if grp[0] == "call" and (grp[1] or "").endswith("::next") and recv[2][:2] == ("@Some", ".0"):
                        grp = ("proj", grp, ("@Some", ".0"))
                    if grp[0] == "proj" and grp[2] == ("@Some", ".0") and grp[1][0] == "call" and (grp[1][1] or "").endswith("::next"):
                        # unbounded: the group is the Some payload of an iterator; that iterator must be the plain
                        # IterMut over the whole groups vector (no take/skip/filter/... adaptor in between)
                        it = strip_refs(grp[1][2][0])
                        plain = False
                        if it[0] == "call" and re.search(r"<&'a mut alloc::vec::Vec<T, A> as core::iter::IntoIterator>::into_iter$|"
                                                         r"core::slice::<impl \[T\]>::iter_mut$", it[1] or ""):
                            src = strip_refs(it[2][0])
                            while src[0] == "call" and re.search(r"DerefMut>::deref_mut$", src[1] or ""):
                                src = strip_refs(src[2][0])
                            plain = src[0] == "proj" and src[2][-1].startswith(".")
                        return "live-task" if plain else "live-task(partial-groups)"
                    return "live-task"
    # groups.iter_mut().flat_map(|g| g.tasks.iter_mut()): every task of every group, provided the outer iterator is the plain
    # IterMut over the whole vector and the closure hands out the slot map's own iterator over that group's tasks
    for c in calls:
        if re.search(r"core::iter::Iterator::flat_map$", c[1] or "") and len(c[2]) == 2:
            it, cl = strip_refs(c[2][0]), c[2][1]
            plain = False
            if it[0] == "call" and re.search(r"<&'a mut alloc::vec::Vec<T, A> as core::iter::IntoIterator>::into_iter$|"
                                             r"core::slice::<impl \[T\]>::iter_mut$", it[1] or ""):
                src = strip_refs(it[2][0])
                while src[0] == "call" and re.search(r"DerefMut>::deref_mut$", src[1] or ""):
                    src = strip_refs(src[2][0])
                plain = src[0] == "proj" and src[2][-1].startswith(".")
            inner_ok = False
            if cl[0] == "agg" and cl[1].startswith("closure:"):
                cb = ctx.facts.bodies.get(cl[1][len("closure:"):])
                if cb is not None:
                    r_ = strip_refs(ctx.flow(cb).local_expr(0))
                    if r_[0] == "call" and (r_[1] or "").endswith("::iter_mut") and "PinSlotMap" in r_[1]:
                        recv = strip_refs(r_[2][0])
                        inner_ok = recv[0] == "proj" and recv[2][-1] == ".tasks" and strip_refs(recv[1]) == ("param", 2)
            # the element comes straight from that chain's own `next` (FlatMap's, or the generic `<I as Iterator>::next` of a
            # helper the chain was handed to as `impl Iterator`)
            d0 = strip_refs(dst)
            direct_next = False
            for c2 in calls:
                if (c2[1] or "").endswith("::next") and c2[2]:
                    src2 = strip_refs(c2[2][0])
                    while src2[0] == "call" and re.search(r"IntoIterator(>| for .*>)?::into_iter$", src2[1] or "") and src2[2]:
                        src2 = strip_refs(src2[2][0])
                    if src2 == c:
                        direct_next = True
            if any("FlatMap" in n_ and n_.endswith("::next") for n_ in names) or direct_next:
                return "live-task" if (plain and inner_ok) else "live-task(partial-groups)"
    return "other:" + expr_str(dst)[:60]


def r4_3b(ctx, R):
    ctx.rule("R4.3b", "the live-task enumeration used by the re-base is complete: the slot map's iter_mut wraps "
                      "slice::iter_mut over the WHOLE slots slice (no sub-slicing / take / skip), and the iterator's next() "
                      "leaves its scan loop only by yielding an Occupied payload or when the underlying iterator is exhausted")
    from lib_flow import iterator_chain, loop_exit_edges
    sm, slots_field = R.slot_enum[1], R.slot_enum[2]
    occ, free = R.slot_variants
    n = 0
    for b in R.slotmap_methods:
        if not re.search(r"::iter_mut$", b.path):
            continue
        n += 1
        for rb, e in returned_exprs(ctx, b):
            ok = False
            det = expr_str(e)
            if e[0] == "agg" and e[2]:
                it = e[2][0]
                if it[0] == "call" and re.search(r"core::slice::<impl \[T\]>::iter_mut$", it[1] or ""):
                    chain, src = iterator_chain(it)
                    names = [c for c, _ in chain]
                    bad = [c for c in names if c not in ("iter_mut", "get_unchecked_mut", "as_mut", "deref_mut")]
                    ok = not bad and src[0] == "proj" and src[2][-1] == "." + slots_field
                    det = "chain %s over %s" % (names, expr_str(src))
            ctx.ob("R4.3b", b, "iter_mut-covers-all-slots", ok, b.loc(rb), det)
    ctx.floor("R4.3b", "slot-map-iter_mut", n, 1)
    m = 0
    # the iterator type(s) returned by the slot map's iter_mut, wherever they are declared
    it_types = {b.locals[0].split("<")[0] for b in R.slotmap_methods if re.search(r"::iter_mut$", b.path)}
    for b in ctx.facts.fn_bodies():
        if not any(re.search(r"^<%s<.*> as core::iter::Iterator>::next$" % re.escape(t_), b.path) for t_ in it_types):
            continue
        m += 1
        fl = ctx.flow(b)
        inner = [(bb, t) for bb, t, fn in b.calls() if fn and not b.is_cleanup(bb) and (fn_name(fn) or "").endswith("::next")]
        for ibb, it in inner:
            exits = loop_exit_edges(b, fl, ibb)
            vf = variant_facts(b, fl)
            bad = []
            for a_, b_, is_none in (exits or []):
                if is_none:
                    continue
                # the other legitimate exit: returning Some(payload of Occupied)
                fs = vf.get(b_, frozenset()) | vf.get(a_, frozenset())
                if not any(v == occ for (_, v) in fs):
                    bad.append(b.loc(a_))
            ctx.ob("R4.3b", b, "scan-stops-only-at-occupied-or-end", exits is not None and not bad, b.loc(ibb), "other exits: %s" % bad)
    ctx.floor("R4.3b", "slot-iterator-next", m, 1)


def r4_4(ctx, R):
    ctx.rule("R4.4", "heap order: Ord::cmp of the order wrapper = usize::cmp(other.index, self.index) (min-heap on a "
                     "max-heap); PartialEq compares index only; PartialOrd = Some(cmp)")
    cmpb = ctx.facts.bodies.get("<%s<T> as core::cmp::Ord>::cmp" % WRAP)
    ctx.need(cmpb is not None, "ORD: Ord impl of the order wrapper")
    fl = ctx.flow(cmpb)
    ok = False
    det = ""
    for rb, e in returned_exprs(ctx, cmpb):
        rev = False
        while e[0] == "call" and (e[1] or "").endswith("cmp::Ordering::reverse") and e[2]:
            e = e[2][0]
            rev = not rev
        if e[0] == "call" and "core::cmp::Ord for usize" in (e[1] or "") or (e[0] == "call" and (e[1] or "").endswith("Ord>::cmp")):
            a, b_ = strip_refs(e[2][0]), strip_refs(e[2][1])
            first, second = (1, 2) if rev else (2, 1)      # reversed comparison: other before self, or cmp(self, other).reverse()
            ok = a[0] == "proj" and a[2][-1] == ".index" and strip_refs(a[1]) == ("param", first) and \
                b_[0] == "proj" and b_[2][-1] == ".index" and strip_refs(b_[1]) == ("param", second)
            det = "cmp(%s, %s)%s" % (expr_str(a), expr_str(b_), ".reverse()" if rev else "")
    ctx.ob("R4.4", cmpb, "cmp=other.index.cmp(self.index)", ok, d_loc(cmpb), det)
    eqb = ctx.facts.bodies.get("<%s<T> as core::cmp::PartialEq>::eq" % WRAP)
    ok = False
    if eqb:
        for rb, e in returned_exprs(ctx, eqb):
            if e[0] == "binop" and e[1] == "Eq":
                ok = all(x[0] == "proj" and x[2][-1] == ".index" for x in (e[2], e[3]))
    ctx.ob("R4.4", eqb or "<crate>", "eq-compares-index-only", ok, d_loc(eqb) if eqb else "")
    pb = ctx.facts.bodies.get("<%s<T> as core::cmp::PartialOrd>::partial_cmp" % WRAP)
    ok = False
    if pb:
        for rb, e in returned_exprs(ctx, pb):
            if e[0] == "agg" and e[1].endswith("Option::Some") and e[2][0][0] == "call" and e[2][0][1] == cmpb.path:
                a = e[2][0][2]
                ok = strip_refs(a[0]) == ("param", 1) and strip_refs(a[1]) == ("param", 2)
    ctx.ob("R4.4", pb or "<crate>", "partial_cmp=Some(cmp(self, other))", ok, d_loc(pb) if pb else "")


def r4_5(ctx, R):
    ctx.rule("R4.5", "join_all placement: MaybeUninit::write(output[i], x) uses field 0 / field 1 of the same drained tuple "
                     "(C07 R7.1 instances, re-evaluated); the slot map's FromIterator is collect(map(into_iter(arg), Occupied)) "
                     "with no reordering adaptor, free_head = filled = len")
    mus = c07.mu_structs(ctx)
    c07.r7_1(ctx, R, mus, placement_only=True)
    ctx.rule("R7.1", "see C07 R7.1 (shared, placement part only): the write targets output[i] with i and the value taken from the same drained tuple")
    sm = R.slot_enum[1]
    occ, free = R.slot_variants
    fb = None
    for b in ctx.facts.fn_bodies():
        if re.search(r"^<%s<.*> as core::iter::FromIterator" % re.escape(sm), b.path):
            fb = b
    ctx.need(fb is not None, "FROMITER: FromIterator for the slot map")
    for rb, e in returned_exprs(ctx, fb):
        if e[0] == "agg" and e[1].startswith(sm + "::"):
            ops = __import__('lib_inter').flat_ops(ctx, e)
            slots = ops[R.slot_enum[2]]
            chain = []
            x = slots
            while x[0] == "call":
                chain.append((x[1] or "").split("::")[-1])
                nxt = x[2][0] if x[2] else ("unknown",)
                if (x[1] or "").endswith("::map"):
                    mf = x[2][1]
                    chain.append("map-fn=" + (mf[1] if mf[0] == "fn" else expr_str(mf)))
                x = nxt
            ok = chain[:2] == ["into", "collect"] and "map" in chain and any(c == "map-fn=%s::<F>::%s" % (R.slot_enum[0], occ) or
                                                                              c.startswith("map-fn=" + R.slot_enum[0]) and c.endswith(occ) for c in chain) \
                and chain[-1] == "into_iter" and strip_refs(x)[0] == "param" and \
                not any(c in ("rev", "skip", "step_by", "chain", "zip", "filter", "take", "sorted", "peekable") for c in chain)
            ctx.ob("R4.5", fb, "slots=collect(map(into_iter(arg), Occupied))", ok, fb.loc(rb), " <- ".join(chain))
            # between collect and into the collected slice is never borrowed mutably (no reverse/swap/sort/rotate)
            fl = ctx.flow(fb)
            coll_local = None
            for bb2, t2, fn2 in fb.calls():
                if fn2 and (fn_name(fn2) or "").endswith("::collect") and not t2["dest"]["p"]:
                    coll_local = t2["dest"]["l"]
            mut_borrows = []
            if coll_local is not None:
                for (ub, ui, node) in fl.uses_of_local(coll_local):
                    if ui != "term" and node["k"] == "assign" and node["rv"]["k"] in ("ref", "rawptr") and node["rv"]["mut"]:
                        mut_borrows.append(fb.loc(ub, ui))
                # mutable borrows through the lowered pointer (`(*_13)` where _13 = transmute of the box pointer)
                for bb2 in range(fb.n):
                    for s2 in fb.stmts(bb2):
                        if s2["k"] == "assign" and s2["rv"]["k"] in ("ref", "rawptr") and s2["rv"]["mut"] and not fb.is_cleanup(bb2):
                            pe = fl.place_expr(s2["rv"]["place"])
                            if any(c[3] is not None and (c[1] or "").endswith("::collect") for c in expr_calls(pe)):
                                mut_borrows.append(span_of(fb, bb2, s2))
            ctx.ob("R4.5", fb, "collected-slots-never-mutably-borrowed", not mut_borrows, fb.loc(rb), "mutable borrows: %s" % mut_borrows)
            others = [v for k, v in ops.items() if k != R.slot_enum[2] and not (v[0] == "agg" and len(v) > 3)]   # nested bookkeeping struct: its fields are listed
            same_len = all(v[0] == "call" and (v[1] or "").endswith("::len") for v in others) and len({v for v in others}) == 1
            ctx.ob("R4.5", fb, "free_head=filled=len(slots)", same_len, fb.loc(rb), ", ".join(expr_str(v) for v in others))


def span_of(body, bb, stmt):
    from lib_facts import span_str
    return span_str(stmt["span"])


def r4_7(ctx, R, otypes):
    ctx.rule("R4.7", "who may number: the position of an item is fixed once, by the three numbering sites R4.1 checks (push_back / "
                     "push_front / FromIterator) and carried by the wrapper's own poll; so (a) every order-wrapper construction "
                     "in the crate takes a caller's future (a parameter) or is the wrapper's poll; (b) a stored `.index` is never "
                     "written except by the re-base XOR inside the ordered poll_next; (c) the position counters change only by "
                     "steps of exactly one, by the re-base XOR, or in the constructors' struct literals")
    allc = set()
    for path, w, h in otypes:
        allc |= set(w)
    builders = {(b.path, bb) for b, bb, e in wrapper_builders(ctx)}
    outgoing = set()
    for path_, w_, h_ in otypes:
        for b_ in ctx.facts.fn_bodies():
            if re.search(r"^<%s<.*> as futures_core::Stream>::poll_next$" % re.escape(path_), b_.path):
                o_ = outgoing_counter(ctx, b_, w_)
                if o_:
                    outgoing.add(o_)
    n = 0
    for b in ctx.facts.fn_bodies():
        fl = ctx.flow(b)
        is_poll_of_wrap = re.search(r"^<%s<.*> as futures_core::Future>::poll$" % re.escape(WRAP), b.path) is not None
        is_ordered_poll = any(re.search(r"^<%s<.*> as futures_core::Stream>::poll_next$" % re.escape(p_), b.path) for p_, _, _ in otypes)
        for bb in range(b.n):
            if b.is_cleanup(bb):
                continue
            for s_ in b.stmts(bb):
                if s_["k"] == "assign" and s_["rv"]["k"] == "aggregate" and s_["rv"].get("adt") == WRAP:
                    n += 1
                    ok = (b.path, bb) in builders or is_poll_of_wrap
                    ctx.ob("R4.7", b, "(a) wrapper-built-from-a-pushed-future#%d" % sum(1 for o_ in ctx.obs if o_.rule == "R4.7" and o_.fn == b.path and o_.label.startswith("(a)")), ok, b.loc(bb),
                           expr_str(fl.rvalue_expr(s_["rv"], bb))[:160])
        # (b) stores to a wrapper's index
        for (sbb, i, st) in fl.stores:
            if i == "term" or b.is_cleanup(sbb):
                continue
            pe = fl.place_expr(st["place"])
            last = st["place"]["p"][-1] if st["place"]["p"] else None
            if pe[0] == "proj" and pe[2] and pe[2][-1] == ".index" and counter_of(ctx, b, pe, allc) is None:
                # is it an index of the order wrapper?  (the field's owner type)
                owner_is_wrap = False
                ty = b.locals[st["place"]["l"]]
                for e_ in st["place"]["p"][:-1]:
                    if e_["k"] == "deref":
                        for pre in ("&mut ", "&", "*mut ", "*const "):
                            if ty.startswith(pre):
                                ty = ty[len(pre):]
                                break
                    elif e_["k"] == "field":
                        ty = e_.get("ty", "?")
                owner_is_wrap = ty.startswith(WRAP + "<") or "index" in ty and False
                xor = st["rv"]["k"] == "binop" and st["rv"]["op"] == "BitXor"
                if owner_is_wrap or (st["place"]["ty"] == "usize" and "OrderWrapper" in repr(pe)):
                    ctx.ob("R4.7", b, "(b) stored-index-only-rebased@%s" % _site_label(b, sbb) if b.term(sbb)["k"] == "call" else "(b) stored-index-only-rebased",
                           xor and is_ordered_poll, b.loc(sbb), "store to %s" % expr_str(pe))
        # (c) counter updates
        adds, subs, other = counter_updates(ctx, b, fl, allc)
        # a function that empties the whole window -- it clears the in-progress collection AND the parked heap (`clear()`) -- may
        # re-synchronise the counters: both set to the same constant, or the outgoing one advanced by the collection's own len()
        # (running + parked, C15 R15.3). Advancing by the in-flight count alone, or leaving the heap, is not that.
        heap_cleared = bool(direct_sites(b, r"alloc::collections::(binary_heap::)?BinaryHeap::<.*>::(clear|drain)$"))
        queue_cleared = any(fn and not b.is_cleanup(bb) and re.search(r"Futures(Unordered|UnorderedBounded)::<.*>::clear$", fn_name(fn) or "")
                            for bb, t, fn in b.calls())
        emptied = heap_cleared and queue_cleared and not is_ordered_poll
        own_len = None
        m_own = re.match(r"^<?([\w:]+?)(::<|<)", b.path)
        if m_own:
            own_len = re.compile(r"^%s::<\w+>::len$" % re.escape(m_own.group(1)))
        if emptied and other:
            consts = set()
            for sbb, ctr in other:
                for (bb_, i_, st_) in fl.stores:
                    if bb_ == sbb and i_ != "term":
                        v_ = strip_refs(fl.rvalue_expr(st_["rv"], bb_))
                        if v_[0] == "agg" and v_[2]:
                            v_ = strip_refs(v_[2][0])
                        consts.add(v_[2] if v_[0] == "const" else None)
            if len(consts) == 1 and None not in consts and len({c for _, c in other}) >= 2:
                other = []          # both counters set to the same constant
        for sbb, ctr in other:
            ctx.ob("R4.7", b, "(c) counter-stepped-by-one:%s" % ctr, False, b.loc(sbb), "position counter %s written with something else than +-1 / re-base" % ctr)
        for x in direct_sites(b, RE_ADD_ASSIGN) + direct_sites(b, RE_SUB_ASSIGN):
            ctr = counter_of(ctx, b, fl.operand_expr(x[1]["args"][0]), allc)
            if ctr is None:
                continue
            amt = fl.operand_expr(x[1]["args"][1])
            one = (amt[0] == "const" and amt[2] == "1") or (amt[0] == "agg" and amt[2] and amt[2][0][0] == "const" and amt[2][0][2] == "1")
            if not one and emptied and own_len is not None:
                a_ = strip_refs(amt)
                if a_[0] == "agg" and a_[2]:
                    a_ = strip_refs(a_[2][0])
                if a_[0] == "call" and own_len.search(a_[1] or "") and "AddAssign" in (fn_name(x[2]) or ""):
                    # the len() must have been read before anything was cleared
                    clears = [bb for bb, t, fn in b.calls() if fn and re.search(r"::(clear|drain)$", fn_name(fn) or "")]
                    one = all(not b.dominates(cb_, a_[3]) for cb_ in clears) and ctr in outgoing
            ctx.ob("R4.7", b, "(c) counter-stepped-by-one:%s@%s" % (ctr, _site_label(b, x[0])), one, b.loc(x[0]), "step %s" % expr_str(amt))
    ctx.floor("R4.7", "wrapper-constructions", n, 7)


def r4_6(ctx, R, otypes):
    ctx.rule("R4.6", "adapters push back: functions outside the ordered collections' own impls never call push_front / "
                     "try_push_front; each ordered adapter's poll_next pushes through the collection's public push_back / try_push_back, fed by the upstream item")
    names = [p for p, w, h in otypes]
    n = 0
    for b in ctx.facts.fn_bodies():
        own = any(b.path.startswith(p + "::<") or ("<" + p + "<") in b.path for p in names)
        for bb, t, fn in b.calls():
            if fn is None or b.is_cleanup(bb):
                continue
            nm = fn_name(fn) or ""
            if re.search(r"::(try_)?push_front$", nm) and not own:
                ctx.ob("R4.6", b, "push_front-outside-collection@%s" % _site_label(b, bb), False, b.loc(bb), nm)
            if re.search(r"::(try_)?push_back$", nm) and not own and re.search(r"as futures_core::Stream>::poll_next$", b.path):
                n += 1
                fl = ctx.flow(b)
                item = fl.operand_expr(t["args"][1])
                from_up = any(re.search(RE_STREAM_POLL_NEXT, c[1] or "") for c in expr_calls(item))
                if not from_up:
                    from lib_flow import path_exprs
                    try:
                        items = path_exprs(b, fl, bb, t["args"][1])
                    except RuntimeError:
                        items = []
                    from_up = bool(items) and all(any(re.search(RE_STREAM_POLL_NEXT, c[1] or "") for c in expr_calls(x)) for x in items)
                    item = items[0] if items else item
                ctx.ob("R4.6", b, "adapter-push_back-of-upstream-item@%s" % _site_label(b, bb), from_up, b.loc(bb), expr_str(item))
    ctx.floor("R4.6", "adapter-push_back-sites", n, 2)


def run(ctx):
    R = roles(ctx)
    global WRAP
    import roles as _roles
    wp = _roles.order_wrapper_path(ctx.facts)
    ctx.need(wp is not None, "WRAP: the order wrapper struct {data: T, index: usize} with an Ord impl")
    WRAP = wp
    R.insert_fn
    ot = ordered_types(ctx)
    ctx.floor("R4.0", "ordered-collection-types", len(ot), 2)
    r4_1(ctx, R, ot)
    r4_2(ctx, R, ot)
    r4_3(ctx, R, ot)
    r4_3b(ctx, R)
    r4_4(ctx, R)
    r4_5(ctx, R)
    r4_6(ctx, R, ot)
    r4_7(ctx, R, ot)
