"""Thorough tier, C01/C03: fingerprint of the trusted dependencies.  The fbfacts driver is injected as RUSTC_WRAPPER so
that cordyceps, diatomic-waker and spin are dumped too; for the dependency entry points the crate actually calls (and
what they reach inside the dependency) the atomic operations and their memory orderings are listed and compared with
the frozen table engine/tables/deps_atomics.json.  A difference is reported in the evidence as a CHANGED ASSUMPTION
(the trusted base moved), never as a violation of the property."""
import glob
import json
import os
import re
import shutil
import subprocess
import tempfile

from lib_facts import Facts, fn_name
from lib_flow import Flow
import extract

HERE = os.path.dirname(os.path.abspath(__file__))
TABLE = os.path.join(os.path.dirname(HERE), "tables", "deps_atomics.json")
ENTRY = {
    "cordyceps": [r"MpscQueue::<T>::enqueue$", r"MpscQueue::<T>::try_dequeue_unchecked$", r"MpscQueue::<T>::new_with_stub$"],
    "diatomic_waker": [r"DiatomicWaker::register$", r"DiatomicWaker::notify$"],
    "spin": [r"SpinMutex::<T, R>::lock$", r"SpinMutexGuard<'a, T> as core::ops::Drop>::drop$"],
}
ATOMIC = r"core::sync::atomic::(Atomic.*::(load|store|swap|compare_exchange|compare_exchange_weak|fetch_\w+|compare_and_swap)|fence|compiler_fence)$"


def _ordering(e):
    if e[0] == "agg" and "Ordering::" in e[1]:
        return e[1].split("::")[-1]
    if e[0] == "const":
        return str(e[2])
    return "?"


def fingerprint(repo):
    extract.ensure_driver()
    scratch = tempfile.mkdtemp(prefix="fbdep.")
    try:
        out = os.path.join(scratch, "facts")
        os.makedirs(out)
        env = dict(os.environ)
        env.update({
            "CARGO_NET_OFFLINE": "true",
            "LD_LIBRARY_PATH": os.path.join(extract.sysroot(), "lib") + ":" + env.get("LD_LIBRARY_PATH", ""),
            "RUSTFLAGS": "-Zmir-opt-level=0 -Awarnings",
            "RUSTC_WRAPPER": extract.DRIVER,
            "CARGO_TARGET_DIR": os.path.join(scratch, "target"),
            "FBFACTS_OUT": out,
            "FBFACTS_CRATES": ",".join(ENTRY),
        })
        env.pop("RUSTC_WORKSPACE_WRAPPER", None)
        r = subprocess.run(["cargo", "+nightly", "check", "--offline", "--quiet", "--lib"], cwd=repo, env=env,
                           stdout=subprocess.PIPE, stderr=subprocess.STDOUT, text=True)
        if r.returncode != 0:
            raise RuntimeError("dependency dump failed: " + r.stdout[-2000:])
        fp = {}
        for crate, entries in ENTRY.items():
            files = glob.glob(os.path.join(out, crate + "-*.json"))
            if not files:
                fp[crate] = {"error": "not dumped"}
                continue
            f = Facts.load(files[0])
            res = {}
            for rx in entries:
                roots = [b for b in f.fn_bodies() if re.search(rx, b.path)]
                for root in roots:
                    seen = {}
                    work = [(root, 0)]
                    ops = []
                    while work:
                        b, d = work.pop()
                        if b.path in seen or d > 4:
                            continue
                        seen[b.path] = 1
                        fl = Flow(b)
                        for bb_ in range(b.n):
                            for s_ in b.stmts(bb_):
                                if s_["k"] == "assign" and s_["rv"]["k"] == "aggregate" and s_["rv"].get("agg") == "closure":
                                    cb_ = f.bodies.get(s_["rv"]["closure"])
                                    if cb_ is not None:
                                        work.append((cb_, d + 1))
                        for bb, t, fn in b.calls():
                            if fn is None:
                                continue
                            nm = fn_name(fn) or ""
                            if re.search(ATOMIC, fn.get("def", "")) or re.search(ATOMIC, nm):
                                ords = [_ordering(fl.operand_expr(a)) for a in t["args"] if "Ordering" in (a.get("ty") or a.get("place", {}).get("ty", ""))]
                                ops.append("%s(%s) in %s" % (fn["def"].split("::")[-1], ",".join(ords), b.path.split("::")[-1]))
                            elif nm in f.bodies:
                                work.append((f.bodies[nm], d + 1))
                    res[root.path] = sorted(ops)
            fp[crate] = res
        return fp
    finally:
        shutil.rmtree(scratch, ignore_errors=True)


def audit(repo):
    fp = fingerprint(repo)
    frozen = None
    if os.path.exists(TABLE):
        frozen = json.load(open(TABLE))
    changed = frozen is not None and frozen != fp
    return {"dependency_atomics": fp, "dependency_assumption_changed": bool(changed),
            "dependency_table": "engine/tables/deps_atomics.json" + ("" if frozen is not None else " (missing)")}


if __name__ == "__main__":
    import sys
    fp = fingerprint(sys.argv[1] if len(sys.argv) > 1 else "/repo")
    if "--freeze" in sys.argv:
        json.dump(fp, open(TABLE, "w"), indent=1, sort_keys=True)
    print(json.dumps(fp, indent=1)[:6000])
