"""C08 -- pinned children never move (storage shape, unpinned-access audit, no by-value extraction)."""
import re

from lib_facts import place_str, fn_name, callee_matches
from lib_flow import strip_refs, expr_calls, expr_str
from roles import order_wrapper_path, roles, direct_sites, callee_body
from c01 import _site_label, d_loc

EXPLANATION = (
    "A child's address can change only if its storage is reallocated/replaced or if code obtains unpinned access and "
    "moves it; both are shapes of the code. R8.1 storage shape: the slot enum occurs in field types only as "
    "Pin<Box<[Slot<F>]>> (never Vec/array/inline), that field is written only by aggregate construction in the slot map's "
    "constructors (no store, no &mut Box handed to a resizing API); the set of crate types that hold a type parameter "
    "inline (not behind Box/Vec/BinaryHeap/reference) equals the frozen table {slot enum, order wrapper, the adapters' "
    "pinned upstream/closure fields}; every manual `impl Unpin` is on a type that holds no type parameter inline; "
    "R8.2 unpinned-access audit: every value of type &mut Slot<_>, &mut [Slot<_>] or &mut <child> (outside "
    "pin-project-lite's generated projections) is used only to index/iterate, inspect the discriminant, borrow the "
    "Occupied payload and re-pin it (Pin::new_unchecked) -- never moved out of, assigned through, or passed to "
    "mem::swap/replace/take, ptr::read/write/copy*, slice::swap/rotate/sort/reverse/copy_within; R8.3 no MIR move out of "
    "an Occupied payload, and no public signature hands out F, &mut F, Pin<&mut F> or an iterator of them (except "
    "try_push*'s Err(F), the never-accepted argument). Decided in full modulo Pin/Box<[T]>/pin-project-lite semantics.")
WITNESSES = "thorough"  # E3 compile_fail witnesses (tier in which they run)
ASSUMPTIONS = [
    "dev-profile MIR at mir-opt-level=0 represents the source",
    "Box<[T]> never reallocates; moving a Box / Vec<Box-holding struct> moves only pointers",
    "pin-project-lite generated projections are sound",
]

HEAP = ("alloc::boxed::Box", "alloc::vec::Vec", "alloc::collections::BinaryHeap", "core::marker::PhantomData",
        "core::slice::IterMut", "core::slice::Iter", "alloc::collections::binary_heap::PeekMut", "core::ptr::NonNull")

INLINE_TABLE = {
    # type (by name: moving a type to another module does not change what it holds) -> generics it may hold inline, with the reason
    "Slot": ("F", "the slot itself; only ever stored inside Pin<Box<[Slot<F>]>>"),
    "OrderWrapper": ("T", "#[pin] data projected by pin-project-lite; the wrapper is itself a child of an inner collection (or wraps an output)"),
    "BufferUnordered": ("S", "#[pin] Option<S> upstream"),
    "BufferedOrdered": ("St", "#[pin] Option<St> upstream"),
    "ForEachConcurrent": ("St,F", "#[pin] Option<St> upstream; F is the user's closure (FnMut, not a child)"),
    "TryBufferedOrdered": ("St", "#[pin] Option<St> upstream"),
    "TryBufferUnordered": ("S", "#[pin] Option<S> upstream"),
}


def inline_generics(ctx):
    """Fixed point: for every crate ADT the set of its own generic parameter names held inline."""
    adts = ctx.facts.adts
    res = {p: set() for p in adts}

    def inline_params_of_type(key, seen=()):
        t = ctx.facts.types.get(key)
        if t is None or key in seen:
            return set()
        k = t["k"]
        if k == "param":
            return {t["name"]}
        if k == "alias":
            return set()
        if k in ("ref", "ptr", "fnptr", "fndef", "prim", "dyn", "slice"):
            return set() if k != "slice" else inline_params_of_type(t["ty"], seen + (key,))
        if k == "array":
            return inline_params_of_type(t["ty"], seen + (key,))
        if k == "tuple":
            s = set()
            for a in t["tys"]:
                s |= inline_params_of_type(a, seen + (key,))
            return s
        if k == "closure":
            s = set()
            for a in t["args"]:
                if isinstance(a, str):
                    s |= inline_params_of_type(a, seen + (key,))
            return s
        if k == "adt":
            nm = t["name"]
            if nm in HEAP:
                return set()
            args = [a for a in t["args"] if isinstance(a, str) and not a.startswith("const ")]
            if nm in adts:
                gens = adts[nm]["generics"]
                gens = [g for g in gens if not g.startswith("'")]
                s = set()
                for g, a in zip(gens, args):
                    if g in res[nm]:
                        s |= inline_params_of_type(a, seen + (key,))
                return s
            # std ADTs (Option, Pin, Poll, Wrapping, MaybeUninit, ManuallyDrop, ...) hold their args inline
            s = set()
            for a in args:
                s |= inline_params_of_type(a, seen + (key,))
            return s
        return set()

    changed = True
    while changed:
        changed = False
        for p, adt in adts.items():
            s = set()
            for v in adt["variants"]:
                for f in v["fields"]:
                    s |= inline_params_of_type(f["ty"])
            s &= set(adt["generics"])
            if s != res[p]:
                res[p] = s
                changed = True
    per_field = {}
    for p, adt in adts.items():
        for v in adt["variants"]:
            for f in v["fields"]:
                fs = inline_params_of_type(f["ty"]) & set(adt["generics"])
                if fs:
                    per_field.setdefault(p, {})[f["name"]] = fs
    inline_generics.per_field = per_field
    inline_generics.of_type = inline_params_of_type
    return res


def pinned_fields(ctx, p):
    """Fields of the pin-projected struct p that its generated `project` hands out as Pin<&mut Field> (structural pinning)."""
    from lib_inter import returned_exprs
    out = set()
    for b in ctx.facts.body_list:
        if b.j["promoted"] is None and re.search(r"::_::<impl %s<.*>>::project$" % re.escape(p), b.path):
            for rb, e in returned_exprs(ctx, b):
                if e[0] == "agg" and len(e) > 3:
                    for nm, op in zip(e[3], e[2]):
                        if op[0] == "call" and re.search(r"core::pin::Pin::<.*>::new_unchecked$", op[1] or ""):
                            out.add(nm)
    return out


# generic parameters that may sit inline in a field that is NOT structurally pinned, with the reason
UNPINNED_OK = {
    ("ForEachConcurrent", "F"): "the user's FnMut closure: called, never polled",
}


def r8_1(ctx, R):
    ctx.rule("R8.1", "storage shape: slot enum only as Pin<Box<[Slot<F>]>> in field types; that field constructed only by "
                     "aggregates in slot-map constructors, never stored to; a struct holds a type parameter inline only in a "
                     "structurally pinned field (its pin-projection hands the field out as Pin<&mut _>) -- the slot enum and "
                     "the user closure of for_each_concurrent are the reasoned exceptions; manual Unpin impls only on types "
                     "that hold no type parameter inline")
    enum_path, sm_path, slots_field = R.slot_enum
    n = 0
    for p, adt in ctx.facts.adts.items():
        for v in adt["variants"]:
            for f in v["fields"]:
                if enum_path + "<" in f["ty"]:
                    n += 1
                    ok = bool(re.match(r"core::pin::Pin<alloc::boxed::Box<\[%s<\w+>\]>>$" % re.escape(enum_path), f["ty"])) or \
                        bool(re.match(r"core::slice::IterMut<'\w+, %s<\w+>>$" % re.escape(enum_path), f["ty"]))
                    ctx.ob("R8.1", p, "slot-storage-type:%s.%s" % (v["name"], f["name"]), ok, "", f["ty"])
    ctx.floor("R8.1", "fields-mentioning-slot-enum", n, 2)
    # who builds / writes the slots field
    builders = []
    for b in ctx.facts.fn_bodies():
        fl = ctx.flow(b)
        for bb in range(b.n):
            for s in b.stmts(bb):
                if s["k"] == "assign" and s["rv"]["k"] == "aggregate" and s["rv"].get("adt") == sm_path:
                    builders.append(b)
        for (bb, i, s) in fl.stores:
            if i == "term" or b.is_cleanup(bb):
                continue
            pe = fl.place_expr(s["place"])
            if pe[0] == "proj" and pe[2][-1] == "." + slots_field:
                ctx.ob("R8.1", b, "store-to-slots-field", False, b.loc(bb), "the boxed slice must never be replaced")
        # &mut borrow of the slots field handed to anything but Pin::as_mut / Deref
        for bb in range(b.n):
            if b.is_cleanup(bb):
                continue
            for s in b.stmts(bb):
                if s["k"] == "assign" and s["rv"]["k"] == "ref" and s["rv"]["mut"]:
                    pe = fl.place_expr(s["rv"]["place"])
                    lastp = s["rv"]["place"]["p"][-1] if s["rv"]["place"]["p"] else None
                    if pe[0] == "proj" and pe[2][-1] == "." + slots_field and lastp and lastp["k"] == "field" and \
                            lastp["ty"].startswith("core::pin::Pin<alloc::boxed::Box<["):
                        # every use of that borrow (followed through plain moves / reborrows, e.g. into an inlined helper's
                        # parameter) is Pin::as_mut / Deref
                        seen_l = set()
                        work_l = [s["place"]["l"]]
                        while work_l:
                            l_ = work_l.pop()
                            if l_ in seen_l:
                                continue
                            seen_l.add(l_)
                            for ub, ui, node in fl.uses_of_local(l_):
                                if ui != "term" and node["k"] == "assign" and not node["place"]["p"] and \
                                        ((node["rv"]["k"] == "use" and node["rv"]["op"]["k"] in ("move", "copy") and not node["rv"]["op"]["place"]["p"]) or
                                         (node["rv"]["k"] == "ref" and [e_["k"] for e_ in node["rv"]["place"]["p"]] == ["deref"])):
                                    work_l.append(node["place"]["l"])
                                    continue
                                okuse = ui == "term" and node["k"] == "call" and node["func"]["k"] == "const" and \
                                    callee_matches(node["func"]["fn"], r"core::pin::Pin::<.*>::as_mut$|DerefMut>::deref_mut$|Deref>::deref$")
                                ctx.ob("R8.1", b, "slots-field-&mut-use@bb%d" % 0, okuse, b.loc(ub), "only Pin::as_mut may take &mut of the pinned box")
    ok = all(re.search(r"::new$|FromIterator", x.path) for x in builders) and len(builders) >= 2
    ctx.ob("R8.1", "<crate>", "slot-map-built-only-by-constructors", ok, "", str([x.path for x in builders]))
    # inline table
    ig = inline_generics(ctx)
    for p, s in sorted(ig.items()):
        if not s:
            continue
        if "::_::" in p:
            continue  # pin-project-lite's generated __Origin helper (never instantiated as a value)
        if p == R.pop_fn.locals[0].split("<")[0]:
            # the dequeue's generic result enum: every instantiation in the crate is over non-generic types
            insts = [k for k in ctx.facts.types if k.startswith(p + "<")]
            gen = [k for k in insts if ctx.facts.type_mentions(k, lambda x, c: x["k"] == "param" and x["name"] not in ctx.facts.adts[p]["generics"])]
            ctx.ob("R8.1", p, "dequeue-result-enum-never-over-a-child", not gen, "", "instantiations %s" % insts)
            continue
        # a private type that nothing stores (no struct / enum field, not reachable from outside) and that is only ever
        # instantiated over non-child types -- the verdict enum of an inlined helper: `Fill<St::Err>`, `Step<F::Err>`,
        # `Woken<S::Item>` -- holds no child
        adt_ = ctx.facts.adts[p]
        stored_ = adt_.get("effective_pub") or any(
            re.search(r"(^|[<( ,\[])%s($|[<>,) \]])" % re.escape(p), g["ty"])
            for q, other in ctx.facts.adts.items() if q != p for w in other["variants"] for g in w["fields"])
        if not stored_:
            insts = [k for k in ctx.facts.types if k.startswith(p + "<")]
            own_gen = set(adt_["generics"])
            child_inst = []
            for k in insts:
                t_ = ctx.facts.types.get(k)
                for a_ in (t_["args"] if t_ and t_["k"] == "adt" else []):
                    ta_ = ctx.facts.types.get(a_) if isinstance(a_, str) else None
                    if ta_ is not None and ta_["k"] == "param" and ta_["name"] not in own_gen and not ta_["name"].startswith("'"):
                        child_inst.append(k)
            if insts:
                ctx.ob("R8.1", p, "transient-type-never-over-a-child", not child_inst, "", "instantiations %s" % insts[:4])
                continue
        why = []
        okh = True
        if p == R.slot_enum[0]:
            why.append("the slot enum itself: only ever stored inside Pin<Box<[Slot<F>]>> (checked above)")
        else:
            pf = pinned_fields(ctx, p)
            for fname, gs in sorted(getattr(inline_generics, "per_field", {}).get(p, {}).items()):
                for g in sorted(gs):
                    if fname in pf:
                        why.append("%s in #[pin] field `%s`" % (g, fname))
                    elif (p.split("::")[-1], g) in UNPINNED_OK:
                        why.append("%s in unpinned field `%s`: %s" % (g, fname, UNPINNED_OK[(p.split("::")[-1], g)]))
                    else:
                        okh = False
                        why.append("%s INLINE IN UNPINNED FIELD `%s`" % (g, fname))
        ctx.ob("R8.1", p, "inline-holder-in-table", okh, "", "holds inline %s: %s" % (sorted(s), "; ".join(why)))
    ctx.floor("R8.1", "inline-holders", sum(1 for p_, s in ig.items() if s and "::_::" not in p_), 5)
    # manual Unpin impls
    m = 0
    for i in ctx.facts.impls:
        if i["trait"] == "core::marker::Unpin" and not i["negative"] and not i["span"]["x"]:
            st = i["self_ty"].split("<")[0]
            if st in ctx.facts.adts:
                m += 1
                ctx.ob("R8.1", st, "manual-Unpin-only-on-boxed-children", not ig.get(st), "", "inline generics: %s" % sorted(ig.get(st, [])))
    ctx.floor("R8.1", "manual-Unpin-impls", m, 6)


ALLOWED_CALLS = r"core::slice::<impl \[T\]>::(get_mut|iter_mut|get|iter|len|is_empty|first_mut|last_mut|get_unchecked_mut|split_at_mut)$|" \
                r"core::ops::Index(Mut)?::index(_mut)?$|as core::ops::Index(Mut)?<.*>>::index(_mut)?$|core::slice::index::|" \
                r"core::pin::Pin::<Ptr>::new_unchecked$|core::iter::Iterator::by_ref$|" \
                r"<core::slice::IterMut<'a, T> as core::iter::Iterator>::next$|<&mut I as core::iter::Iterator>::next$|" \
                r"<I as core::iter::IntoIterator>::into_iter$|core::ops::Try>::branch$|FromResidual|" \
                r"core::pin::Pin::<&'a mut T>::get_unchecked_mut$|core::pin::Pin::<Ptr>::as_mut$|core::pin::Pin::<Ptr>::set$|" \
                r"<core::pin::Pin<Ptr> as core::ops::Deref(Mut)?>::deref(_mut)?$|<core::option::Option<T> as core::ops::Try>::branch$|" \
                r"core::option::Option::<T>::(is_some|is_none|as_ref)$"


def sensitive_type(ctx, R, ty):
    """&mut to slot / slice of slots / bare child parameter (not a Pin)."""
    enum_path = R.slot_enum[0]
    t = ctx.facts.types.get(ty)
    if not t or t["k"] != "ref" or not t["mut"]:
        return False
    inner = ctx.facts.types.get(t["ty"])
    if inner is None:
        return False
    if inner["k"] == "adt" and inner["name"] == enum_path:
        return True
    if inner["k"] == "slice":
        i2 = ctx.facts.types.get(inner["ty"])
        return bool(i2 and i2["k"] == "adt" and i2["name"] == enum_path)
    return False


def holds_param_inline(ctx, ty):
    """The type stores a value of some type parameter inline (not behind Box / Vec / a reference)."""
    if getattr(ctx, "_ig_of_type", None) is None:
        inline_generics(ctx)
        ctx._ig_of_type = inline_generics.of_type
    t = ctx.facts.types.get(ty)
    if t is None or t["k"] in ("ref", "ptr"):
        return False
    return bool(ctx._ig_of_type(ty))


def r8_2(ctx, R):
    ctx.rule("R8.2", "unpinned accesses audited: every local of type &mut Slot<_> / &mut [Slot<_>] and every reference "
                     "obtained by Pin::get_unchecked_mut / into_inner_unchecked from a pinned place that holds a type parameter "
                     "inline (the adapters' pinned upstream Option<St>, a pinned wrapper's child; crate-wide, pin-project-lite "
                     "output excluded) flows only into the allowed inspection/re-pin APIs; it is never moved out of "
                     "(`move (*p)`), assigned through (`*p = v`), or passed to another callee (Option::take, mem::replace ...)")
    enum_path = R.slot_enum[0]
    n_src = 0
    n_use = 0
    for b in ctx.facts.fn_bodies():
        if "::_::<impl" in b.path:
            continue
        fl = ctx.flow(b)
        sens = [l for l, ty in enumerate(b.locals) if sensitive_type(ctx, R, ty)]
        for bb, t, fn in direct_sites(b, r"core::pin::Pin::<.*>::(get_unchecked_mut|into_inner_unchecked|get_mut|into_inner)$"):
            a = t["args"][0]
            ty = a["place"]["ty"] if a["k"] != "const" else a["ty"]
            if enum_path in ty or ctx.facts.type_mentions(ty, lambda x, c: x["k"] == "param"):
                n_src += 1
            # an unchecked unpinning of ANY pinned place that holds a type parameter inline (the adapters' pinned upstream,
            # the order wrapper's child ...) yields a reference that is audited like the slot references
            if re.search(r"(get_unchecked_mut|into_inner_unchecked)$", fn["def"]) and not t["dest"]["p"]:
                dl = t["dest"]["l"]
                dty = ctx.facts.types.get(b.locals[dl])
                if dty and dty["k"] == "ref" and holds_param_inline(ctx, dty["ty"]) and dl not in sens:
                    work_l = [dl]
                    while work_l:          # follow plain moves / reborrows of the unpinned reference
                        l_ = work_l.pop()
                        if l_ in sens:
                            continue
                        sens.append(l_)
                        for ub, ui, node in fl.uses_of_local(l_):
                            if ui != "term" and node["k"] == "assign" and not node["place"]["p"] and \
                                    ((node["rv"]["k"] == "use" and node["rv"]["op"]["k"] in ("move", "copy") and not node["rv"]["op"]["place"]["p"]) or
                                     (node["rv"]["k"] == "ref" and [e_["k"] for e_ in node["rv"]["place"]["p"]] == ["deref"])):
                                work_l.append(node["place"]["l"])
        for l in sens:
            for ub, ui, node in fl.uses_of_local(l):
                if b.is_cleanup(ub):
                    continue
                n_use += 1
                ok = True
                det = ""
                if ui == "term":
                    if node["k"] == "call":
                        f = node["func"]
                        if f["k"] == "const" and "fn" in f:
                            nm = fn_name(f["fn"]) or ""
                            ok = bool(re.search(ALLOWED_CALLS, nm))
                            det = "passed to " + nm
                        else:
                            ok = False
                            det = "passed to an indirect callee"
                    elif node["k"] == "drop":
                        ok = True
                    elif node["k"] == "switch":
                        ok = True
                else:
                    s = node
                    # store through the pointer of slot type?
                    if s["place"]["l"] == l and s["place"]["p"]:
                        pty = s["place"]["ty"]
                        if (enum_path + "<" in pty and not pty.startswith("&")) or holds_param_inline(ctx, pty):
                            ok = False
                            det = "assignment through unpinned reference (*p = v) of type %s" % pty
                        # writing the free-list payload (usize) of a NextFree slot is harmless
                    rv = s["rv"]
                    if rv["k"] == "use" and rv["op"]["k"] == "move" and rv["op"]["place"]["l"] == l and rv["op"]["place"]["p"]:
                        mty = rv["op"]["place"]["ty"]
                        mt = ctx.facts.types.get(mty)
                        if mt and (mt["k"] == "param" or (mt["k"] == "adt" and mt["name"] == enum_path) or holds_param_inline(ctx, mty)):
                            ok = False
                            det = "move out of unpinned storage: %s" % place_str(rv["op"]["place"])
                    if rv["k"] == "use" and rv["op"]["k"] == "copy" and rv["op"]["place"]["l"] == l and rv["op"]["place"]["p"]:
                        mty = rv["op"]["place"]["ty"]
                        mt = ctx.facts.types.get(mty)
                        if mt and (mt["k"] == "param" or (mt["k"] == "adt" and mt["name"] == enum_path) or holds_param_inline(ctx, mty)):
                            ok = False
                            det = "copy out of unpinned storage"
                if not ok:
                    ctx.ob("R8.2", b, "unpinned-use@%s" % (_site_label(b, ub) if ui == "term" else "stmt"), False, b.loc(ub, None if ui == "term" else ui), det)
        if sens:
            ctx.ob("R8.2", b, "all-unpinned-uses-allowed", True, d_loc(b), "%d sensitive locals" % len(sens))
    ctx.floor("R8.2", "unpinning-call-sites", n_src, 3)
    ctx.floor("R8.2", "uses-of-unpinned-references", n_use, 8)
    # crate-wide: move APIs never see slot / child-by-value types
    bad = 0
    for b in ctx.facts.fn_bodies():
        if "::_::<impl" in b.path:
            continue
        for bb, t, fn in direct_sites(b, r"core::mem::(swap|replace|take)$|core::ptr::(read|write|copy|copy_nonoverlapping|swap|replace)$|"
                                          r"core::slice::<impl \[T\]>::(swap|rotate_left|rotate_right|sort.*|reverse|copy_within|swap_with_slice|fill_with|fill)$"):
            tys = [(a["place"]["ty"] if a["k"] != "const" else a["ty"]) for a in t["args"]]
            if any(enum_path + "<" in x for x in tys):
                bad += 1
                ctx.ob("R8.2", b, "move-api-over-slot-storage@%s" % _site_label(b, bb), False, b.loc(bb), "%s(%s)" % (fn["def"], tys))
    ctx.ob("R8.2", "<crate>", "no-move-api-over-slot-storage", bad == 0, "", "")


def r8_3(ctx, R):
    ctx.rule("R8.3", "no by-value extraction: no MIR move/copy of an Occupied payload; no effectively-public function "
                     "returns a bare type parameter, &mut P, Pin<&mut P> or an iterator over slot storage (a shared &P is harmless), except "
                     "try_push*/try_push_back/front: Result<(), P> (the refused argument)")
    occ, free = R.slot_variants
    n = 0
    for b in ctx.facts.fn_bodies():
        for bb in range(b.n):
            for s in b.stmts(bb):
                if s["k"] != "assign":
                    continue
                rv = s["rv"]
                ops = []
                if rv["k"] == "use":
                    ops = [rv["op"]]
                elif rv["k"] == "aggregate":
                    ops = rv["ops"]
                for o in ops:
                    if o["k"] in ("move", "copy") and any(e["k"] == "downcast" and e["variant"] == occ for e in o["place"]["p"]):
                        t = ctx.facts.types.get(o["place"]["ty"])
                        if t and t["k"] != "ref":
                            n += 1
                            ctx.ob("R8.3", b, "move-out-of-occupied", b.is_cleanup(bb) and False, b.loc(bb), place_str(o["place"]))
    ctx.ob("R8.3", "<crate>", "no-move-out-of-occupied-payload", n == 0, "", "")
    m = 0
    for p, f in ctx.facts.fns.items():
        if not f["effective_pub"]:
            continue
        m += 1
        hits = []

        def walk(key, ctxs=()):
            t = ctx.facts.types.get(key)
            if not t:
                return
            k = t["k"]
            if k == "param" and not t["name"].startswith("impl "):
                hits.append((t["name"], ctxs))
            elif k == "ref":
                walk(t["ty"], ctxs + ("&mut" if t["mut"] else "&",))
            elif k == "tuple":
                for a in t["tys"]:
                    walk(a, ctxs + ("tuple",))
            elif k == "adt":
                if t["local"]:
                    if t["name"].endswith("IterMut"):
                        hits.append(("iterator:" + t["name"], ctxs))
                    return
                for a in t["args"]:
                    if isinstance(a, str):
                        walk(a, ctxs + (t["name"].split("::")[-1],))
        walk(f["output"])
        for name, c in hits:
            refs = [x for x in c if x in ("&", "&mut")]
            if refs and refs[-1] == "&":
                continue      # behind a shared reference: can be looked at, never moved or polled
            allowed = re.search(r"::try_push(_back|_front)?$", p) and c == ("Result",) or \
                (p.endswith("::default") or p.endswith("::from_iter")) and False
            ctx.ob("R8.3", p, "public-signature-returns-child:%s" % name, bool(allowed), "", "output %s via %s" % (f["output"], c))
    ctx.floor("R8.3", "public-fns-audited", m, 60)


def run(ctx):
    R = roles(ctx)
    R.slot_enum, R.slot_variants
    r8_1(ctx, R)
    r8_2(ctx, R)
    r8_3(ctx, R)
