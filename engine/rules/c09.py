"""C09 -- buffered adapters never exceed their limit and keep it saturated (n >= 1)."""
import re

from lib_facts import place_str, fn_name
from lib_flow import strip_refs, expr_calls, expr_str
from lib_inter import deep_leaves, returned_exprs
from roles import roles, direct_sites, callee_body
from c01 import _site_label, d_loc
from adapters import adapter_fns, AdapterModel, simulate, ev_str, queue_field_of

EXPLANATION = (
    "Path-sensitive static decision over every flag/variant-feasible path (each block visited <= 3 times) of the five "
    "adapter poll functions, abstracted to event sequences (guard outcome, upstream poll outcome, set(None), push, inner "
    "poll outcome, tail test, return kind) and replayed through a small abstract state (stream Some/None, queue "
    "full/non-empty/empty, upstream-answered-Pending-in-this-call): R9.1 the inner bounded queue is constructed with the "
    "limit parameter itself and the queue field is never reassigned; R9.2 every insertion is preceded, since the previous "
    "insertion, by a true outcome of a guard `count < capacity()` on the same queue whose count reads the running-futures "
    "counter; R9.3 work conservation: on every feasible path that returns Pending, the last inner poll answered Pending and "
    "(the guard was observed false after the last insertion/completion, or the upstream is gone, or the upstream answered "
    "Pending in this call), or the inner queue is empty and the upstream answered Pending in this call. Callee summaries "
    "used (assume-guarantee, each decided by another property's rules): inner poll_next returns None iff empty (C02 R2.4), "
    "len/capacity report the counting fields (C15 R15.3), push succeeds iff len < capacity (C15 R15.4).")
ASSUMPTIONS = [
    "n >= 1 (the property's stated domain; limit 0 is C10/C15's business)",
    "inner collection: Ready(None) iff empty (C02), len/capacity observers (C15)",
    "loops unrolled to 3 visits per block: further iterations repeat the same per-iteration shape",
]


def models(ctx, R):
    ms = []
    seen = set()
    for b in adapter_fns(ctx, R):
        ms.append(AdapterModel(ctx, R, b))
        seen.add(b.path)
    # any other function that pulls from the upstream and answers a Poll (a `poll_progress`-style driver added next to
    # poll_next) is held to the same rules
    from adapters import upstream_pollers
    for b in upstream_pollers(ctx, R):
        if b.path not in seen and re.match(r"core::task::Poll<", b.locals[0] or ""):
            ms.append(AdapterModel(ctx, R, b))
            seen.add(b.path)
    return ms


def r9_1(ctx, R, ms):
    ctx.rule("R9.1", "capacity is n: every constructor of an adapter struct builds the queue field by the bounded "
                     "collection's `new` applied to its own limit parameter (possibly through one forwarding "
                     "constructor); no store to the queue field anywhere")
    n = 0
    structs = {m.struct: m.qfield for m in ms}
    for b in ctx.facts.fn_bodies():
        fl = ctx.flow(b)
        for rb, e in returned_exprs(ctx, b):
            if e[0] == "agg" and e[1].split("::")[-1] and any(e[1] == s + "::" + s.split("::")[-1] for s in structs):
                sp = [s for s in structs if e[1] == s + "::" + s.split("::")[-1]][0]
                q = dict(zip(e[3], e[2])).get(structs[sp])
                n += 1
                ok = q is not None and q[0] == "call" and re.search(r"Futures(Unordered|Ordered)Bounded::<.*>::new$", q[1] or "") is not None \
                    and strip_refs(q[2][0])[0] == "param"
                ctx.ob("R9.1", b, "queue=Bounded::new(limit-param)", ok, b.loc(rb), expr_str(q) if q else "?")
        for (bb, i, s) in fl.stores:
            if i == "term" or b.is_cleanup(bb):
                continue
            pe = fl.place_expr(s["place"])
            for sp, qf in structs.items():
                if qf and pe[0] == "proj" and pe[2][-1] == "." + qf and sp.split("::")[0] in b.path:
                    ctx.ob("R9.1", b, "store-to-queue-field", False, b.loc(bb))
    ctx.floor("R9.1", "adapter-constructors", n, 5)
    # forwarding constructors pass their own parameter
    for b in ctx.facts.fn_bodies():
        fl = ctx.flow(b)
        for bb, t, fn in b.calls():
            if fn and re.search(r"ForEachConcurrent::<.*>::new$", fn_name(fn) or ""):
                a = strip_refs(fl.operand_expr(t["args"][1]))
                ctx.ob("R9.1", b, "forwards-limit-param", a[0] == "param", b.loc(bb), expr_str(a))


def r9_2(ctx, R, ms, counter_field):
    ctx.rule("R9.2", "guarded push: on every feasible path each PUSH is preceded, since the previous PUSH, by a true "
                     "outcome of the fill guard; the guard compares (a value depending on the running-futures counter of "
                     "the queue) < (capacity() of the same queue)")
    for m in ms:
        b = m.b
        ordered = (m.qty or "").startswith("futures_ordered_bounded::")
        ctx.ob("R9.2", b, "has-fill-guard", len(m.guards) >= 1, d_loc(b), "guard switch blocks: %s" % sorted(m.guards))
        for sb, safe, sat, det in m.guard_semantics(ordered, safety_counts_parked=False):
            if safe is None:
                # no closed form: fall back to the exact shape  len() < capacity()  on the same queue
                gi = m.guard_info[sb]
                sh = gi["shape"]
                direct = bool(sh) and sh[0] == "Lt" and sh[1][0] == "call" and (sh[1][1] or "").endswith("::len") and \
                    sh[2][0] == "call" and (sh[2][1] or "").endswith("::capacity") and gi["pull_val"] is True
                ctx.ob("R9.2", b, "guard-operands@bb-ord%d" % sorted(m.guards).index(sb), direct, b.loc(sb), "shape rule (%s)" % det)
                continue
            ctx.ob("R9.2", b, "guard-admits-a-pull-only-below-the-limit@bb-ord%d" % sorted(m.guards).index(sb), safe, b.loc(sb),
                   "finite-grid entailment: pull ==> running < capacity; " + det)
            ctx.ob("R9.2", b, "guard-refuses-only-when-saturated@bb-ord%d" % sorted(m.guards).index(sb), sat, b.loc(sb),
                   "finite-grid entailment: no pull ==> running%s >= capacity; %s" % (" + parked" if ordered else "", det))
        bad = []
        npush = 0
        for path, ev in m.all_event_paths(3):
            feas, st = simulate(ev)
            if not feas:
                continue
            armed = False
            for e in ev:
                if e[0] == "G":
                    armed = e[1]
                elif e[0] == "PUSH":
                    npush += 1
                    if not armed:
                        bad.append(ev)
                    armed = False
        ctx.ob("R9.2", b, "every-push-behind-guard-true", not bad and npush > 0, d_loc(b),
               "%d push events on feasible paths; unguarded: %s" % (npush, ev_str(bad[0]) if bad else "-"))


def r9_4(ctx, R, counter, head):
    ctx.rule("R9.4", "the limit reaches the storage unchanged: starting from the bounded constructors the adapters call, every "
                     "crate constructor (`new` / `with_capacity` returning a crate collection, slot map or waker list) that is "
                     "called on the way receives the caller's own capacity parameter, unmodified (no min / max / clamp / "
                     "arithmetic); the slot map's empty constructor builds exactly `capacity` free slots (C02 R2.7)")
    start = set()
    for b in ctx.facts.fn_bodies():
        for bb, t, fn in b.calls():
            nm = fn_name(fn) if fn else ""
            if fn and re.search(r"Futures(Unordered|Ordered)Bounded::<.*>::new$", nm or "") and callee_body(ctx.facts, fn) is not None:
                start.add(callee_body(ctx.facts, fn).path)
    seen = set()
    work = sorted(start)
    n = 0
    while work:
        p = work.pop()
        if p in seen:
            continue
        seen.add(p)
        b = ctx.facts.bodies.get(p)
        if b is None:
            continue
        fl = ctx.flow(b)
        caps = [i for i in range(1, b.arg_count + 1) if b.locals[i] == "usize"]
        for bb, t, fn in b.calls():
            cb = callee_body(ctx.facts, fn)
            if cb is None or b.is_cleanup(bb) or not re.search(r"::(new|with_capacity)$", cb.path):
                continue
            uargs = [a for a in t["args"] if (a["place"]["ty"] if a["k"] in ("copy", "move") else a.get("ty")) == "usize"]
            if len(uargs) != 1 or not caps:
                continue
            n += 1
            e = strip_refs(fl.operand_expr(uargs[0]))
            ok = e[0] == "param" and e[1] in caps
            ctx.ob("R9.4", b, "passes-its-own-capacity-to:%s" % cb.path.split("::<")[0].split("::")[-1] + "@" + _site_label(b, bb), ok, b.loc(bb), expr_str(e))
            work.append(cb.path)
    ctx.floor("R9.4", "constructor-calls-on-the-capacity-chain", n, 3)
    import c02
    c02.r2_7(ctx, R, counter, head)
    ctx.rule("R2.7", "see C02 R2.7 (shared): the slot map's empty constructor builds slots 1..=capacity as a free list; checked lookup")


def _same_queue(l, r, qfield):
    return (("." + qfield) in repr(l)) == (("." + qfield) in repr(r)) if qfield else True


def pending_ok(ev, st):
    """Work-conservation predicate at a Pending return."""
    # queue observed full after the last insertion / completion?
    full = False
    for e in reversed(ev[:-1]):
        if e[0] == "PUSH" or (e[0] == "I" and e[1] == "Some"):
            break
        if e[0] == "G" and e[1] is False:
            full = True
            break
    if st["stream"] == "None" or st["up_ended"]:
        # the property's own disjunct "upstream has ended" (whether Pending is right then is C10's termination clause)
        return True, "upstream has ended"
    if st["last_I"] == "Pending" and (full or st["stream"] == "None" or st["up_pending"] or st["up_ended"]):
        return True, "inner Pending & (%s)" % ("full" if full else "upstream gone" if (st["stream"] == "None" or st["up_ended"]) else "upstream Pending this call")
    if st["last_I"] == "None" and st["up_pending"] and st["stream"] == "Some":
        return True, "nothing in flight & upstream Pending this call"
    return False, "last inner=%s full=%s stream=%s up_pending=%s" % (st["last_I"], full, st["stream"], st["up_pending"])


def r9_3(ctx, R, ms):
    ctx.rule("R9.3", "work conservation: every feasible path returning Pending satisfies: last inner poll Pending and "
                     "(guard false after the last push/completion, or upstream gone, or upstream Pending in this call); or "
                     "inner empty, upstream present and Pending in this call")
    for m in ms:
        b = m.b
        bad = []
        n = 0
        samples = []
        for path, ev in m.all_event_paths(3):
            feas, st = simulate(ev)
            if not feas:
                continue
            rk = ev[-1][1]
            if rk in ("Pending", "Forward:Pending"):
                n += 1
                ok, why = pending_ok(ev, st)
                if not ok:
                    bad.append((ev, why, path))
                elif len(samples) < 3:
                    samples.append(ev_str(ev) + " => " + why)
        ctx.ob("R9.3", b, "pending-returns-are-work-conserving", not bad and n > 0, d_loc(b),
               "%d feasible Pending paths; e.g. %s; violating: %s" % (n, samples[:2], (ev_str(bad[0][0]) + " [" + bad[0][1] + "]") if bad else "-"),
               path=bad[0][2] if bad else None)


def run(ctx):
    R = roles(ctx)
    R.insert_fn
    import c02
    res = c02.r2_3(ctx, R)
    # the fill guard reads the slot map's occupied counter; it means "a free slot can be claimed" only while counter and free
    # list move together (a slot that drops out of the free list while the counter goes down makes the guard admit a pull
    # the insert then refuses: the adapter panics / stalls below its limit)
    ctx.rule("R2.3", "see C02 R2.3 (shared link): slot-map insert / remove keep the occupied counter and the free list in step")
    counter = res["INSERT"][0]
    head = res["INSERT"][1]
    ctx.need(counter is not None, "COUNTER: slot-map occupied counter")
    ms = models(ctx, R)
    ctx.floor("R9.0", "adapter-poll-functions", len(ms), 5)
    r9_1(ctx, R, ms)
    r9_2(ctx, R, ms, counter)
    r9_3(ctx, R, ms)
    r9_4(ctx, R, counter, head)
    import shared_links
    shared_links.adapter_links(ctx, R, counter, head)
