#!/usr/bin/env python3
"""Developer tool: pretty print MIR facts of bodies matching a regex."""
import sys, glob
from lib_facts import Facts
f = Facts.load(sys.argv[1])
for b in f.find_bodies(sys.argv[2]):
    print(b.pp()); print()
