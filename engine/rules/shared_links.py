"""Assume-guarantee links used by the adapter properties, evaluated so each check stands alone."""
import c02
import c15


def adapter_links(ctx, R, counter, head=None):
    """inner poll_next returns None iff empty (C02 R2.4); len/capacity observers (C15 R15.3); accept iff not full (C15 R15.4);
    the bounded inner collections deliver what they accepted (C02 R2.1)."""
    c02.r2_4(ctx, R, counter)
    ctx.rule("R2.4", "see C02 R2.4 (shared link): inner Ready(None) only behind emptiness")
    c15.r15_3(ctx, R, counter)
    ctx.rule("R15.3", "see C15 R15.3 (shared link): len / is_empty / capacity observers read the counting fields")
    if head is not None:
        c15.r15_4(ctx, R, head)
        ctx.rule("R15.4", "see C15 R15.4 (shared link): the bounded insert refuses only when full")
    c02.r2_1(ctx, R, only_in=c02.COLLECTIONS)
    ctx.rule("R2.1", "see C02 R2.1 (shared link): a finished future is removed and its output returned")
