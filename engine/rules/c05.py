"""C05 -- a finished child is never polled again and is released promptly."""
import re

from lib_facts import place_str, fn_name, callee_matches
from lib_flow import strip_refs, expr_calls, expr_str, variant_facts, blocks_with, first_entries, must_pass_flags
from lib_inter import returned_exprs
from roles import roles, direct_sites, callee_body, RE_PIN_SET, RE_FUTURE_POLL, RE_STREAM_POLL_NEXT
from c01 import _site_label, d_loc
import c02

EXPLANATION = (
    "Static decision of: R5.1 every child poll in the crate receives a Pin<&mut F> that is the Some payload of the "
    "slot-map's Occupied-only accessor applied to the index delivered by the dequeue of the same loop iteration, and that "
    "accessor builds Some only under the Occupied variant edge from the payload of that variant (a vacant or recycled-"
    "then-vacated slot can never be polled; a stale waker can only enqueue an index); R5.2 when the drained child returned "
    "Ready (future) / Ready(None) (merged stream) the slot-map REMOVE of the same index is must-pass-through before the "
    "function returns or drains again, and every caller of the drain function handles the Ready arm by remove or re-arm; "
    "R5.3 REMOVE overwrites the slot through Pin::set (drop in place) and no slot/child value flows into mem::replace/"
    "swap/take/forget or ptr::read/write/copy. (The fusing of the adapters' upstream, R5.4, is C10's clause and is "
    "evaluated there.) Decided in full at the structural level.")
ASSUMPTIONS = [
    "dev-profile MIR at mir-opt-level=0 represents the source",
    "Pin::set drops the previous value in place before writing",
    "the ready queue only carries indices (cordyceps nodes live in the waker allocation, not in slots)",
]

MOVE_APIS = r"core::mem::(replace|swap|take|forget)$|core::ptr::(read|write|copy|copy_nonoverlapping|swap|replace|read_unaligned|write_unaligned)$|core::ptr::(mut_ptr|const_ptr)::<impl \*(mut|const) T>::(read|write|swap|replace|copy_to|copy_from)"


def r5_1(ctx, R):
    ctx.rule("R5.1", "Occupied-only access: CHILD-POLL receiver = Some payload of ACCESSOR(popped index) of the same "
                     "iteration; ACCESSOR returns Some only on the Occupied variant edge, wrapping that variant's payload")
    occ, free = R.slot_variants
    accs = R.accessor_fns
    ctx.floor("R5.1", "accessor-fns", len(accs), 1)
    for a in accs:
        fl = ctx.flow(a)
        vf = variant_facts(a, fl)
        n = 0
        for bb, e in returned_exprs(ctx, a):
            if e[0] == "agg" and e[1].endswith("Option::Some"):
                n += 1
                facts_here = vf.get(bb, frozenset())
                under_occ = any(v == occ for (_, v) in facts_here)
                payload = strip_refs(e[2][0])
                from_occ = payload[0] == "proj" and ("@" + occ) in payload[2]
                if not (under_occ and from_occ):
                    # the Occupied test may sit in an inlined helper (`slot.occupied_mut()?`): on every feasible path that
                    # returns Some, the payload -- evaluated along that path -- is the Occupied variant's field
                    from lib_flow import sensitive_paths, PathEval
                    npth = 0
                    allok = True
                    for kind_, pth, know in sensitive_paths(a, fl, 2):
                        if kind_ != "return" or bb not in pth:
                            continue
                        r_ = PathEval(a, pth).local_expr(0)
                        if not (r_[0] == "agg" and r_[1].endswith("Option::Some")):
                            continue
                        npth += 1
                        pl_ = strip_refs(r_[2][0])
                        if not (("@" + occ) in repr(pl_)):
                            allok = False
                    if npth and allok:
                        under_occ = from_occ = True
                ctx.ob("R5.1", a, "accessor-some-only-under-occupied#%d" % n, under_occ and from_occ, a.loc(bb),
                       "facts=%s payload=%s" % (sorted(facts_here), expr_str(payload)))
        if n == 0:
            # no `Some(..)` is built at a return: the answer is the verdict of an inlined helper / an expanded combinator
            # (`self.get_slot(key).and_then(Slot::project)`) moved into the return slot after a join -- decide per path
            from lib_flow import sensitive_paths, PathEval, path_const_feasible
            bad = None
            for kind_, pth, know in sensitive_paths(a, fl, 2):
                if kind_ != "return" or not path_const_feasible(a, pth):
                    continue
                r_ = PathEval(a, pth).local_expr(0)
                if r_[0] == "agg" and r_[1].endswith("Option::None"):
                    continue
                if r_[0] == "agg" and r_[1].endswith("Option::Some"):
                    n += 1
                    if ("@" + occ) not in repr(strip_refs(r_[2][0])):
                        bad = bad or (pth, expr_str(r_))
                    continue
                if r_[0] == "call" and "FromResidual" in (r_[1] or ""):
                    continue        # `?` on an Option: None
                bad = bad or (pth, expr_str(r_))
            if n or bad:
                ctx.ob("R5.1", a, "accessor-some-only-under-occupied#paths", bad is None and n > 0, d_loc(a),
                       "%d paths return Some; %s" % (n, "all wrap the Occupied payload" if bad is None else "offending: %s" % bad[1][:200]),
                       path=bad[0] if bad else None)
        ctx.floor("R5.1", "accessor-some-returns:" + a.path, n, 1)
    pops = {p.path for p in R.pop_fns}
    accp = {a.path for a in accs}
    n = 0
    for b in ctx.facts.fn_bodies():
        sites = R.child_poll_sites(b)
        if not sites:
            continue
        fl = ctx.flow(b)
        # upstream polls of adapters (receiver derived from as_pin_mut) are R5.4's business
        for bb, t, fn in sites:
            recv = strip_refs(fl.operand_expr(t["args"][0]))
            if any(re.search(r"Option::<.*>::as_pin_mut$", c[1] or "") for c in expr_calls(recv)):
                continue
            from roles import order_wrapper_path
            if b.path.startswith("<%s<" % (order_wrapper_path(ctx.facts) or "?")) or ">::project" in str(recv):
                # OrderWrapper::poll forwards to its own pinned field: the wrapper itself is the child of the inner queue
                inner = recv
                ok = inner[0] in ("proj", "call")
                ctx.ob("R5.1", b, "wrapper-forwards-to-own-pinned-field@%s" % _site_label(b, bb), ok, b.loc(bb), expr_str(recv))
                continue
            n += 1
            ok = False
            det = expr_str(recv)
            if recv[0] == "proj" and recv[2] and recv[2][0] == "@Some" and recv[1][0] == "call" and recv[1][1] in accp:
                idx = recv[1][2][-1]
                if idx[0] == "proj" and idx[1][0] == "call" and idx[1][1] in pops:
                    popbb = idx[1][3]
                    from lib_flow import all_arrivals_visit
                    ok = all_arrivals_visit(b, fl, bb, popbb) and all_arrivals_visit(b, fl, bb, recv[1][3])
            ctx.ob("R5.1", b, "child-poll-through-accessor(popped index)@%s" % _site_label(b, bb), ok, b.loc(bb), det)
    ctx.floor("R5.1", "child-poll-sites", n, 1)


def r5_2(ctx, R, only_in=None):
    ctx.rule("R5.2", "Ready => vacated before return: futures: R2.1; merged streams: on the drained (i, None) path "
                     "REMOVE(i) is must-pass-through before the next DRAIN call or return and on (i, Some) no REMOVE; "
                     "sibling rule: every caller of DRAIN handles its Ready(Some) arm by REMOVE or MARK")
    c02.r2_1(ctx, R, only_in=only_in)
    ctx.rule("R2.1", "see C02 R2.1 (shared): vacate <=> Ready for future-polling callers of DRAIN")
    rem, mark = R.remove_fn, R.mark_fn
    n = 0
    for b, (dbb, dt, dfn) in c02.future_drain_callers(ctx, R, RE_STREAM_POLL_NEXT):
        n += 1
        fl = ctx.flow(b)
        vf = variant_facts(b, fl)
        dest = place_str(dt["dest"])
        inner = "((%s as Ready).0 as Some).0.1" % dest
        none_r = blocks_with(vf, [(dest, "Ready"), ("(%s as Ready).0" % dest, "Some"), (inner, "None")])
        some_r = blocks_with(vf, [(dest, "Ready"), ("(%s as Ready).0" % dest, "Some"), (inner, "Some")])
        rems = []
        for rbb, rt, rfn in R.calls_to_body(b, rem):
            idx = fl.operand_expr(rt["args"][-1])
            same = idx[0] == "proj" and idx[1][0] == "call" and idx[1][3] == dbb and idx[2] == ("@Ready", ".0", "@Some", ".0", ".0")
            ctx.ob("R5.2", b, "merge-remove-only-on-none-path@%s" % _site_label(b, rbb), same and rbb in none_r and rbb not in some_r,
                   b.loc(rbb), "index=%s" % expr_str(idx))
            if same and rbb in none_r:
                rems.append(rbb)
        ents = first_entries(b, fl, dbb, none_r)
        stops = b.returns() + [dbb]
        ok = bool(ents) and bool(rems) and all(must_pass_flags(b, fl, e, stops, rems) for e in ents)
        ctx.ob("R5.2", b, "merge-none=>remove(i)@%s" % _site_label(b, dbb), ok, b.loc(dbb),
               "entries %s, REMOVE sites %s" % (sorted(ents), [b.loc(r) for r in rems]))
    ctx.floor("R5.2", "stream-drain-callers", n, 1)
    m = 0
    for d in R.drain_fns:
        for b, ss in R.callers_of(d):
            m += 1
            ok = bool(R.calls_to_body(b, rem)) or bool(R.calls_to_body(b, mark))
            ctx.ob("R5.2", b, "drain-caller-handles-ready-arm", ok, b.loc(ss[0][0]))
    ctx.floor("R5.2", "drain-callers", m, 2)


def r5_3(ctx, R):
    ctx.rule("R5.3", "removal drops in place: REMOVE overwrites the slot through Pin::set; no value whose type mentions "
                     "the slot enum or a child parameter by value flows into mem::replace/swap/take/forget or "
                     "ptr::read/write/copy* anywhere in the slot-map module or the bounded collection")
    rem = R.remove_fn
    occ, free = R.slot_variants
    sets = [x for x in R._pin_set_variant(rem) if x[2] == free]
    ctx.ob("R5.3", rem, "remove-uses-Pin::set", len(sets) >= 1, d_loc(rem))
    enum_path = R.slot_enum[0]
    n = 0
    for b in ctx.facts.fn_bodies():
        for bb, t, fn in direct_sites(b, MOVE_APIS):
            tys = " ".join(ctx.facts.types and (a["place"]["ty"] if a["k"] != "const" else a["ty"]) for a in t["args"])
            if enum_path + "<" in tys:
                n += 1
                ctx.ob("R5.3", b, "move-api-on-slot@%s" % _site_label(b, bb), False, b.loc(bb), "%s(%s)" % (fn["def"], tys))
    ctx.ob("R5.3", "<crate>", "no-move-api-on-slot-values", n == 0, "", "sites: %d" % n)


def upstream_poll_sites(ctx, R, b):
    """(bb, term, recv_expr) of CHILD-POLL sites whose receiver derives from Option::as_pin_mut."""
    fl = ctx.flow(b)
    out = []
    for bb, t, fn in R.child_poll_sites(b):
        recv = strip_refs(fl.operand_expr(t["args"][0]))
        if any(re.search(r"Option::<.*>::as_pin_mut$", c[1] or "") for c in expr_calls(recv)):
            out.append((bb, t, recv))
    return out


def r5_4(ctx, R):
    ctx.rule("R5.4", "upstreams: polled only through the Some arm of Option::as_pin_mut of the stream field, and on its "
                     "Ready(None) edge Pin::set(stream, None) is must-pass-through before any further upstream poll or return")
    n = 0
    for b in ctx.facts.fn_bodies():
        ups = upstream_poll_sites(ctx, R, b)
        if not ups:
            continue
        fl = ctx.flow(b)
        vf = variant_facts(b, fl)
        for bb, t, recv in ups:
            n += 1
            ok = recv[0] == "proj" and recv[2] and recv[2][0] == "@Some"
            ctx.ob("R5.4", b, "upstream-polled-via-as_pin_mut-Some@%s" % _site_label(b, bb), ok, b.loc(bb), expr_str(recv))
            # Ready(None) edge -> set(None)
            dest = place_str(t["dest"])
            none_r = _upstream_none_region(b, fl, vf, bb, dest)
            sets = []
            for sbb, st, sfn in direct_sites(b, RE_PIN_SET):
                v = fl.operand_expr(st["args"][1])
                if v[0] == "agg" and v[1].endswith("Option::None"):
                    sets.append(sbb)
            ents = first_entries(b, fl, bb, none_r)
            stops = b.returns() + [x[0] for x in ups]
            ok2 = bool(ents) and bool(sets) and all(must_pass_flags(b, fl, e, stops, sets) for e in ents)
            if ents and sets and not ok2:
                # the end of the upstream may be reported by an inlined helper as a value that is matched after a join
                # (`Ok(Upstream::Exhausted)` .. `if let Exhausted = upstream { stream.set(None) }`): per feasible path, from the
                # point the None is known up to the next upstream poll / the return, a set(None) is passed
                from lib_flow import sensitive_paths, path_const_feasible
                ok2 = True
                nseg = 0
                upbbs = {x[0] for x in ups}
                for kind_, pth, know in sensitive_paths(b, fl, 2):
                    if kind_ != "return" or not path_const_feasible(b, pth):
                        continue
                    for i_, x_ in enumerate(pth):
                        if x_ not in ents or bb not in pth[:i_]:
                            continue
                        end = len(pth)
                        for j_ in range(i_ + 1, len(pth)):
                            if pth[j_] in upbbs:
                                end = j_
                                break
                        nseg += 1
                        if not any(y_ in sets for y_ in pth[i_:end]):
                            ok2 = False
                ok2 = ok2 and nseg > 0
            ctx.ob("R5.4", b, "upstream-none=>set(None)@%s" % _site_label(b, bb), ok2, b.loc(bb),
                   "none-region entries %s set(None) sites %s" % (sorted(ents), [b.loc(s) for s in sets]))
    ctx.floor("R5.4", "upstream-poll-sites", n, 5)


def _upstream_none_region(b, fl, vf, pollbb, dest):
    """Blocks where the upstream poll result is known Ready(None) (directly or through the `?` branch temp)."""
    out = set()
    for bb, facts in vf.items():
        # direct: (dest, Ready) & ((dest as Ready).0, None) -- a must-fact about the poll's own destination, which has no
        # other definition, so every path to bb ran the poll (dominance not needed: the result may have been wrapped
        # and matched after a join)
        if (dest, "Ready") in facts and ("(%s as Ready).0" % dest, "None") in facts:
            out.add(bb)
            continue
        if not b.dominates(pollbb, bb):
            continue
        # via Try::branch: a place derived from a call chain containing the poll, with Continue/Ready/None facts
        for (p, v) in facts:
            if v == "None":
                m = re.search(r"_(\d+)", p)
                if m:
                    e = fl.local_expr(int(m.group(1)))
                    if any(c[3] == pollbb for c in expr_calls(e)) or (e[0] == "proj" and any(c[3] == pollbb for c in expr_calls(e[1]))):
                        if "Ready" in p or any(v2 == "Ready" for (p2, v2) in facts):
                            out.add(bb)
    return out


def run(ctx):
    R = roles(ctx)
    R.pop_fn, R.drain_fn, R.insert_fn, R.remove_fn
    r5_1(ctx, R)
    r5_2(ctx, R)
    r5_3(ctx, R)
    # "vacated" must mean "dropped in place and invisible to the accessor": the slot-map semantics C02 establishes
    import c02
    c02.r2_3(ctx, R)
    ctx.rule("R2.3", "see C02 R2.3 (shared): REMOVE overwrites an Occupied slot with the free variant on every path (Pin::set = "
                     "drop in place) and the Occupied-only ACCESSOR yields a child only for Occupied slots; INSERT / REMOVE "
                     "are all-or-none")
