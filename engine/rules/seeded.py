#!/usr/bin/env python3
"""Run the registered static checks against the seeded breaking changes kept under /verif/seeded/<name>/
(patch.diff + demo + meta.json).  Each patch is applied to a scratch copy of /repo's working tree (outside
/repo and /verif, removed afterwards); nothing is executed, only the static checks are re-run on the copy.

  seeded.py run [name ...]      table: seeded change -> properties whose check reports a violation
  seeded.py json                same, written to /verif/seeded/RESULTS.json
"""
import glob
import json
import os
import shutil
import subprocess
import sys
import tempfile
from concurrent.futures import ThreadPoolExecutor

HERE = os.path.dirname(os.path.abspath(__file__))
VERIF = os.path.dirname(os.path.dirname(HERE))
sys.path.insert(0, HERE)
import mutants  # noqa: E402

PROPS = ["C%02d" % i for i in range(1, 19)]


_BASELINES = {}


def baseline(repo, commit, props):
    """Violation keys the checks report on the bare tree of an earlier commit (defects repaired since by `fix:` commits)."""
    if commit in _BASELINES:
        return _BASELINES[commit]
    scratch = tempfile.mkdtemp(prefix="fbbase.")
    res = {}
    try:
        root = os.path.join(scratch, "repo")
        os.makedirs(root)
        subprocess.run("git -C %s archive %s | tar x -C %s" % (repo, commit, root), shell=True, check=True)

        def one(p):
            ev = os.path.join(scratch, "ev-" + p)
            rr = subprocess.run([sys.executable, os.path.join(HERE, "run.py"), p, "--repo", root, "--tier", "quick",
                                 "--evidence-dir", ev, "--no-mutants"], stdout=subprocess.PIPE, stderr=subprocess.STDOUT, text=True)
            return p, {l.strip()[len("violated: "):].split("  at ")[0] for l in rr.stdout.splitlines() if l.strip().startswith("violated: ")}
        with ThreadPoolExecutor(max_workers=9) as ex:
            for p, vs in ex.map(one, PROPS):
                res[p] = vs
    finally:
        shutil.rmtree(scratch, ignore_errors=True)
    _BASELINES[commit] = res
    return res


def run_seed(d, repo="/repo", props=None):
    name = os.path.basename(d.rstrip("/"))
    meta = {}
    try:
        meta = json.load(open(os.path.join(d, "meta.json")))
    except Exception:
        pass
    scratch = tempfile.mkdtemp(prefix="fbseed.")
    try:
        root = os.path.join(scratch, "repo")
        os.makedirs(root)
        base = meta.get("base_commit")
        if base:
            # written against an earlier commit of /repo and overlapping a later `fix:` commit: applied to the tree it was written
            # for; what the bare base tree itself violates (the defects repaired since) is subtracted below
            subprocess.run("git -C %s archive %s | tar x -C %s" % (repo, base, root), shell=True, check=True)
        else:
            mutants.copy_tree(repo, root)
        r = subprocess.run(["patch", "-p1", "--no-backup-if-mismatch", "-i", os.path.join(d, "patch.diff")], cwd=root,
                           stdout=subprocess.PIPE, stderr=subprocess.STDOUT, text=True)
        if r.returncode != 0:
            return {"seed": name, "property": meta.get("property"), "status": "patch-does-not-apply", "detail": r.stdout[-400:]}
        out = {}

        def one(p):
            ev = os.path.join(scratch, "ev-" + p)
            rr = subprocess.run([sys.executable, os.path.join(HERE, "run.py"), p, "--repo", root, "--tier", "quick",
                                 "--evidence-dir", ev, "--no-mutants"], stdout=subprocess.PIPE, stderr=subprocess.STDOUT, text=True)
            viol = [l.strip()[len("violated: "):].split("  at ")[0] for l in rr.stdout.splitlines() if l.strip().startswith("violated: ")]
            anchor = [l.strip() for l in rr.stdout.splitlines() if "reason=anchor lost" in l]
            if "fact extraction failed" in rr.stdout:
                return p, {"rc": rr.returncode, "error": "does not compile"}
            return p, {"rc": rr.returncode, "violations": viol + anchor[:1]}
        with ThreadPoolExecutor(max_workers=9) as ex:
            for p, res in ex.map(one, props or PROPS):
                out[p] = res
        if base:
            bl = baseline(repo, base, props or PROPS)
            for p in out:
                if out[p]["rc"] == 1 and "error" not in out[p]:
                    new_v = [v for v in out[p]["violations"] if v not in bl.get(p, set())]
                    out[p]["violations"] = new_v
                    if not new_v:
                        out[p]["rc"] = 0
        reported = [p for p in out if out[p]["rc"] == 1]
        own = meta.get("property")
        return {"seed": name, "property": own, "status": "reported" if reported else "MISSED",
                "caught_by_own_property": own in reported, "reported_by": reported,
                "details": {p: out[p]["violations"][:6] for p in reported}}
    finally:
        shutil.rmtree(scratch, ignore_errors=True)


def main():
    names = sys.argv[2:] if len(sys.argv) > 2 else None
    dirs = sorted(d for d in glob.glob(os.path.join(VERIF, "seeded", "*")) if os.path.isfile(os.path.join(d, "patch.diff")))
    if names:
        dirs = [d for d in dirs if os.path.basename(d) in names]
    res = []
    for d in dirs:
        r = run_seed(d)
        res.append(r)
        own = r.get("property")
        print("%-14s %-4s %-9s own:%-5s by:%s" % (r["seed"], own, r["status"], r.get("caught_by_own_property"), ",".join(r.get("reported_by", []))))
        if r["status"] == "reported":
            for p in ([own] if own in r["details"] else r["reported_by"][:1]):
                for v in r["details"][p][:2]:
                    print("      %s: %s" % (p, v[:200]))
    if len(sys.argv) > 1 and sys.argv[1] == "json":
        json.dump(res, open(os.path.join(VERIF, "seeded", "RESULTS.json"), "w"), indent=1)
    print("seeded changes: %d, reported: %d, by own property: %d" % (
        len(res), sum(1 for r in res if r["status"] == "reported"), sum(1 for r in res if r.get("caught_by_own_property"))))


if __name__ == "__main__":
    main()
