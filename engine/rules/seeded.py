#!/usr/bin/env python3
"""Run the registered static checks against the seeded breaking changes kept under /verif/seeded/<name>/
(patch.diff + demo + meta.json).  Each patch is applied to a scratch copy of /repo's working tree (outside
/repo and /verif, removed afterwards); nothing is executed, only the static checks are re-run on the copy.

  seeded.py run [name ...]      table: seeded change -> properties whose check reports a violation
  seeded.py json                same, written to /verif/seeded/RESULTS.json
"""
import glob
import json
import os
import shutil
import subprocess
import sys
import tempfile
from concurrent.futures import ThreadPoolExecutor

HERE = os.path.dirname(os.path.abspath(__file__))
VERIF = os.path.dirname(os.path.dirname(HERE))
sys.path.insert(0, HERE)
import mutants  # noqa: E402

PROPS = ["C%02d" % i for i in range(1, 19)]


def run_seed(d, repo="/repo", props=None):
    name = os.path.basename(d.rstrip("/"))
    meta = {}
    try:
        meta = json.load(open(os.path.join(d, "meta.json")))
    except Exception:
        pass
    scratch = tempfile.mkdtemp(prefix="fbseed.")
    try:
        root = os.path.join(scratch, "repo")
        os.makedirs(root)
        mutants.copy_tree(repo, root)
        r = subprocess.run(["patch", "-p1", "--no-backup-if-mismatch", "-i", os.path.join(d, "patch.diff")], cwd=root,
                           stdout=subprocess.PIPE, stderr=subprocess.STDOUT, text=True)
        if r.returncode != 0:
            return {"seed": name, "property": meta.get("property"), "status": "patch-does-not-apply", "detail": r.stdout[-400:]}
        out = {}

        def one(p):
            ev = os.path.join(scratch, "ev-" + p)
            rr = subprocess.run([sys.executable, os.path.join(HERE, "run.py"), p, "--repo", root, "--tier", "quick",
                                 "--evidence-dir", ev, "--no-mutants"], stdout=subprocess.PIPE, stderr=subprocess.STDOUT, text=True)
            viol = [l.strip()[len("violated: "):].split("  at ")[0] for l in rr.stdout.splitlines() if l.strip().startswith("violated: ")]
            anchor = [l.strip() for l in rr.stdout.splitlines() if "reason=anchor lost" in l]
            if "fact extraction failed" in rr.stdout:
                return p, {"rc": rr.returncode, "error": "does not compile"}
            return p, {"rc": rr.returncode, "violations": viol[:5] + anchor[:1]}
        with ThreadPoolExecutor(max_workers=9) as ex:
            for p, res in ex.map(one, props or PROPS):
                out[p] = res
        reported = [p for p in out if out[p]["rc"] == 1]
        own = meta.get("property")
        return {"seed": name, "property": own, "status": "reported" if reported else "MISSED",
                "caught_by_own_property": own in reported, "reported_by": reported,
                "details": {p: out[p]["violations"] for p in reported}}
    finally:
        shutil.rmtree(scratch, ignore_errors=True)


def main():
    names = sys.argv[2:] if len(sys.argv) > 2 else None
    dirs = sorted(d for d in glob.glob(os.path.join(VERIF, "seeded", "*")) if os.path.isfile(os.path.join(d, "patch.diff")))
    if names:
        dirs = [d for d in dirs if os.path.basename(d) in names]
    res = []
    for d in dirs:
        r = run_seed(d)
        res.append(r)
        own = r.get("property")
        print("%-14s %-4s %-9s own:%-5s by:%s" % (r["seed"], own, r["status"], r.get("caught_by_own_property"), ",".join(r.get("reported_by", []))))
        if r["status"] == "reported":
            for p in ([own] if own in r["details"] else r["reported_by"][:1]):
                for v in r["details"][p][:2]:
                    print("      %s: %s" % (p, v[:200]))
    if len(sys.argv) > 1 and sys.argv[1] == "json":
        json.dump(res, open(os.path.join(VERIF, "seeded", "RESULTS.json"), "w"), indent=1)
    print("seeded changes: %d, reported: %d, by own property: %d" % (
        len(res), sum(1 for r in res if r["status"] == "reported"), sum(1 for r in res if r.get("caught_by_own_property"))))


if __name__ == "__main__":
    main()
