"""C17 -- size_hint is always a true bound (dependence shape of every returned bound, per path)."""
import re

from lib_facts import fn_name
from lib_flow import strip_refs, expr_calls, expr_str, sensitive_paths, PathEval, path_bool_labels  # noqa: F401
from lib_inter import deep_leaves
from roles import roles
from c01 import d_loc
import c02

EXPLANATION = (
    "Static per-path decision of the shape of every size_hint in the crate: R17.1 for the four buffered adapters, on "
    "every feasible path to the return the upper bound is either None or checked_add(u, q) where q is the in-flight count "
    "of the inner queue (for the ordered adapters: running + parked, through len()) and u is the upstream's upper bound or "
    "the constant 0 used when the upstream is gone; a constant Some(k) upper bound is a violation (it ignores the futures "
    "in flight); the lower bound is saturating_add(l, q) with l the upstream's lower bound or 0; R17.2 no unchecked "
    "Add/Mul on these values; R17.3 the four collections return (x, Some(x)) with both components the result of one len() "
    "call of that collection, and a merge either keeps the (0, None) default or overrides it with a bound decided per path (None; Some(0) only where no source is held; the checked sum over every held source's hint). Truth of the bound relative to "
    "honest upstream hints beyond this shape (pure arithmetic) is not a separate claim.")
ASSUMPTIONS = [
    "upstream size_hint is honest",
    "every in-flight future yields at most one item; len() observers report the counting fields (C15 R15.3)",
]


def path_return(body, path):
    pe = PathEval(body, path)
    return pe, pe.local_expr(0)


def return_cases(ctx, b, pe, ret):
    """The (lower, upper) pairs a size_hint return expression can evaluate to:
    a tuple aggregate -> one case; Option::unwrap_or(Option::map(opt, closure), default) -> the default tuple and every
    return path of the closure.  -> [(label, lo, hi, body, path_eval, extra_leaves)] or None."""
    if ret[0] == "agg" and ret[1] == "tuple" and len(ret[2]) == 2:
        return [("tuple", ret[2][0], ret[2][1], b, pe, set())]
    if ret[0] == "call" and re.search(r"core::option::Option::<.*>::unwrap_or$", ret[1] or "") and len(ret[2]) == 2:
        opt, dflt = ret[2]
        out = []
        if dflt[0] == "agg" and dflt[1] == "tuple" and len(dflt[2]) == 2:
            out.append(("fallback", dflt[2][0], dflt[2][1], b, pe, set()))
        else:
            return None
        if opt[0] == "call" and re.search(r"core::option::Option::<.*>::map$", opt[1] or "") and opt[2][1][0] == "agg" and opt[2][1][1].startswith("closure:"):
            cl = opt[2][1]
            cb = ctx.facts.bodies.get(cl[1][len("closure:"):])
            if cb is None:
                return None
            extra = set()
            for cap in cl[2]:
                extra |= _leaves(ctx, b, pe, cap)
            cfl = ctx.flow(cb)
            n = 0
            for kind, path, know in sensitive_paths(cb, cfl, 2):
                if kind != "return":
                    continue
                cpe = PathEval(cb, path)
                r2 = cpe.local_expr(0)
                if not (r2[0] == "agg" and r2[1] == "tuple" and len(r2[2]) == 2):
                    return None
                n += 1
                out.append(("present#%d" % n, r2[2][0], r2[2][1], cb, cpe, extra))
            return out
        return None
    return None


def classify_upper(ctx, b, pe, hi, counter, need_heap, extra=frozenset()):
    """-> (ok, description)"""
    if hi[0] == "agg" and hi[1].endswith("Option::None"):
        return True, "None (no upper bound)"
    if hi[0] == "call" and re.search(r"checked_add$", hi[1] or ""):
        lv = set()
        for a in hi[2]:
            la = _leaves(ctx, b, pe, a)
            lv |= la
            # a closure capture (`(*_1).N`) stands for the captured value
            if any(x[0] == "param" for x in la):
                lv |= set(extra)
        has_q = ("field", counter) in lv
        has_heap = any(x[0] == "call" and re.search(r"BinaryHeap::<.*>::len$", x[1] or "") for x in lv)
        import c04
        if not (has_q and has_heap) and any(c04.reads_window(ctx, b, a) for a in hi[2]):
            has_q = has_heap = True       # running + parked as the distance of the position counters (C04 link)
            ctx._window_form_used = True
        ok = has_q and (has_heap or not need_heap)
        return ok, "checked_add over {%s}; in-flight counter: %s%s" % (
            ", ".join(sorted(expr_str(a) for a in hi[2])), has_q, ("; parked heap: %s" % has_heap) if need_heap else "")
    if hi[0] == "call" and re.search(r"core::option::Option::<.*>::(and_then|map)$", hi[1] or "") and len(hi[2]) == 2:
        cl = hi[2][1]
        if cl[0] == "agg" and cl[1].startswith("closure:"):
            cb = ctx.facts.bodies.get(cl[1][len("closure:"):])
            if cb is not None:
                cfl = ctx.flow(cb)
                ret = cfl.local_expr(0)
                lv = deep_leaves(ctx, cb, ret, 3)
                for cap in cl[2]:
                    lv |= _leaves(ctx, b, pe, cap)
                uses_checked = any(re.search(r"checked_add$", c[1] or "") for c in expr_calls(ret)) or \
                    (ret[0] == "call" and re.search(r"checked_add$", ret[1] or ""))
                has_q = ("field", counter) in lv
                has_heap = any(x[0] == "call" and re.search(r"BinaryHeap::<.*>::len$", x[1] or "") for x in lv)
                ok = uses_checked and has_q and (has_heap or not need_heap) and hi[1].endswith("and_then")
                return ok, "upper.and_then(|x| x.checked_add(q)) form; checked_add: %s, in-flight counter: %s%s" % (
                    uses_checked, has_q, ("; parked heap: %s" % has_heap) if need_heap else "")
    if hi[0] == "agg" and hi[1].endswith("Option::Some"):
        v = hi[2][0]
        lv = _leaves(ctx, b, pe, v)
        plain = (v[0] == "call" and (v[1] or "").endswith("::len")) or (v[0] == "proj" and v[2][-1].startswith("."))
        if ("field", counter) in lv and plain:
            return True, "Some(%s): exactly the in-flight count" % expr_str(v)
        if ("field", counter) in lv:
            return False, "upper bound Some(%s) is computed from the in-flight count by unchecked arithmetic (may wrap)" % expr_str(v)
        return False, "constant / count-independent upper bound Some(%s)" % expr_str(v)
    return False, "unrecognised upper bound %s" % expr_str(hi)


def _leaves(ctx, b, pe, e):
    # deep leaves through crate observers, evaluated with the path environment
    out = set(pe.leaves(e, expand_multi=False))
    for lf in list(out):
        if lf[0] == "call" and lf[1] in ctx.facts.bodies:
            cb = ctx.facts.bodies[lf[1]]
            out |= {x for x in deep_leaves(ctx, cb, ctx.flow(cb).local_expr(0), 3) if x[0] != "param"}
    return out


def r17_1(ctx, R, counter):
    ctx.rule("R17.1", "adapters: on every feasible path of size_hint the upper bound is None or checked_add(upstream upper "
                      "| 0, in-flight count) -- never a count-independent Some(k); lower = saturating_add(upstream lower | 0, "
                      "in-flight count) or 0")
    ctx.rule("R17.2", "arithmetic shape: bounds are combined only through checked_add / saturating_add (no unchecked +, *)")
    n = 0
    for b in ctx.facts.fn_bodies():
        if not re.search(r"^<(buffered|try_buffered)::.* as futures_core::Stream>::size_hint$", b.path):
            continue
        n += 1
        need_heap = "Ordered" in b.path
        fl = ctx.flow(b)
        k = 0
        for kind, path, know in sensitive_paths(b, fl, 2):
            if kind != "return":
                continue
            k += 1
            pe, ret = path_return(b, path)
            cases = return_cases(ctx, b, pe, ret)
            if cases is None:
                ctx.ob("R17.1", b, "returns-a-tuple#%d" % k, False, d_loc(b), expr_str(ret))
                continue
            if len(cases) > 1:
                for ci, (lab, lo_, hi_, cb_, pe_, extra) in enumerate(cases):
                    okc, detc = classify_upper(ctx, cb_, pe_, hi_, counter, need_heap, extra)
                    ctx.ob("R17.1", b, "upper-bound-covers-in-flight#path%d/%s" % (k, lab), okc, d_loc(b), detc)
                    rawc = [e for e in _binops(lo_) + _binops(hi_) if e[1] in ("Add", "AddWithOverflow", "Mul", "MulWithOverflow", "AddUnchecked", "Sub", "SubWithOverflow")]
                    ctx.ob("R17.2", b, "no-unchecked-arithmetic#path%d/%s" % (k, lab), not rawc, d_loc(b), "; ".join(expr_str(e) for e in rawc[:2]))
                continue
            lab, lo, hi, cb_, pe, extra = cases[0]
            ok, det = classify_upper(ctx, b, pe, hi, counter, need_heap)
            ctx.ob("R17.1", b, "upper-bound-covers-in-flight#path%d" % k, ok, d_loc(b), det, path=path if not ok else None)
            lo_ok = (lo[0] == "const" and lo[2] == "0") or (lo[0] == "call" and re.search(r"saturating_add$", lo[1] or "") is not None)
            if not lo_ok and ((lo[0] == "call" and (lo[1] or "").endswith("::len")) or (lo[0] == "proj" and lo[2][-1].startswith("."))) \
                    and ("field", counter) in _leaves(ctx, b, pe, lo):
                lo_ok = True       # exactly the in-flight count (no upstream left / nothing known about it)
            if lo[0] == "call" and lo_ok:
                lv = set()
                for a in lo[2]:
                    lv |= _leaves(ctx, b, pe, a)
                import c04
                win = any(c04.reads_window(ctx, b, a) for a in lo[2])
                allowed = all(x[0] in ("const", "field", "param", "multi", "fn") or
                              (x[0] == "call" and re.search(r"size_hint$|::len$|::is_empty$|Option::<.*>::(as_ref|map|unwrap_or|map_or|map_or_else|unwrap_or_default)$|Deref", x[1] or "")) or
                              (win and x[0] == "call" and re.search(r"Wrapping<usize> as core::ops::Sub>::sub$|<impl usize>::wrapping_sub$", x[1] or ""))
                              for x in lv)
                lo_ok = allowed
            ctx.ob("R17.1", b, "lower-bound-shape#path%d" % k, lo_ok, d_loc(b), expr_str(lo))
            # R17.2: no raw arithmetic in either component
            raw = [e for e in _binops(lo) + _binops(hi) if e[1] in ("Add", "AddWithOverflow", "Mul", "MulWithOverflow", "AddUnchecked", "Sub", "SubWithOverflow")]
            ctx.ob("R17.2", b, "no-unchecked-arithmetic#path%d" % k, not raw, d_loc(b), "; ".join(expr_str(e) for e in raw[:2]))
        ctx.floor("R17.1", "paths:" + b.path, k, 1)
    ctx.floor("R17.1", "adapter-size_hints", n, 4)


def _binops(e, out=None):
    if out is None:
        out = []
    if not isinstance(e, tuple) or not e:
        return out
    if e[0] == "binop":
        out.append(e)
        _binops(e[2], out)
        _binops(e[3], out)
    elif e[0] in ("call", "agg"):
        for a in e[2]:
            _binops(a, out)
    elif e[0] in ("proj", "ref", "unop", "cast"):
        _binops(e[1] if e[0] in ("proj", "ref") else e[2], out)
    return out


def r17_3(ctx, R):
    ctx.rule("R17.3", "collections: size_hint = (x, Some(x)) with x the result of one len() call of the same collection "
                      "(or the remaining-counter field itself); the merges keep the trait default (0, None), or override it so that on every "
                      "feasible path the upper bound is None, Some(0) only where no source is held (emptiness observer true / the "
                      "all-sources iteration ended at once), or the checked_add chain over the upper hint of every source visited "
                      "on that path (an iterator that may skip sources, an unchecked sum or a missed source is a violation); the "
                      "lower bound is 0 or a saturating sum of lower hints")
    n = 0
    for b in ctx.facts.fn_bodies():
        m = re.match(r"^<((futures_\w+)::(\w+))<.*> as futures_core::Stream>::size_hint$", b.path)
        if not m:
            continue
        n += 1
        fl = ctx.flow(b)
        ret = fl.local_expr(0)
        ok = False
        det = expr_str(ret)
        if ret[0] == "agg" and ret[1] == "tuple" and len(ret[2]) == 2:
            lo, hi = ret[2]
            if hi[0] == "agg" and hi[1].endswith("Option::Some") and hi[2][0] == lo:
                if lo[0] == "call" and (lo[1] or "").endswith("::len") and m.group(1) in lo[1]:
                    ok = True
                elif lo[0] == "proj" and lo[2][-1].startswith("."):
                    # the field must be what len() returns
                    lb = ctx.facts.bodies.get("%s::<%s>::len" % (m.group(1), "F"))
                    lenb = [x for x in ctx.facts.fn_bodies() if x.path.startswith(m.group(1) + "::<") and x.path.endswith(">::len")]
                    ok = bool(lenb) and ctx.flow(lenb[0]).local_expr(0)[0] == "proj" and ctx.flow(lenb[0]).local_expr(0)[2][-1] == lo[2][-1]
                    if not ok:
                        # ... or the collection's remaining-counter itself (the field its poll_next decrements by one when it
                        # yields; kept equal to the number of held futures by the +1/-1 discipline of C15 R15.x)
                        from lib_flow import self_field_stores, is_inc_of
                        from c01 import group_loop_fns
                        for gb in group_loop_fns(ctx):
                            if not gb.path.startswith("<" + m.group(1)):
                                continue
                            for (bb_, i_, fld, val, root, pe) in self_field_stores(gb, ctx.flow(gb)):
                                if is_inc_of(val, fld) == -1 and fld == lo[2][-1]:
                                    ok = True
        ctx.ob("R17.3", b, "(len, Some(len))", ok, d_loc(b), det)
    ctx.floor("R17.3", "collection-size_hints", n, 4)
    nm_ = 0
    for b in ctx.facts.fn_bodies():
        if re.search(r"^<merge_\w+::.* as futures_core::Stream>::size_hint$", b.path):
            nm_ += 1
            merge_override(ctx, R, b)
    ctx.ob("R17.3", "<crate>", "merges-use-default-size_hint", True, "", "%d override(s) present, each decided per path" % nm_)


RE_ITER_PLUMBING = r"IntoIterator>::into_iter$|core::slice::<impl \[T\]>::iter(_mut)?$|Deref>::deref$|core::iter::Iterator::by_ref$|" \
                   r"alloc::vec::Vec::<.*>::(iter|as_slice)$"


def _all_sources_iterator(ctx, R, it):
    """`it` (the receiver of Iterator::next) enumerates every held source: plain iteration plumbing over a crate slot
    iterator (a slot-map method returning filter_map(slots.iter(), |s| Occupied(f) => Some(f), _ => None)) or over the
    vector of groups -- no skip / take / filter / step_by / rev-and-stop adapter in between."""
    from lib_flow import iterator_chain, variant_facts
    chain, src = iterator_chain(it)
    for short, full in chain:
        if re.search(RE_ITER_PLUMBING, full):
            continue
        cb = ctx.facts.bodies.get(full)
        if cb is not None and cb in R.slotmap_methods:
            r_ = ctx.flow(cb).local_expr(0)
            ch2, src2 = iterator_chain(r_)
            names = [x[0] for x in ch2]
            if names[:1] == ["filter_map"] and all(re.search(RE_ITER_PLUMBING, f2) for _, f2 in ch2[1:]) and r_[0] == "call" and len(r_[2]) > 1:
                cl = r_[2][1]
                clb = ctx.facts.bodies.get(cl[1][len("closure:"):]) if cl[0] == "agg" and cl[1].startswith("closure:") else None
                if clb is None:
                    return False, "slot iterator %s: filter closure not found" % full
                occ, free = R.slot_variants
                okc = True
                n = 0
                for kind, path, know in sensitive_paths(clb, ctx.flow(clb), 2):
                    if kind != "return":
                        continue
                    n += 1
                    rr = PathEval(clb, path).local_expr(0)
                    vs = set(know[-1].values()) if know else set()
                    if occ in vs and not (rr[0] == "agg" and rr[1].endswith("Option::Some")):
                        okc = False
                if okc and n:
                    continue
                return False, "slot iterator %s skips occupied slots" % full
            if cb.locals[0].startswith("slot_map::") or "IterMut" in cb.locals[0]:
                continue      # the slot map's own pinned iterator (every occupied slot; audited by C04 R4.3 / C08)
            return False, "slot-map method %s is not a plain occupied-slot iterator" % full
        return False, "iterator adapter %s may skip sources" % full
    return True, "iterates every held source: %s" % " <- ".join(x[0] for x in chain)


def _contradictory(e):
    """The expression projects a payload `@V` out of an aggregate built as another variant: the path that produced it is
    infeasible (e.g. the `(Some(a), Some(b))` arm taken with an accumulator that is `None` on this path)."""
    if not isinstance(e, tuple) or not e:
        return False
    if e[0] == "proj":
        base = strip_refs(e[1])
        if base[0] == "agg" and e[2] and e[2][0].startswith("@") and "::" in base[1] and base[1].split("::")[-1] != e[2][0][1:]:
            return True
        return _contradictory(e[1])
    if e[0] in ("call", "agg"):
        return any(_contradictory(a) for a in e[2])
    if e[0] == "ref":
        return _contradictory(e[1])
    if e[0] == "binop":
        return _contradictory(e[2]) or _contradictory(e[3])
    if e[0] in ("unop", "cast"):
        return _contradictory(e[2])
    return False


def merge_override(ctx, R, b):
    """A merge may override size_hint only with a bound that is true for the union of the held sources: per feasible
    path the upper bound is None, or Some(0) where no source is held (emptiness observer true, or the all-sources
    iteration ended at once), or the checked_add chain over the upper hint of EVERY source visited on that path; the
    lower bound is 0 or a saturating_add chain over lower hints."""
    fl = ctx.flow(b)
    k = 0
    for kind, path, know in sensitive_paths(b, fl, 3):
        if kind != "return":
            continue
        k += 1
        pe, ret = path_return(b, path)
        if not (ret[0] == "agg" and ret[1] == "tuple" and len(ret[2]) == 2):
            ctx.ob("R17.3", b, "merge-size_hint-override#path%d" % k, False, d_loc(b), "does not return a tuple: " + expr_str(ret))
            continue
        lo, hi = ret[2]
        if _contradictory(hi) or _contradictory(lo):
            continue      # infeasible path
        # the items visited on this path: Some-edges of Iterator::next results; exhaustion: the last such edge is None
        items = 0
        exhausted = False
        iters_ok = True
        iter_det = ""
        for i in range(len(path) - 1):
            for lab in fl.edge_labels(path[i]).get(path[i + 1], []):
                if lab[0] == "variant" and strip_refs(lab[1])[0] == "call" and re.search(r"Iterator>?::next$", strip_refs(lab[1])[1] or ""):
                    if lab[2] == "Some":
                        items += 1
                        exhausted = False
                    elif lab[2] == "None":
                        exhausted = True
                    okit, d_ = _all_sources_iterator(ctx, R, strip_refs(lab[1])[2][0])
                    iters_ok = iters_ok and okit
                    iter_det = d_
        empt = any(v is True and e[0] == "call" and re.search(r"::is_empty$", e[1] or "") and e[1] in ctx.facts.bodies
                   for e, v in path_bool_labels(b, fl, path))
        calls = expr_calls(hi)
        n_sh = sum(1 for c in calls if re.search(r"::size_hint$", c[1] or ""))
        other = [c[1] for c in calls if not re.search(r"::size_hint$|checked_add$|Iterator>?::next$|" + RE_ITER_PLUMBING, c[1] or "")
                 and not (c[1] in ctx.facts.bodies and ctx.facts.bodies[c[1]] in R.slotmap_methods)]
        if hi[0] == "agg" and hi[1].endswith("Option::None"):
            ok, det = True, "None (no upper bound)"
        elif hi[0] == "agg" and hi[1].endswith("Option::Some") and hi[2][0][0] == "const":
            zero = hi[2][0][2] == "0"
            ok = zero and (empt or (items == 0 and exhausted and iters_ok))
            det = "Some(%s): emptiness established: %s; all-sources iteration ended at once: %s (%s)" % (
                hi[2][0][2], empt, items == 0 and exhausted and iters_ok, iter_det)
        else:
            ok = items >= 1 and exhausted and iters_ok and n_sh == items and not other and not _binops(hi) and \
                any(re.search(r"checked_add$", c[1] or "") for c in calls)
            det = "sum of upper hints: %d source(s) visited, %d hint(s) added, loop left by exhaustion: %s, %s; other calls %s" % (
                items, n_sh, exhausted, iter_det, other[:2])
        ctx.ob("R17.3", b, "merge-upper-bound-covers-every-source#path%d" % k, ok, d_loc(b), det, path=None if ok else path)
        lcalls = expr_calls(lo)
        lother = [c[1] for c in lcalls if not re.search(r"::size_hint$|saturating_add$|Iterator>?::next$|" + RE_ITER_PLUMBING, c[1] or "")
                  and not (c[1] in ctx.facts.bodies and ctx.facts.bodies[c[1]] in R.slotmap_methods)]
        lo_ok = (lo[0] == "const" and lo[2] == "0") or (not lother and not _binops(lo) and ".1" not in repr(lo) and
                                                       any(re.search(r"saturating_add$", c[1] or "") for c in lcalls))
        ctx.ob("R17.3", b, "merge-lower-bound-shape#path%d" % k, lo_ok, d_loc(b), expr_str(lo)[:200])
    ctx.floor("R17.3", "paths:" + b.path, k, 1)


def run(ctx):
    R = roles(ctx)
    R.insert_fn
    res = c02.r2_3(ctx, R)
    ctx.obs = [o for o in ctx.obs if not o.rule.startswith("R2.3")]
    ctx.rule_texts.pop("R2.3", None)
    counter = res["INSERT"][0]
    ctx.need(counter is not None, "COUNTER")
    r17_1(ctx, R, counter)
    r17_3(ctx, R)
    c02.r2_2(ctx, R)
    ctx.rule("R2.2", "see C02 R2.2 (shared): a slot is vacated only where its output is handed on -- otherwise the cached counters the "
                     "hints are built from over-count")
    import c04
    ot = c04.ordered_types(ctx)
    c04.r4_1(ctx, R, ot)
    ctx.rule("R4.1", "see C04 R4.1 (shared): index discipline of the ordered collections -- an item that is accepted but can never "
                     "come into turn is counted by the lower bound for ever")
    c04.r4_3(ctx, R, ot)
    ctx.rule("R4.3", "see C04 R4.3 (shared): the index re-base keeps every live index in one contiguous window -- parked outputs on "
                     "both sides of the wrap are never yielded although the hints keep counting them")
    import c15
    c15.r15_3(ctx, R, counter)
    ctx.rule("R15.3", "see C15 R15.3 (shared link): the len() observers the hints are built from read the counting fields")
