"""Fact loading, pretty printing, CFG / dominator / loop analyses (A1, A2).

Everything here works on the JSON fact file written by engine/fbfacts (the
resolved, type-checked program + MIR of /repo's working tree).  Nothing here
executes any code of the crate.
"""
import json
import re
from collections import defaultdict, deque


# --------------------------------------------------------------------------- places / operands

def place_str(p):
    s = "_%d" % p["l"]
    for e in p["p"]:
        k = e["k"]
        if k == "deref":
            s = "(*%s)" % s
        elif k == "field":
            s = "%s.%s" % (s, e["name"])
        elif k == "downcast":
            s = "(%s as %s)" % (s, e["variant"])
        elif k == "index":
            s = "%s[_%d]" % (s, e["local"])
        elif k == "constindex":
            s = "%s[%s%d]" % (s, "-" if e["from_end"] else "", e["offset"])
        else:
            s = "%s.<%s>" % (s, k)
    return s


def fn_name(fn):
    """Best name of a callee: the resolved instance if known, else the declared item."""
    if fn is None:
        return None
    return fn.get("res") or fn.get("def")


def op_str(o):
    k = o["k"]
    if k in ("copy", "move"):
        return "%s %s" % (k, place_str(o["place"]))
    if k == "const":
        if "fn" in o:
            return "fn:" + o["fn"]["def_str"]
        if "variant" in o:
            return "const %s::%s" % (o["ty"], o["variant"])
        if "bits" in o:
            return "const %s_%s" % (o["bits"], o["ty"])
        return "const{%s}" % o.get("s", "?")
    return "?op"


def rv_str(rv):
    k = rv["k"]
    if k == "use":
        return op_str(rv["op"])
    if k == "ref":
        return "&%s%s" % ("mut " if rv["mut"] else "", place_str(rv["place"]))
    if k == "rawptr":
        return "&raw %s %s" % ("mut" if rv["mut"] else "const", place_str(rv["place"]))
    if k == "cast":
        return "%s as %s (%s)" % (op_str(rv["op"]), rv["to"], rv["kind"])
    if k == "binop":
        return "%s(%s, %s)" % (rv["op"], op_str(rv["a"]), op_str(rv["b"]))
    if k == "unop":
        return "%s(%s)" % (rv["op"], op_str(rv["a"]))
    if k == "discr":
        return "discriminant(%s)" % place_str(rv["place"])
    if k == "aggregate":
        ops = ", ".join(op_str(o) for o in rv["ops"])
        if rv["agg"] == "adt":
            return "%s::%s{%s}" % (rv["adt"], rv["variant"], ops)
        if rv["agg"] == "closure":
            return "closure %s[%s]" % (rv["closure"], ops)
        return "%s(%s)" % (rv["agg"], ops)
    if k == "repeat":
        return "[%s; n]" % op_str(rv["op"])
    return "other{%s}" % rv.get("s", "")


def span_str(sp):
    f = sp["f"]
    f = re.sub(r"^.*?/repo/", "", f)
    return "%s:%d" % (f, sp["l"])


# --------------------------------------------------------------------------- Body

class Body:
    def __init__(self, j, facts):
        self.j = j
        self.facts = facts
        self.path = j["path"]
        self.kind = j["kind"]
        self.blocks = j["blocks"]
        self.locals = j["locals"]
        self.arg_count = j["arg_count"]
        self.n = len(self.blocks)
        self.names = {}
        for nm in j["names"]:
            if not nm["place"]["p"]:
                self.names.setdefault(nm["place"]["l"], nm["name"])
        self._succ = None
        self._dom = None
        self._pdom = None

    # ---- structure
    def term(self, b):
        return self.blocks[b]["term"]

    def stmts(self, b):
        return self.blocks[b]["stmts"]

    def is_cleanup(self, b):
        return self.blocks[b]["cleanup"]

    def normal_succ(self, b):
        """Successors on non-unwind edges."""
        t = self.term(b)
        k = t["k"]
        if k == "goto":
            return [t["target"]]
        if k == "switch":
            d = t["discr"]
            if d["k"] == "const" and "bits" in d:
                # switch on a literal constant (e.g. `if false`): only one edge is ever taken
                for v, tgt in t["targets"]:
                    if v == d["bits"]:
                        return [tgt]
                return [t["otherwise"]]
            out = [x[1] for x in t["targets"]] + [t["otherwise"]]
            seen = []
            for x in out:
                if x not in seen:
                    seen.append(x)
            return seen
        if k in ("drop", "assert"):
            return [t["target"]]
        if k == "call":
            return [t["target"]] if t["target"] is not None else []
        if k == "otherterm":
            return list(t.get("succ", []))
        return []

    def unwind_succ(self, b):
        t = self.term(b)
        u = t.get("unwind")
        return [u] if u is not None else []

    @property
    def succ(self):
        if self._succ is None:
            self._succ = [self.normal_succ(b) for b in range(self.n)]
        return self._succ

    @property
    def pred(self):
        p = [[] for _ in range(self.n)]
        for b in range(self.n):
            for s in self.succ[b]:
                p[s].append(b)
        return p

    def reachable(self, start=0, avoid=()):
        """Blocks reachable from start over normal edges, not entering `avoid`."""
        avoid = set(avoid)
        seen = set()
        if start in avoid:
            return seen
        dq = deque([start])
        seen.add(start)
        while dq:
            b = dq.popleft()
            for s in self.succ[b]:
                if s not in seen and s not in avoid:
                    seen.add(s)
                    dq.append(s)
        return seen

    def returns(self):
        r = self.reachable(0)
        return [b for b in r if self.term(b)["k"] == "return"]

    # ---- dominators (iterative, normal CFG)
    def dominators(self):
        if self._dom is not None:
            return self._dom
        reach = self.reachable(0)
        order = self._rpo(0, self.succ)
        dom = {b: None for b in reach}
        dom[0] = {0}
        allset = set(reach)
        for b in reach:
            if b != 0:
                dom[b] = set(allset)
        pred = self.pred
        changed = True
        while changed:
            changed = False
            for b in order:
                if b == 0:
                    continue
                ps = [dom[p] for p in pred[b] if p in reach]
                new = set.intersection(*ps) if ps else set()
                new = new | {b}
                if new != dom[b]:
                    dom[b] = new
                    changed = True
        self._dom = dom
        return dom

    def dominates(self, a, b):
        d = self.dominators()
        return b in d and a in d[b]

    def _rpo(self, start, succ):
        seen = set()
        out = []

        def dfs(b):
            stack = [(b, iter(succ[b]))]
            seen.add(b)
            while stack:
                node, it = stack[-1]
                adv = False
                for s in it:
                    if s not in seen:
                        seen.add(s)
                        stack.append((s, iter(succ[s])))
                        adv = True
                        break
                if not adv:
                    out.append(node)
                    stack.pop()
        dfs(start)
        out.reverse()
        return out

    def back_edges(self):
        """Edges (a, b) with b dominating a (natural loop back edges)."""
        res = []
        for a in self.reachable(0):
            for s in self.succ[a]:
                if self.dominates(s, a):
                    res.append((a, s))
        return res

    def natural_loop(self, tail, head):
        body = {head, tail}
        st = [tail]
        pred = self.pred
        while st:
            x = st.pop()
            if x == head:
                continue
            for p in pred[x]:
                if p not in body and p in self.dominators():
                    body.add(p)
                    st.append(p)
        return body

    def loops(self):
        """dict head -> set of blocks (merged natural loops with the same head)."""
        res = {}
        for (a, b) in self.back_edges():
            res.setdefault(b, set()).update(self.natural_loop(a, b))
        return res

    def must_pass(self, src, dst_set, via, avoid=()):
        """True iff every normal path from block `src` (starting *after* src's
        terminator edge into its successors is not assumed: src itself counts)
        to any block in dst_set contains a block of `via`.  Equivalent: dst not
        reachable from src when `via` blocks are removed."""
        via = set(via)
        if src in via:
            return True
        r = self.reachable(src, avoid=via | set(avoid))
        return not (r & set(dst_set))

    # ---- call sites
    def calls(self):
        """Yield (bb, term, fninfo|None) for every Call terminator reachable on normal paths
        (cleanup blocks included separately via all=True callers)."""
        for b in range(self.n):
            t = self.term(b)
            if t["k"] in ("call", "tailcall"):
                f = t["func"]
                yield b, t, (f.get("fn") if f["k"] == "const" else None)

    def calls_to(self, pred_fn, include_cleanup=False):
        out = []
        for b, t, fn in self.calls():
            if self.is_cleanup(b) and not include_cleanup:
                continue
            if fn is not None and pred_fn(fn):
                out.append((b, t, fn))
        return out

    def loc(self, b, si=None):
        if si is None:
            return span_str(self.term(b)["span"])
        return span_str(self.stmts(b)[si]["span"])

    # ---- pretty print
    def pp(self):
        out = ["fn %s  (args=%d, blocks=%d)" % (self.path, self.arg_count, self.n)]
        for i, t in enumerate(self.locals):
            nm = self.names.get(i)
            out.append("  let _%d: %s%s" % (i, t, ("  // " + nm) if nm else ""))
        for b in range(self.n):
            out.append("  bb%d%s:" % (b, " (cleanup)" if self.is_cleanup(b) else ""))
            for s in self.stmts(b):
                if s["k"] == "assign":
                    out.append("    %s = %s   @%s" % (place_str(s["place"]), rv_str(s["rv"]), span_str(s["span"])))
                elif s["k"] == "setdiscr":
                    out.append("    discriminant(%s) = %d" % (place_str(s["place"]), s["idx"]))
                else:
                    out.append("    %s %s" % (s["k"], s.get("s", "")))
            t = self.term(b)
            k = t["k"]
            if k == "goto":
                d = "goto -> bb%d" % t["target"]
            elif k == "switch":
                d = "switchInt(%s) -> [%s, otherwise: bb%d]" % (
                    op_str(t["discr"]), ", ".join("%s: bb%d" % (v, x) for v, x in t["targets"]), t["otherwise"])
            elif k == "call":
                d = "%s = %s(%s) -> %s%s" % (
                    place_str(t["dest"]), op_str(t["func"]), ", ".join(op_str(a) for a in t["args"]),
                    ("bb%d" % t["target"]) if t["target"] is not None else "!",
                    (" unwind bb%d" % t["unwind"]) if t.get("unwind") is not None else "")
                fn = t["func"].get("fn") if t["func"]["k"] == "const" else None
                if fn and fn.get("res") and fn.get("res") != fn.get("def"):
                    d += "   [res: %s]" % fn["res"]
            elif k == "drop":
                d = "drop(%s: %s) -> bb%d%s" % (place_str(t["place"]), t["place"]["ty"], t["target"],
                                                (" unwind bb%d" % t["unwind"]) if t.get("unwind") is not None else "")
            elif k == "assert":
                d = "assert(%s == %s, %s) -> bb%d" % (op_str(t["cond"]), t["expected"], t["msg_kind"], t["target"])
            else:
                d = k + " " + t.get("s", "")
            out.append("    %s   @%s" % (d, span_str(t["span"])))
        return "\n".join(out)


# --------------------------------------------------------------------------- Facts

class Facts:
    def __init__(self, j):
        import os as _os
        self.inlined = {}
        if j.get("bodies") and not _os.environ.get("FB_NO_INLINE"):
            import lib_inline
            lib_inline.inline_facts(j)
            self.inlined = j.get("inlined_helpers", {})
        self.j = j
        self.crate = j["crate"]
        self.types = j["types"]
        self.bodies = {}
        self.body_list = []
        for b in j["bodies"]:
            body = Body(b, self)
            self.body_list.append(body)
            # const `_` blocks share a path; keep the first, list keeps all
            self.bodies.setdefault(body.path, body)
        self.adts = {a["path"]: a for a in j["adts"]}
        self.impls = j["impls"]
        self.fns = {f["path"]: f for f in j["fns"]}
        self.config = {k: j[k] for k in ("debug_assertions", "overflow_checks", "test_harness")}
        self.deps = j["deps"]

    @staticmethod
    def load(path):
        with open(path) as fh:
            return Facts(json.load(fh))

    def fn_bodies(self):
        """Bodies that are functions / closures (not consts, statics, promoteds); private helpers whose every call
        site was inlined are analysed in place only (lib_inline)."""
        skip = set(self.inlined.get("fully_inlined", []))
        return [b for b in self.body_list
                if b.kind in ("Fn", "AssocFn", "Closure") and b.j["promoted"] is None and b.path not in skip]

    def body(self, path):
        return self.bodies.get(path)

    def find_bodies(self, regex):
        r = re.compile(regex)
        return [b for b in self.body_list if r.search(b.path)]

    def ty(self, key):
        return self.types.get(key)

    # type walk ---------------------------------------------------------
    def walk_type(self, key, visit, _seen=None, ctx=()):
        """Depth-first walk of a type tree; visit(tree, ctx) where ctx is the tuple of
        enclosing constructor names (adt paths, 'ref', 'ptr', 'slice', ...)."""
        if _seen is None:
            _seen = set()
        t = self.types.get(key)
        if t is None:
            return
        if (key, ctx) in _seen:
            return
        _seen.add((key, ctx))
        visit(t, ctx, key)
        k = t["k"]
        if k == "adt":
            for a in t["args"]:
                if isinstance(a, str) and not a.startswith("const "):
                    self.walk_type(a, visit, _seen, ctx + (t["name"],))
        elif k in ("ref", "ptr", "slice", "array"):
            self.walk_type(t["ty"], visit, _seen, ctx + (k,))
        elif k == "tuple":
            for a in t["tys"]:
                self.walk_type(a, visit, _seen, ctx + ("tuple",))
        elif k in ("alias", "fndef", "closure"):
            for a in t["args"]:
                if isinstance(a, str) and not a.startswith("const "):
                    self.walk_type(a, visit, _seen, ctx + (k + ":" + t["name"],))
        elif k == "fnptr":
            for a in t["io"]:
                self.walk_type(a, visit, _seen, ctx + ("fnptr",))

    def type_mentions(self, key, pred):
        """Does the type tree contain a node satisfying pred(tree, ctx)?"""
        hit = []

        def v(t, ctx, k):
            if pred(t, ctx):
                hit.append((t, ctx))
        self.walk_type(key, v)
        return bool(hit)

    def impls_of(self, trait_suffix):
        return [i for i in self.impls if i["trait"] and i["trait"].endswith(trait_suffix)]


def callee_is(fn, *names):
    """fn (callee info) matches any of the given def paths (declared or resolved)."""
    if fn is None:
        return False
    d = fn.get("def")
    r = fn.get("res")
    return d in names or r in names


def callee_matches(fn, regex):
    if fn is None:
        return False
    return bool(re.search(regex, fn.get("def", ""))) or bool(re.search(regex, fn.get("res", "") or ""))
