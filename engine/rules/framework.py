"""Rule framework: obligations, floors, roles, evidence, known findings, exit protocol."""
import json
import os
import re
import time

from lib_facts import Facts, callee_is, callee_matches, fn_name, span_str
from lib_flow import Flow


class AnchorLost(Exception):
    pass


class Ob:
    """One rule instance evaluated on one construct of /repo."""

    def __init__(self, rule, fn, label, ok, loc="", detail="", path=None):
        self.rule = rule
        self.fn = fn
        self.label = label
        self.ok = bool(ok)
        self.loc = loc
        self.detail = detail
        self.path = path

    @property
    def key(self):
        # no line numbers: rule id | function def-path | semantic instance label
        return "%s|%s|%s" % (self.rule, self.fn, self.label)

    def to_json(self):
        d = {"rule": self.rule, "fn": self.fn, "instance": self.label, "verdict": "ok" if self.ok else "VIOLATED",
             "loc": self.loc, "detail": self.detail}
        if self.path is not None:
            d["path"] = self.path
        return d


class Ctx:
    def __init__(self, facts, prop, tier="quick", config_name="default"):
        self.facts = facts
        self.prop = prop
        self.tier = tier
        self.config_name = config_name
        self.obs = []
        self.analysed_fns = set()
        self.rule_texts = {}
        self._flows = {}
        self._roles = None

    # ---- bookkeeping
    def rule(self, rid, text):
        self.rule_texts[rid] = text

    def flow(self, body):
        if body.path not in self._flows:
            self._flows[body.path] = Flow(body)
        self.analysed_fns.add(body.path)
        return self._flows[body.path]

    def ob(self, rule, body_or_fn, label, ok, loc="", detail="", path=None):
        fn = body_or_fn if isinstance(body_or_fn, str) else body_or_fn.path
        if not isinstance(body_or_fn, str):
            self.analysed_fns.add(fn)
        o = Ob(rule, fn, label, ok, loc, detail, path)
        self.obs.append(o)
        return o

    def floor(self, rule, what, count, floor, ceiling=None):
        """Fail closed when fewer instances than confirmed by hand are found."""
        ok = count >= floor and (ceiling is None or count <= ceiling)
        det = "found %d, floor %d%s" % (count, floor, (", ceiling %d" % ceiling) if ceiling is not None else "")
        self.ob(rule, "<crate>", "floor:" + what, ok, "", det)
        return ok

    def need(self, cond, role):
        if not cond:
            raise AnchorLost(role)

    # ---- body lookup helpers
    def body(self, path):
        b = self.facts.body(path)
        if b is not None:
            self.analysed_fns.add(path)
        return b

    def bodies_where(self, pred):
        return [b for b in self.facts.fn_bodies() if pred(b)]

    def bodies_calling(self, *names, regex=None):
        out = []
        for b in self.facts.fn_bodies():
            for bb, t, fn in b.calls():
                if fn is None:
                    continue
                if (names and callee_is(fn, *names)) or (regex and callee_matches(fn, regex)):
                    out.append(b)
                    break
        return out


# --------------------------------------------------------------------------- known findings

def load_known(path):
    try:
        with open(path) as fh:
            j = json.load(fh)
    except FileNotFoundError:
        return {"findings": [], "fixed": []}
    return j


# --------------------------------------------------------------------------- evidence

def finish(ctx_list, prop, tier, seed, t0, known_path, evidence_dir, explanation, assumptions, trusted_base,
           extra=None, anchor_lost=None, checker_cmd=""):
    """Write evidence, print report lines, return exit code."""
    known = load_known(known_path)
    known_keys = {f["key"]: f for f in known.get("findings", []) if f.get("property") == prop}
    all_obs = []
    for c in ctx_list:
        for o in c.obs:
            all_obs.append((c.config_name, o))
    violations = []
    known_hits = {}
    seen_keys = set()
    for cfg, o in all_obs:
        if o.ok:
            continue
        if o.key in known_keys:
            known_hits.setdefault(o.key, (cfg, o))
            continue
        if (o.key) in seen_keys:
            continue
        seen_keys.add(o.key)
        violations.append((cfg, o))
    obligations = len(all_obs)
    discharged = sum(1 for _, o in all_obs if o.ok)
    distinct = len({(o.rule, o.fn, o.label) for _, o in all_obs if o.fn != "<crate>"})
    fns = set()
    for c in ctx_list:
        fns |= c.analysed_fns
    rules = {}
    for c in ctx_list:
        rules.update(c.rule_texts)
    samples = []
    # sample: all violated / known first, then a spread of discharged ones
    for cfg, o in all_obs:
        if not o.ok:
            j = o.to_json()
            j["config"] = cfg
            if o.key in known_keys:
                j["verdict"] = "KNOWN-FINDING"
            samples.append(j)
    per_rule = {}
    for cfg, o in all_obs:
        if o.ok and cfg == ctx_list[0].config_name:
            per_rule.setdefault(o.rule, [])
            if len(per_rule[o.rule]) < 4:
                j = o.to_json()
                j["config"] = cfg
                per_rule[o.rule].append(j)
    own = "R%d." % int(prop[1:]) if prop[1:].isdigit() else "R"
    for r in sorted(per_rule, key=lambda x: (0 if x.startswith(own) else 1, x)):
        samples.extend(per_rule[r])
    cov = {
        "explanation": explanation,
        "rules": rules,
        "obligations": obligations,
        "discharged": discharged,
        "evaluations": obligations,
        "distinct_nontrivial": distinct,
        "rule": "one evaluation = one rule template instantiated on one construct (function, call site, CFG edge, "
                "field, struct) of /repo's type-checked MIR in one build configuration; non-trivial = bound to a "
                "real construct of /repo (floor/ceiling bookkeeping obligations are not counted); distinct = distinct "
                "(rule, function, instance) triples",
        "samples": samples if samples else [{"note": "no obligations"}],
        "functions_analysed": len(fns),
        "functions": sorted(fns),
        "configs": [c.config_name for c in ctx_list],
        "checker_cmd": checker_cmd,
        "trusted_base": trusted_base,
        "known_findings_reported": sorted(known_hits),
        "exhaustive": False,
    }
    if anchor_lost:
        cov["anchor_lost"] = anchor_lost
    if extra:
        cov.update(extra)
    ev = {
        "property_id": prop,
        "tier": tier,
        "seed": seed,
        "level": "other",
        "coverage": cov,
        "assumptions": assumptions,
        "wall_s": round(time.time() - t0, 3),
        "violations": len(violations) + (1 if anchor_lost else 0),
    }
    os.makedirs(evidence_dir, exist_ok=True)
    with open(os.path.join(evidence_dir, prop + ".json"), "w") as fh:
        json.dump(ev, fh, indent=1)

    print("[%s] tier=%s configs=%s functions=%d obligations=%d discharged=%d" % (
        prop, tier, ",".join(cov["configs"]), len(fns), obligations, discharged))
    for key in sorted(known_hits):
        cfg, o = known_hits[key]
        print("KNOWN-FINDING: property=%s %s -- %s [%s %s]" % (prop, known_keys[key].get("what", o.detail), key, o.loc, o.detail))
    # a known finding that is no longer found is just silent (it may have been repaired)
    rc = 0
    if violations or anchor_lost:
        rp = os.path.join(evidence_dir, prop + ".violations.json")
        with open(rp, "w") as fh:
            json.dump({"property": prop, "anchor_lost": anchor_lost,
                       "violations": [dict(o.to_json(), key=o.key, config=cfg) for cfg, o in violations]}, fh, indent=1)
        for cfg, o in violations:
            print("  violated: %s  at %s  [%s] %s" % (o.key, o.loc, cfg, o.detail))
        if anchor_lost:
            print("  reason=anchor lost: %s" % anchor_lost)
        print("VIOLATION property=%s replay=%s" % (prop, rp))
        rc = 1
    else:
        rp = os.path.join(evidence_dir, prop + ".violations.json")
        if os.path.exists(rp):
            os.remove(rp)
    return rc
