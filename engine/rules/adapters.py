"""Path-event semantics of the buffered adapters (A9, realised path-sensitively).

For each adapter poll function every flag/variant-feasible entry->return path (each block visited at most
twice) is turned into a sequence of events:

  ("G", True|False, site)     fill guard  `count < capacity`  outcome
  ("ABSENT",)                 Option::as_pin_mut(stream) took the None arm  (upstream gone)
  ("PRESENT",)                Option::as_pin_mut(stream) took the Some arm  (upstream still there)
  ("U", "Some"|"None"|"Pending"|"Err", bb)   upstream poll and its outcome on this path
  ("SETNONE",)                Pin::set(stream, None)
  ("F", bb)                   user closure called (for_each_concurrent)
  ("PUSH", how, bb)           insertion into the inner queue (push / push_back / try_push ...)
  ("I", "Some"|"None"|"Pending", bb)         inner queue poll and its outcome
  ("T", True|False)           tail test  stream.is_none()  outcome (True = gone)
  ("RET", "Pending"|"None"|"Some"|"Err"|"Done"|"Forward:<I outcome>")

The rules of C09 / C10 / C16 are predicates over these sequences plus a tiny abstract state
(stream in {Some, None, ?}; queue in {full, nonempty, ?}).
"""
import re

from lib_facts import place_str, fn_name, callee_matches
from lib_flow import strip_refs, expr_calls, expr_str, sensitive_paths, _base_local, variant_facts
from lib_inter import deep_leaves
from roles import roles, direct_sites, callee_body, reaches, RE_PIN_SET, RE_STREAM_POLL_NEXT, RE_FUTURE_POLL


def adapter_fns(ctx, R):
    """poll bodies that poll an upstream obtained through Option::as_pin_mut."""
    out = []
    for b in ctx.facts.fn_bodies():
        if not re.search(r"as futures_core::(Stream>::poll_next|Future>::poll)$", b.path):
            continue
        fl = ctx.flow(b)
        for bb, t, fn in R.child_poll_sites(b):
            recv = strip_refs(fl.operand_expr(t["args"][0]))
            if any(re.search(r"Option::<.*>::as_pin_mut$", c[1] or "") for c in expr_calls(recv)):
                out.append(b)
                break
    return out


def upstream_pollers(ctx, R):
    """Every function body (trait poll functions AND any other method, e.g. a newly added `poll_progress`) that polls an
    upstream obtained through Option::as_pin_mut: whoever pulls from the upstream must respect the limit."""
    out = []
    for b in ctx.facts.fn_bodies():
        if b.kind == "Closure":
            continue
        fl = ctx.flow(b)
        for bb, t, fn in R.child_poll_sites(b):
            recv = strip_refs(fl.operand_expr(t["args"][0]))
            if any(re.search(r"Option::<.*>::as_pin_mut$", c[1] or "") for c in expr_calls(recv)):
                out.append(b)
                break
    return out


def queue_field_of(ctx, b):
    """Name and type of the adapter's inner-queue field (a crate collection)."""
    m = re.match(r"^<([\w:]+)<", b.path) or re.match(r"^([\w:]+)::<", b.path)
    adt = ctx.facts.adts.get(m.group(1)) if m else None
    if not adt:
        return None, None, None
    for f in adt["variants"][0]["fields"]:
        if re.match(r"(futures_unordered_bounded::FuturesUnorderedBounded|futures_ordered_bounded::FuturesOrderedBounded|"
                    r"futures_unordered::FuturesUnordered|futures_ordered::FuturesOrdered)<", f["ty"]):
            return m.group(1), f["name"], f["ty"]
    return m.group(1), None, None


def classify_poll(dest, know):
    """Outcome of a poll result place under variant knowledge."""
    v = know.get(dest)
    if v == "Pending":
        return "Pending"
    if v == "Ready":
        inner = know.get("(%s as Ready).0" % dest)
        if inner == "None":
            return "None"
        if inner == "Some":
            r = know.get("((%s as Ready).0 as Some).0" % dest)
            if r == "Err":
                return "Err"
            return "Some"
        if inner is None:
            return "Ready?"
    return None


class AdapterModel:
    def __init__(self, ctx, R, body):
        self.ctx, self.R, self.b = ctx, R, body
        self.fl = ctx.flow(body)
        b, fl = body, self.fl
        self.struct, self.qfield, self.qty = queue_field_of(ctx, body)
        # sites
        self.up_sites = {}
        for bb, t, fn in R.child_poll_sites(b):
            recv = strip_refs(fl.operand_expr(t["args"][0]))
            if any(re.search(r"Option::<.*>::as_pin_mut$", c[1] or "") for c in expr_calls(recv)):
                self.up_sites[bb] = t
        self.aspin = {}
        for bb, t, fn in direct_sites(b, r"core::option::Option::<.*>::as_pin_mut$"):
            self.aspin[bb] = place_str(t["dest"])
        self.setnone = set()
        for bb, t, fn in direct_sites(b, RE_PIN_SET):
            v = fl.operand_expr(t["args"][1])
            if v[0] == "agg" and v[1].endswith("Option::None"):
                self.setnone.add(bb)
        self.inner = {}
        for bb, t, fn in b.calls():
            if fn and not b.is_cleanup(bb) and re.search(RE_STREAM_POLL_NEXT, fn["def"]) and callee_body(ctx.facts, fn) is not None:
                self.inner[bb] = t
        # "drive" calls: a crate method that is handed the Context, answers Poll<()> and answers Ready only where the collection
        # poll inside it reported Ready(None) (`queue.poll_progress(cx)`): Pending = something in flight is pending, Ready =
        # nothing is left running
        self.drives = set()
        for bb, t, fn in b.calls():
            if not fn or b.is_cleanup(bb) or bb in self.inner:
                continue
            cb = callee_body(ctx.facts, fn)
            if cb is None or not re.match(r"core::task::Poll<\(\)>$", cb.locals[0] or "") or not any("core::task::Context" in (x or "") for x in cb.locals[1:cb.arg_count + 1]):
                continue
            if self._drive_summary(cb):
                self.inner[bb] = t
                self.drives.add(bb)
        self.followers = self._follower_fields()
        self.pushes = {}
        ins = R.insert_fn
        for bb, t, fn in b.calls():
            if fn and not b.is_cleanup(bb):
                cb = callee_body(ctx.facts, fn)
                if cb is not None and reaches(ctx.facts, cb, re.escape(ins.path) + "$", 4) or (cb is not None and cb.path == ins.path):
                    self.pushes[bb] = (fn_name(fn) or "").split("::")[-1]
        self.closure_calls = {bb for bb, t, fn in b.calls() if fn and not b.is_cleanup(bb)
                              and re.search(r"core::ops::(FnMut::call_mut|FnOnce::call_once|Fn::call)$", fn["def"])}
        # `?` branch calls: map branch-call block -> (dest, source dest)
        self.branches = {}
        self.branch_calls = set()
        for bb, t, fn in direct_sites(b, r"core::ops::Try::branch$|as core::ops::Try>::branch$"):
            self.branch_calls.add(bb)
            src = fl.operand_expr(t["args"][0])
            if src[0] == "call":
                self.branches[bb] = (place_str(t["dest"]), src[3])
        # guards: boolean switches whose condition reads both the running counter and the capacity of the queue;
        # the "pull edge" is the successor from which an upstream poll is reachable without re-evaluating the guard
        self.guards = {}
        self.guard_info = {}
        counter = self._counter_field()
        slots_field = R.slot_enum[2]
        for sb in range(b.n):
            if b.is_cleanup(sb) or b.term(sb)["k"] != "switch":
                continue
            labs = fl.edge_labels(sb)
            cond = None
            edge_val = {}
            for tgt, ls in labs.items():
                for lab in ls:
                    if lab[0] == "bool":
                        cond = lab[1]
                        edge_val[tgt] = lab[2]
            if cond is None or len(edge_val) != 2:
                continue
            lv = deep_leaves(ctx, b, cond, 4)
            reads_counter = counter is not None and ("field", counter) in lv
            if not reads_counter:
                import c04
                if c04.reads_window(ctx, b, cond):
                    reads_counter = True      # running + parked as the distance of the position counters
                    ctx._window_form_used = True
            reads_cap = any(x[0] == "call" and re.search(r"core::slice::<impl \[T\]>::len$|::capacity$", x[1] or "") for x in lv) or \
                ("field", "." + slots_field) in lv
            if not (reads_counter and reads_cap):
                continue
            # the pull edge: the successor (entered only from this switch) that dominates an upstream poll site
            pull = None
            for tgt in edge_val:
                if len(b.pred[tgt]) == 1 and any(b.dominates(tgt, u) for u in self.up_sites):
                    pull = tgt
                    break
            if pull is None:
                continue
            table = None
            why = ""
            try:
                import lib_arith
                if cond[0] == "multi" and not self._guard_var_is_fresh(cond[1], sb):
                    raise lib_arith.Unknown("the guard variable is not re-evaluated after the queue changed")
                table = lib_arith.guard_table(ctx, b, cond, counter, slots_field)
            except Exception as ex:  # Unknown / anything: fall back to the shape rule
                why = "%s: %s" % (type(ex).__name__, ex)
            shape = None
            if cond[0] == "binop":
                shape = (cond[1], cond[2], cond[3])
            self.guard_info[sb] = {"cond": cond, "pull_tgt": pull, "pull_val": edge_val[pull], "table": table, "why_no_table": why, "shape": shape}
            for tgt, v in edge_val.items():
                self.guards.setdefault(sb, {})[tgt] = (tgt == pull)
        # tail tests: switch on Option::is_none / is_some of the stream field
        self.tails = {}
        self.tail_sites = {}
        for sb in range(b.n):
            for tgt, labs in fl.edge_labels(sb).items():
                for lab in labs:
                    if lab[0] == "bool" and lab[1][0] == "call" and re.search(r"Option::<.*>::(is_none|is_some)$", lab[1][1] or ""):
                        arg = repr(lab[1][2])
                        if ".stream" in arg:
                            gone = lab[2] if lab[1][1].endswith("is_none") else (not lab[2])
                            self.tails.setdefault(sb, {})[tgt] = gone
                            self.tail_sites[sb] = lab[1][3]        # where the probe was EVALUATED (it may be tested much later)
                    elif lab[0] == "variant" and lab[2] in ("None", "Some"):
                        # a plain `match stream { None => .., Some(_) => .. }` on the upstream Option itself (through shared borrows)
                        x = strip_refs(lab[1])
                        while x[0] == "proj" and x[2] and x[2][-1] == "*":
                            x = ("proj", x[1], x[2][:-1]) if len(x[2]) > 1 else strip_refs(x[1])
                        if x[0] == "proj" and x[2] and x[2][-1] == ".stream" and not any(True for _ in expr_calls(x) if (_[1] or "").endswith("as_pin_mut")):
                            self.tails.setdefault(sb, {})[tgt] = (lab[2] == "None")

    def _guard_var_is_fresh(self, local, sb):
        """The guard is a bool local tested at block sb: between each of its definitions and the test nothing pushes into or
        polls the queue (so the tested value is the guard formula on the queue's current state)."""
        b, fl = self.b, self.fl
        dirty = set(self.pushes) | set(self.inner)
        for (db, idx, kind, node) in fl.defs.get(local, []):
            seen = set()
            work = [x for x in b.normal_succ(db)] if db != sb else []
            if db in dirty and kind != "call":
                # a push in the defining block itself: must come before the definition (block = call terminator last)
                return False
            while work:
                x = work.pop()
                if x in seen or x == sb or b.is_cleanup(x):
                    continue
                seen.add(x)
                if x in dirty:
                    return False
                if any(d[0] == x for d in fl.defs.get(local, [])):
                    continue          # redefined: that definition is examined on its own
                work.extend(b.normal_succ(x))
        return True

    def _follower_fields(self):
        """Option-typed fields X of the adapter that are emptied only together with the upstream (`stream.set(None); *f = None`):
        every store of None into X lies on paths that also clear the stream, nothing else in the crate stores into X, and the
        constructor fills both.  Then X == None implies stream == None, so "X is absent" is read like "the stream is absent"."""
        b, fl = self.b, self.fl
        cand = {}
        for (bb, i, st) in fl.stores:
            if i == "term" or b.is_cleanup(bb):
                continue
            pe = fl.place_expr(st["place"])
            if pe[0] == "proj" and len(pe[2]) >= 1 and pe[2][0].startswith(".") and pe[2][0] != ".stream" and \
                    strip_refs(pe[1])[0] == "call" and (strip_refs(pe[1])[1] or "").endswith("::project"):
                v = fl.rvalue_expr(st["rv"], bb)
                cand.setdefault(pe[2][0], []).append((bb, v[0] == "agg" and v[1].endswith("Option::None")))
        out = set()
        if not cand or not self.setnone:
            return out
        paths = [p for k, p, kn in sensitive_paths(b, fl, 2) if k == "return"]
        for fld, sites in cand.items():
            ok = all(isnone for _, isnone in sites)
            for sb, _ in sites:
                for p in paths:
                    if sb in p and not any(x in p for x in self.setnone):
                        ok = False
            # nothing else in the crate writes the field (the pin-projection only borrows it)
            if ok and self.struct:
                for ob in self.ctx.facts.fn_bodies():
                    if ob is b or self.struct.split("::")[-1] not in ob.path:
                        continue
                    ofl = self.ctx.flow(ob)
                    for (bb2, i2, st2) in ofl.stores:
                        if i2 != "term" and fld in repr(ofl.place_expr(st2["place"])):
                            ok = False
            # the constructor fills it (Some(..)) wherever it builds the adapter
            if ok and self.struct:
                from lib_inter import returned_exprs
                built = 0
                for ob in self.ctx.facts.fn_bodies():
                    for rb, e in returned_exprs(self.ctx, ob):
                        if e[0] == "agg" and e[1].startswith(self.struct + "::") and len(e) > 3 and fld[1:] in e[3]:
                            built += 1
                            v = e[2][list(e[3]).index(fld[1:])]
                            if not (v[0] == "agg" and v[1].endswith("Option::Some")):
                                ok = False
                ok = ok and built >= 1
            if ok:
                out.add(fld)
        return out

    def _drive_summary(self, cb):
        """cb polls one of the crate's collections and returns Poll::Ready only under that poll's Ready(None)."""
        ctx = self.ctx
        inner = [(bb, t) for bb, t, fn in cb.calls() if fn and not cb.is_cleanup(bb) and re.search(RE_STREAM_POLL_NEXT, fn["def"])
                 and callee_body(ctx.facts, fn) is not None]
        if len(inner) != 1:
            return False
        dest = place_str(inner[0][1]["dest"])
        fl = ctx.flow(cb)
        vf = variant_facts(cb, fl)
        n = 0
        for bb in range(cb.n):
            if cb.is_cleanup(bb):
                continue
            for s_ in cb.stmts(bb):
                if s_["k"] == "assign" and s_["place"]["l"] == 0 and not s_["place"]["p"] and s_["rv"]["k"] == "aggregate" \
                        and s_["rv"].get("adt") == "core::task::Poll" and s_["rv"].get("variant") == "Ready":
                    n += 1
                    fs = vf.get(bb, frozenset())
                    if not ((dest, "Ready") in fs and ("(%s as Ready).0" % dest, "None") in fs):
                        # the value may be carried through `ready!`'s Continue / a moved local: accept the moved-Option form
                        if not any(v == "None" for (_, v) in fs):
                            return False
        return n > 0

    def _opt_probe(self, lab):
        """The switched value is Option::as_pin_mut of the stream field ("stream") or an Option probe of a follower field."""
        e = strip_refs(lab[1])
        if e[0] == "call" and re.search(r"core::ops::Try>?::branch$", e[1] or "") and e[2]:
            # `stream.as_mut().as_pin_mut()?`: Break = absent, Continue = present
            e = strip_refs(e[2][0])
        if e[0] == "call" and re.search(r"Option::<.*>::as_pin_mut$", e[1] or ""):
            return "stream"
        if e[0] == "call" and re.search(r"Option::<.*>::(as_mut|as_ref|as_deref_mut|as_deref)$", e[1] or "") and e[2]:
            a = strip_refs(e[2][0])
            while a[0] == "proj" and a[2] and a[2][-1] == "*":
                a = ("proj", a[1], a[2][:-1]) if len(a[2]) > 1 else strip_refs(a[1])
            if a[0] == "proj" and a[2] and a[2][0] in self.followers:
                return "follower"
        return None

    def _counter_field(self):
        """The slot map's occupied counter: the field INSERT increments by one."""
        from lib_flow import self_field_stores, is_inc_of
        ins = self.R.insert_fn
        for (bb, i, fld, val, root, pe) in self_field_stores(ins, self.ctx.flow(ins)):
            if is_inc_of(val, fld) == 1:
                return fld
        return None

    def guard_semantics(self, ordered, safety_counts_parked=None):
        """-> [(guard_bb, safety_ok, saturation_ok, detail)] from the finite-grid table of each guard; None entries when
        the guard has no closed form."""
        out = []
        for sb, gi in sorted(self.guard_info.items()):
            t = gi["table"]
            if t is None:
                out.append((sb, None, None, "no closed form (%s)" % gi["why_no_table"]))
                continue
            pv = gi["pull_val"]
            sp = ordered if safety_counts_parked is None else safety_counts_parked
            unsafe = [k for k, v in t.items() if v is not None and v == pv and not (k[0] + (k[1] if sp else 0) < k[2])]
            unsat = [k for k, v in t.items() if v is not None and v != pv and not (k[0] + (k[1] if ordered else 0) >= k[2])]
            undefined = [k for k, v in t.items() if v is None]
            live = any(v == pv for v in t.values())
            out.append((sb, not unsafe and live, not unsat and not undefined,
                        "pull taken when guard=%s; counterexamples (running, parked, capacity): exceeds-limit %s, under-saturated %s, undefined %s" % (
                            pv, unsafe[:2], unsat[:2], undefined[:2])))
        return out

    def events(self, path, know):
        b = self.b
        ev = []
        n = len(path)

        def window_end(i):
            """Index just past the last step that still talks about the value produced at step i:
            the next occurrence of the same block (next loop iteration) or the end of the path."""
            for j in range(i + 1, n):
                if path[j] == path[i]:
                    return j
            return n

        def later_know(i, dest):
            """Knowledge accumulated after step i, before the producing block is executed again."""
            e = window_end(i)
            return know[e - 1] if e - 1 > i else (know[i + 1] if i + 1 < n else {})

        self._window_end = window_end

        pos = []          # path position each event speaks about (a probe kept in a flag speaks about where it was evaluated)
        for i, bb in enumerate(path):
            pos.extend([i] * (len(ev) - len(pos)))
            t = b.term(bb)
            nxt = path[i + 1] if i + 1 < n else None
            if bb in self.guards and nxt in self.guards[bb]:
                ev.append(("G", self.guards[bb][nxt], bb))
            if bb in self.tails and nxt in self.tails[bb]:
                site = self.tail_sites.get(bb)
                at = max([j for j in range(i + 1) if path[j] == site] or [i])
                pos.extend([i] * (len(ev) - len(pos)))
                ev.append(("T", self.tails[bb][nxt], bb))
                pos.append(at)
            if t["k"] == "switch" and nxt is not None:
                # as_pin_mut None arm
                for labs in [self.fl.edge_labels(bb).get(nxt, [])]:
                    for lab in labs:
                        probe = "stream" if (lab[0] in ("variant", "notvariants") and place_str(lab[3]) in self.aspin.values()) else \
                            (self._opt_probe(lab) if lab[0] in ("variant", "notvariants") else None)
                        if probe is None:
                            continue
                        if lab[0] in ("variant",) and lab[2] in ("None", "Break"):
                            ev.append(("ABSENT", bb))
                        if lab[0] == "notvariants" and ("Some" in lab[2] or "Continue" in lab[2]):
                            ev.append(("ABSENT", bb))
                        if (lab[0] == "variant" and lab[2] in ("Some", "Continue") or lab[0] == "notvariants" and ("None" in lab[2] or "Break" in lab[2])) \
                                and probe == "stream":
                            ev.append(("PRESENT", bb))
            if bb in self.up_sites:
                dest = place_str(self.up_sites[bb]["dest"])
                out = None
                # a `?` applied further along THIS path to a local that holds this poll's result (moved through plain
                # assignments, e.g. out of an inlined helper): associate that branch call with this poll
                holders = {self.up_sites[bb]["dest"]["l"]} if not self.up_sites[bb]["dest"]["p"] else set()
                for j in range(i, window_end(i)):
                    pb_ = path[j]
                    for s_ in b.stmts(pb_) if j > i else []:
                        if s_["k"] == "assign" and not s_["place"]["p"]:
                            rv_ = s_["rv"]
                            if rv_["k"] == "use" and rv_["op"]["k"] in ("move", "copy") and not rv_["op"]["place"]["p"] and rv_["op"]["place"]["l"] in holders:
                                holders.add(s_["place"]["l"])
                            else:
                                holders.discard(s_["place"]["l"])
                    if j > i and pb_ in self.branch_calls:
                        bt_ = b.term(pb_)
                        a0 = bt_["args"][0]
                        if a0["k"] in ("move", "copy") and not a0["place"]["p"] and a0["place"]["l"] in holders:
                            self.branches.setdefault(pb_, (place_str(bt_["dest"]), bb))
                # through `?`
                for brb, (bdest, srcbb) in self.branches.items():
                    if srcbb == bb and brb in path[i:]:
                        k = later_know(path.index(brb, i), bdest)
                        if k.get(bdest) == "Break":
                            out = "Err"
                        elif k.get(bdest) == "Continue":
                            # value moved into another local: find facts on any place derived from it
                            for p_, v_ in k.items():
                                pass
                            out = self._classify_moved(path, know, path.index(brb, i), bdest)
                if out is None:
                    out = classify_poll(dest, later_know(i, dest))
                if out == "Some":
                    # the item (a Result for the try-adapters) may be moved out before its variant is looked at (`admit(queue,
                    # item)?` with `item.map(..)` inside): an item found to be Err further along this path is an upstream error
                    payload = "((%s as Ready).0 as Some).0" % dest
                    holders = set()
                    in_agg = set()       # (aggregate local, operand position) holding the item (the argument tuple of a closure call)
                    end_ = window_end(i)
                    for j in range(i, end_):
                        for s_ in b.stmts(path[j]):
                            if s_["k"] != "assign" or s_["place"]["p"]:
                                continue
                            if s_["rv"]["k"] == "use" and s_["rv"]["op"]["k"] in ("move", "copy"):
                                src_ = s_["rv"]["op"]["place"]
                                if place_str(src_) == payload or (not src_["p"] and ("_%d" % src_["l"]) in holders):
                                    holders.add("_%d" % s_["place"]["l"])
                                elif len(src_["p"]) == 1 and src_["p"][0]["k"] == "field" and (src_["l"], src_["p"][0]["i"]) in in_agg:
                                    holders.add("_%d" % s_["place"]["l"])
                            elif s_["rv"]["k"] == "aggregate":
                                for k_, o_ in enumerate(s_["rv"]["ops"]):
                                    if o_["k"] in ("move", "copy") and not o_["place"]["p"] and ("_%d" % o_["place"]["l"]) in holders:
                                        in_agg.add((s_["place"]["l"], k_))
                        if holders and any(know[j].get(h_) == "Err" for h_ in holders):
                            out = "Err"
                            break
                ev.append(("U", out, bb))
            if bb in self.setnone:
                ev.append(("SETNONE", bb))
            if bb in self.closure_calls:
                ev.append(("F", bb))
            if bb in self.pushes:
                ev.append(("PUSH", self.pushes[bb], bb))
            if bb in self.inner:
                dest = place_str(self.inner[bb]["dest"])
                out = classify_poll(dest, later_know(i, dest))
                if out is None or out == "Ready?":
                    out = self._classify_moved(path, know, i, dest, direct=True) or out
                if bb in self.drives and out != "Pending":
                    out = "None" if (out in ("Ready?", None) and later_know(i, dest).get(dest) == "Ready") or out in ("Ready?",) else out
                    if out is None:
                        # the answer is only looked at through `.is_ready()` / `.is_pending()` kept in a flag: the edge of that
                        # flag taken further along this path tells
                        for j in range(i, window_end(i) - 1):
                            for lab in self.fl.edge_labels(path[j]).get(path[j + 1], []):
                                x = lab[1]
                                if lab[0] == "bool" and x[0] == "call" and re.search(r"Poll::<.*>::(is_ready|is_pending)$", x[1] or "") \
                                        and any(c[3] == bb for c in expr_calls(x)):
                                    ready = lab[2] if x[1].endswith("is_ready") else (not lab[2])
                                    out = "None" if ready else "Pending"
                ev.append(("I", out, bb))
        pos.extend([n] * (len(ev) - len(pos)))
        if any(pos[k] > pos[k + 1] for k in range(len(pos) - 1)):
            order = sorted(range(len(ev)), key=lambda k: (pos[k], k))
            ev = [ev[k] for k in order]
        ev.append(("RET", self._ret_kind(path, know, ev)))
        return ev

    @staticmethod
    def _guard_true(op, val):
        # "true" means: count < capacity (room left)
        if op == "Lt":
            return val
        if op == "Ge":
            return not val
        return val

    def _classify_moved(self, path, know, i, dest, direct=False):
        """The polled value was moved into another local (`_20 = move (_21 as Continue).0`, or `ready!`):
        classify using knowledge about locals assigned from a projection of `dest` later on the path."""
        b = self.b
        cands = []
        base = _base_local(dest)
        end = self._window_end(i)
        know = know[:end]
        path = path[:end]
        for j in range(i, len(path)):
            for s in b.stmts(path[j]):
                if s["k"] == "assign" and not s["place"]["p"] and s["rv"]["k"] == "use" and s["rv"]["op"]["k"] in ("move", "copy"):
                    src = s["rv"]["op"]["place"]
                    if ("_%d" % src["l"]) == base or any(("_%d" % src["l"]) == _base_local(c) for c in cands):
                        cands.append("_%d" % s["place"]["l"])
        last = know[-1] if know else {}
        res = None
        for c in cands:
            for kn in reversed(know[i:]):
                r = classify_poll(c, kn)
                if r and r != "Ready?":
                    return r
                # Option directly (after ready!): (c, Some/None)
                if kn.get(c) in ("Some", "None") and direct:
                    return kn.get(c)
                if kn.get(c) in ("Some", "None") and not direct:
                    res = kn.get(c)
        return res

    def _ret_kind(self, path, know, ev):
        b, fl = self.b, self.fl
        for bb in reversed(path):
            t = b.term(bb)
            if t["k"] == "call" and t["dest"]["l"] == 0 and not t["dest"]["p"]:
                if t["func"]["k"] == "const" and re.search(r"FromResidual", t["func"]["fn"]["def"]):
                    return "Err"
                if bb in self.inner:
                    return "FwdCall"      # `return inner.poll_next(cx)`: whatever the inner queue answers is the answer
                return "Call"
            for s in reversed(b.stmts(bb)):
                if s["k"] == "assign" and s["place"]["l"] == 0 and not s["place"]["p"]:
                    rv = s["rv"]
                    if rv["k"] == "aggregate" and rv.get("adt") == "core::task::Poll":
                        if rv["variant"] == "Pending":
                            return "Pending"
                        e = fl.rvalue_expr(rv, bb)
                        inner = e[2][0]
                        if inner[0] != "agg" and any(c[3] in self.inner for c in expr_calls(inner)):
                            # Poll::Ready(<the inner queue's own Option>): what that poll answered
                            last_i = [e_ for e_ in ev if e_[0] == "I"]
                            if last_i and last_i[-1][1] in ("Some", "None"):
                                return "Forward:%s" % last_i[-1][1]
                        if inner[0] == "agg" and inner[1].endswith("Option::None"):
                            return "None"
                        if inner[0] == "agg" and inner[1].endswith("Option::Some"):
                            if inner[2] and inner[2][0][0] == "agg" and inner[2][0][1].endswith("Result::Err"):
                                if any(c[3] in self.up_sites for c in expr_calls(inner[2][0])):
                                    return "Err"        # Some(Err(e)) built from the upstream poll's own error
                                # the payload may come out of an inlined helper's verdict (a join): what it is on THIS path
                                from lib_flow import PathEval
                                r_ = PathEval(b, path).local_expr(0)
                                if any(c[3] in self.up_sites for c in expr_calls(r_)):
                                    return "Err"
                            return "Some"
                        if inner[0] == "agg" and inner[1] == "tuple" and not inner[2]:
                            return "Done"
                        return "Ready"
                    if rv["k"] == "use":
                        # a value built earlier on this path and moved into the return slot (`map_or(Poll::Pending, ..)`'s default,
                        # the verdict of an inlined helper): what it is on THIS path
                        from lib_flow import PathEval
                        r_ = PathEval(b, path).local_expr(0)
                        if r_[0] == "agg" and r_[1].endswith("Poll::Pending"):
                            return "Pending"
                        if r_[0] == "agg" and r_[1].endswith("Poll::Ready") and r_[2]:
                            inner = r_[2][0]
                            if inner[0] == "agg" and inner[1].endswith("Option::None"):
                                return "None"
                            if inner[0] == "agg" and inner[1].endswith("Option::Some"):
                                if inner[2] and inner[2][0][0] == "agg" and inner[2][0][1].endswith("Result::Err") and \
                                        any(c[3] in self.up_sites for c in expr_calls(inner[2][0])):
                                    return "Err"
                                return "Some"
                            if inner[0] == "agg" and inner[1] == "tuple" and not inner[2]:
                                return "Done"
                            if any(c[3] in self.inner for c in expr_calls(inner)):
                                last_i = [e for e in ev if e[0] == "I"]
                                if last_i:
                                    return "Forward:%s" % last_i[-1][1]
                        # forwarded inner result
                        last_i = [e for e in ev if e[0] == "I"]
                        if last_i:
                            return "Forward:%s" % last_i[-1][1]
                        return "Forward"
        return "?"

    def all_event_paths(self, loop_visits=2):
        cache = getattr(self, "_aep", None)
        if cache is None:
            cache = self._aep = {}
        if loop_visits in cache:
            return cache[loop_visits]
        res = []
        from lib_flow import path_const_feasible
        for kind, path, know in sensitive_paths(self.b, self.fl, loop_visits):
            if kind != "return":
                continue
            if not path_const_feasible(self.b, path):
                continue          # contradicts a constant carried through an aggregate on this very path
            ev = self.events(path, know)
            if ev and ev[-1] == ("RET", "FwdCall"):
                # the inner poll's result is returned as it is: one event sequence per possible answer
                li = max(i for i, e_ in enumerate(ev) if e_[0] == "I")
                for out_ in ("Pending", "Some", "None"):
                    ev2 = list(ev)
                    ev2[li] = ("I", out_, ev[li][2])
                    ev2[-1] = ("RET", "Forward:%s" % out_)
                    res.append((path, ev2))
                continue
            res.append((path, ev))
        cache[loop_visits] = res
        return res

    def path_exprs(self, site_bb, operand, loop_visits=3, limit=400):
        """The distinct expressions `operand` (an operand of the terminator / a statement of block site_bb) evaluates to on
        the feasible return paths through site_bb, each local resolved to its latest definition ON THAT PATH (PathEval): a
        value that reaches the site through a join (e.g. the result of an inlined helper with an early return) is seen as
        what it is on each path."""
        from lib_flow import PathEval
        out = []
        seen_prefix = set()
        for path, ev in self.all_event_paths(loop_visits):
            if site_bb not in path:
                continue
            i = path.index(site_bb)
            key = tuple(path[:i + 1])
            if key in seen_prefix:
                continue
            seen_prefix.add(key)
            if len(seen_prefix) > limit:
                break
            pe = PathEval(self.b, list(key))
            e = pe.operand_expr(operand)
            if e not in out:
                out.append(e)
        return out


def simulate(ev, cap_ge_1=True):
    """Replay an event sequence through the abstract state.  Returns (feasible, trace, final_state) where the
    state is {"stream": "Some"|"None"|"?", "queue": "full"|"nonempty"|"empty"|"?", "up_pending": bool,
    "last_I": outcome|None}."""
    st = {"stream": "?", "queue": "?", "up_pending": False, "last_I": None, "polled_after_none": False,
          "pushes_pending": 0, "up_ended": False}
    for e in ev:
        k = e[0]
        if k == "G":
            if e[1] is False:
                st["queue"] = "full" if cap_ge_1 else st["queue"]
            else:
                if st["queue"] == "full":
                    return False, st
        elif k == "ABSENT":
            if st["stream"] == "Some":
                return False, st
            st["stream"] = "None"
        elif k == "PRESENT":
            # Option::as_pin_mut(stream) took the Some arm: the upstream is still there
            if st["stream"] == "None":
                return False, st
            st["stream"] = "Some"
        elif k == "U":
            if st["stream"] == "None":
                # the upstream is only reachable through the Some arm of Option::as_pin_mut (C05 R5.4 / C10 R10.1
                # check that structurally), so a poll in state None is an infeasible path, not a behaviour
                return False, st
            st["stream"] = "Some"
            if e[1] == "Pending":
                st["up_pending"] = True
            if e[1] == "None":
                st["up_ended"] = True
        elif k == "SETNONE":
            st["stream"] = "None"
        elif k == "PUSH":
            st["queue"] = "nonempty" if st["queue"] != "full" else "full"
        elif k == "I":
            if e[1] == "None" and st["queue"] in ("full", "nonempty"):
                return False, st
            if e[1] == "None":
                st["queue"] = "empty"
            elif e[1] == "Some":
                st["queue"] = "?"
            elif e[1] == "Pending":
                if st["queue"] == "empty":
                    return False, st
            st["last_I"] = e[1]
        elif k == "T":
            if e[1] is True and st["stream"] == "Some":
                return False, st
            if e[1] is False and st["stream"] == "None":
                return False, st
            st["stream"] = "None" if e[1] else "Some"
    return True, st


def ev_str(ev):
    out = []
    for e in ev:
        if e[0] in ("G", "T"):
            out.append("%s(%s)" % (e[0], "t" if e[1] else "f"))
        elif e[0] in ("U", "I"):
            out.append("%s(%s)" % (e[0], e[1]))
        elif e[0] == "PUSH":
            out.append("PUSH")
        elif e[0] == "RET":
            out.append("RET(%s)" % e[1])
        else:
            out.append(e[0])
    return " ".join(out)
