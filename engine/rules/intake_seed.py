#!/usr/bin/env python3
"""Developer tool: confirm an independently written breaking change before keeping it under /verif/seeded/.
usage: intake_seed.py <PROP> <A|B> [src_dir]     (src_dir default /tmp/seed/<PROP>/seed_out/<A|B>)
Confirms in a scratch worktree of /repo (outside /repo and /verif): patch applies; with the patch the crate builds and
the 44 baseline tests pass while the demo fails; without the patch the demo passes.  On success copies patch.diff,
demo.rs and an extended meta.json to /verif/seeded/<PROP><a|b>/ ."""
import json, os, re, shutil, subprocess, sys

prop, which = sys.argv[1], sys.argv[2]
src = sys.argv[3] if len(sys.argv) > 3 else "/tmp/seed/%s/seed_out/%s" % (prop, which)
dest_name = sys.argv[4] if len(sys.argv) > 4 else "%s%s" % (prop, which.lower())
WT = "/tmp/seedverify_%s" % (sys.argv[4] if len(sys.argv) > 4 else prop + which)
env = dict(os.environ, CARGO_NET_OFFLINE="true", CARGO_TARGET_DIR=WT + "/target")


def sh(cmd, cwd=None, timeout=1500):
    r = subprocess.run(cmd, shell=True, cwd=cwd, env=env, stdout=subprocess.PIPE, stderr=subprocess.STDOUT, text=True, timeout=timeout)
    return r.returncode, r.stdout


def tests(cwd, args):
    rc, out = sh("cargo test --offline --no-fail-fast %s 2>&1" % args, cwd)
    passed = sum(int(x) for x in re.findall(r"test result: \w+\. (\d+) passed", out))
    failed = sum(int(x) for x in re.findall(r"test result: \w+\. \d+ passed; (\d+) failed", out))
    return rc, passed, failed, out


subprocess.run("git -C /repo worktree remove --force %s 2>/dev/null; rm -rf %s" % (WT, WT), shell=True)
rc, out = sh("git -C /repo worktree add -q --detach %s HEAD" % WT)
assert rc == 0, out
log = []
try:
    shutil.copytree("/repo/target", WT + "/target")
    shutil.copy(os.path.join(src, "demo.rs"), WT + "/tests/seed_demo.rs")
    rc, p, f, out = tests(WT, "--test seed_demo")
    log.append("without patch: cargo test --test seed_demo -> rc %d, %d passed, %d failed" % (rc, p, f))
    ok_without = rc == 0 and f == 0 and p > 0
    rc2, out2 = sh("git apply %s" % os.path.join(src, "patch.diff"), WT)
    log.append("git apply patch.diff -> rc %d" % rc2)
    assert rc2 == 0, out2
    rc, p, f, out = tests(WT, "--test seed_demo")
    log.append("with patch: cargo test --test seed_demo -> rc %d, %d passed, %d failed" % (rc, p, f))
    ok_demo_fails = rc != 0 and (f > 0 or "panicked" in out or "error" in out)
    os.remove(WT + "/tests/seed_demo.rs")
    rc, p, f, out = tests(WT, "--lib --tests")
    log.append("with patch: cargo test --lib --tests (baseline) -> rc %d, %d passed, %d failed" % (rc, p, f))
    ok_baseline = rc == 0 and p >= 44 and f == 0
    verdict = ok_without and ok_demo_fails and ok_baseline
    print("\n".join(log))
    print("VERDICT:", "CONFIRMED" if verdict else "REJECTED", dict(ok_without=ok_without, ok_demo_fails=ok_demo_fails, ok_baseline=ok_baseline))
    if verdict:
        dst = "/verif/seeded/%s" % dest_name
        os.makedirs(dst, exist_ok=True)
        shutil.copy(os.path.join(src, "patch.diff"), dst + "/patch.diff")
        shutil.copy(os.path.join(src, "demo.rs"), dst + "/demo.rs")
        meta = {}
        try:
            meta = json.load(open(os.path.join(src, "meta.json")))
        except Exception as e:
            meta = {"property": prop, "note": "author's meta.json unreadable: %r" % e}
        meta["property"] = prop
        meta["confirmed_by_verifier"] = log
        meta["origin"] = "independent sub-agent given only the property text and a scratch worktree"
        json.dump(meta, open(dst + "/meta.json", "w"), indent=1)
finally:
    subprocess.run("git -C /repo worktree remove --force %s; rm -rf %s" % (WT, WT), shell=True)
