"""Run the fbfacts driver over a source tree (default /repo's working tree) and return fact files."""
import glob
import os
import shutil
import subprocess
import tempfile

VERIF = os.path.dirname(os.path.dirname(os.path.dirname(os.path.abspath(__file__))))
DRIVER_DIR = os.path.join(VERIF, "engine", "fbfacts")
DRIVER = os.path.join(DRIVER_DIR, "target", "debug", "fbfacts")

CONFIGS = {
    # name -> (extra rustflags, cargo args)
    "default": ("", ["--lib"]),
    "noassert": ("-C debug-assertions=off -C overflow-checks=off", ["--lib"]),
    "cfgmiri": ("--cfg miri", ["--lib"]),
}


def sysroot():
    return subprocess.check_output(["rustc", "+nightly", "--print", "sysroot"], text=True).strip()


def ensure_driver():
    srcs = glob.glob(os.path.join(DRIVER_DIR, "src", "*.rs")) + [os.path.join(DRIVER_DIR, "Cargo.toml")]
    if os.path.exists(DRIVER) and all(os.path.getmtime(DRIVER) >= os.path.getmtime(s) for s in srcs):
        return
    env = dict(os.environ, CARGO_NET_OFFLINE="true")
    r = subprocess.run(["cargo", "+nightly", "build", "--offline"], cwd=DRIVER_DIR, env=env,
                       stdout=subprocess.PIPE, stderr=subprocess.STDOUT, text=True)
    if r.returncode != 0 or not os.path.exists(DRIVER):
        raise RuntimeError("cannot build fbfacts driver:\n" + r.stdout[-4000:])


def extract(repo, config="default", scratch=None, crate="futures_buffered"):
    """Returns (fact_file_path, scratch_dir).  Caller removes scratch_dir."""
    ensure_driver()
    own = scratch is None
    if own:
        scratch = tempfile.mkdtemp(prefix="fbverif.")
    out = os.path.join(scratch, "facts-" + config)
    tgt = os.path.join(scratch, "target-" + config)
    os.makedirs(out, exist_ok=True)
    flags, cargo_args = CONFIGS[config]
    env = dict(os.environ)
    env.update({
        "CARGO_NET_OFFLINE": "true",
        "LD_LIBRARY_PATH": os.path.join(sysroot(), "lib") + ":" + env.get("LD_LIBRARY_PATH", ""),
        "RUSTFLAGS": ("-Zmir-opt-level=0 -Awarnings " + flags).strip(),
        "RUSTC_WORKSPACE_WRAPPER": DRIVER,
        "CARGO_TARGET_DIR": tgt,
        "FBFACTS_OUT": out,
        "FBFACTS_CRATES": crate,
    })
    env.pop("RUSTC_WRAPPER", None)
    r = subprocess.run(["cargo", "+nightly", "check", "--offline", "--quiet"] + cargo_args, cwd=repo, env=env,
                       stdout=subprocess.PIPE, stderr=subprocess.STDOUT, text=True)
    files = glob.glob(os.path.join(out, crate + "-*.json"))
    if r.returncode != 0 or not files:
        msg = r.stdout[-6000:]
        if own:
            shutil.rmtree(scratch, ignore_errors=True)
        raise RuntimeError("fact extraction failed (config %s, rc %d):\n%s" % (config, r.returncode, msg))
    # build output is not needed once the facts exist
    shutil.rmtree(tgt, ignore_errors=True)
    return files[0], scratch
