"""C12 -- children are polled only on notification (token argument, every step a structural obligation)."""
import re

from lib_facts import place_str, fn_name
from lib_flow import strip_refs, expr_calls, expr_str
from roles import roles, direct_sites, callee_body, reaches, RE_ENQUEUE, RE_NOTIFY
from c01 import enq_guarded, _site_label, d_loc, _flag_false_edge_blocks, _writes_true_before, _flag_writes
import c01
import c05

EXPLANATION = (
    "Token argument decided structurally: (1) consume -- every child poll in the crate (indirect poll_fn call or direct "
    "Future::poll/Stream::poll_next on a type parameter, upstream polls of adapters and the order wrapper's forwarding "
    "excluded) lies in the drain function, behind a successful dequeue of the same loop iteration, on the slot of the "
    "dequeued index; the only iterations over all slots (PinSlotMap::iter_mut call sites) feed their items solely into a "
    "field projection/write and reach no child poll; (2) produce -- every MpscQueue::enqueue site is dominated by the "
    "'flag was false' outcome with true written under the slot lock, and the callers of the marking primitive are exactly "
    "{accepted push, FromIterator (one per collected child), merge re-arm (one per yielded item)}; (3) coalesce -- the flag "
    "is cleared only by the dequeue function. Hence child polls <= dequeues <= enqueues <= pushes + wakes (+ merge items), "
    "and repeated wakes between two polls cost one poll. Decided in full at this level.")
ASSUMPTIONS = [
    "cordyceps::MpscQueue delivers each enqueued node exactly once",
    "each Waker::wake / wake_by_ref enters the vtable function once",
]


def r12_1(ctx, R):
    ctx.rule("R12.1", "consume: child polls only in DRAIN behind POP's ready arm on the popped slot (C01 R1.3 + C05 R5.1 "
                      "instances); iterations over all slots (iter_mut) never reach a child poll and use their items only "
                      "for a projection / field write")
    c05.r5_1(ctx, R)
    ctx.rule("R5.1", "see C05 R5.1 (shared)")
    drains = {d.path for d in R.drain_fns}
    n = 0
    for b in ctx.facts.fn_bodies():
        cps = [x for x in R.child_poll_sites(b)]
        fl = ctx.flow(b)
        for bb, t, fn in cps:
            recv = strip_refs(fl.operand_expr(t["args"][0]))
            if any(re.search(r"Option::<.*>::as_pin_mut$", c[1] or "") for c in expr_calls(recv)):
                continue  # adapter upstream
            from roles import order_wrapper_path
            if b.path.startswith("<%s<" % (order_wrapper_path(ctx.facts) or "?")):
                continue  # wrapper forwards the poll it received itself
            n += 1
            ctx.ob("R12.1", b, "child-poll-only-in-drain@%s" % _site_label(b, bb), b.path in drains, b.loc(bb))
    ctx.floor("R12.1", "child-poll-sites", n, 1)
    it_fns = [x for x in R.slotmap_methods if re.search(r"::iter_mut$", x.path)] + \
             [x for x in ctx.facts.fn_bodies() if re.search(r"SlotMapIterMut.* as core::iter::Iterator>::next$", x.path)]
    m = 0
    for b in ctx.facts.fn_bodies():
        fl = ctx.flow(b)
        calls_iter = [(bb, t) for bb, t, fn in b.calls() if fn and not b.is_cleanup(bb) and re.search(r"PinSlotMap::<.*>::iter_mut$", fn_name(fn) or "")]
        if not calls_iter:
            continue
        m += len(calls_iter)
        no_poll = not R.child_poll_sites(b) and not any(
            fn and callee_body(ctx.facts, fn) is not None and callee_body(ctx.facts, fn).path in drains for _, _, fn in b.calls())
        # items (Some payload of SlotMapIterMut::next) flow only into project()/field access
        ok_items = True
        for bb, t, fn in b.calls():
            if fn and "SlotMapIterMut" in (fn_name(fn) or "") and (fn_name(fn) or "").endswith("::next"):
                dest = t["dest"]["l"]
                work = [dest]
                seen = set()
                while work:
                    x = work.pop()
                    if x in seen:
                        continue
                    seen.add(x)
                    for ub, ui, node in fl.uses_of_local(x):
                        if ui == "term" and node["k"] == "call":
                            nm = fn_name(node["func"].get("fn")) if node["func"]["k"] == "const" else None
                            if not (nm and (nm.endswith("::project") or nm.endswith("::project_ref"))):
                                ok_items = False
                        elif ui != "term" and node["k"] == "assign" and not node["place"]["p"] and node["rv"]["k"] == "use":
                            work.append(node["place"]["l"])
        ctx.ob("R12.1", b, "iterate-all-slots-only-for-field-write", no_poll and ok_items, d_loc(b),
               "no child poll reachable: %s; items only projected: %s" % (no_poll, ok_items))
    ctx.floor("R12.1", "iter_mut-call-sites", m, 2)


def r12_2(ctx, R):
    ctx.rule("R12.2", "produce: each enqueue site is dominated by the 'flag was false' edge with true written under the "
                      "lock; callers of MARK = {push primitive (calls INSERT), FromIterator constructor, merge re-arm (caller "
                      "of DRAIN over streams)}")
    n = 0
    for b in R.enq_fns:
        falseb = _flag_false_edge_blocks(ctx, R, b)
        for bb, t, fn in direct_sites(b, RE_ENQUEUE):
            n += 1
            ok = all(enq_guarded(ctx, R, b, bb))
            ctx.ob("R12.2", b, "enqueue-only-on-false->true@%s" % _site_label(b, bb), ok, b.loc(bb))
    ctx.floor("R12.2", "enqueue-sites", n, 1)
    mark = R.mark_fn
    ins = R.insert_fn
    k = 0
    for b, ss in R.callers_of(mark):
        k += 1
        role = None
        if R.calls_to_body(b, ins):
            role = "push-primitive"
        elif any(fn and "FromIterator" in (fn_name(fn) or "") for _, _, fn in b.calls()):
            role = "from_iter"
        elif any(R.calls_to_body(b, d) for d in R.drain_fns):
            role = "merge-re-arm"
        in_loop_ok = True
        if role == "push-primitive" or role == "merge-re-arm":
            # one mark per accepted push / yielded item: the MARK site is not inside a loop of its own
            for sbb, st, sfn in ss:
                loops = [h for h, body in b.loops().items() if sbb in body]
                from lib_flow import loop_over_one_element_range
                if role == "push-primitive" and any(not loop_over_one_element_range(b, ctx.flow(b), b.loops()[h]) for h in loops):
                    in_loop_ok = False      # (a loop over `key..key + 1` -- a range-marking helper called for one slot -- is one mark)
                if role == "merge-re-arm":
                    drain_sites = [x[0] for d in R.drain_fns for x in R.calls_to_body(b, d)]
                    for h in loops:
                        if not any(ds in b.loops()[h] for ds in drain_sites):
                            in_loop_ok = False  # a marking loop of its own: more than one token per yielded item
        ctx.ob("R12.2", b, "mark-caller-role", role is not None and in_loop_ok, b.loc(ss[0][0]), "role: %s" % role)
    ctx.floor("R12.2", "mark-callers", k, 3)
    # the crate never invokes a child's slot waker itself (that would be an enqueue without a push or a child wake)
    import roles as _roles
    for b in ctx.facts.fn_bodies():
        allw = direct_sites(b, _roles.RE_WAKE)
        if not allw:
            continue
        task = {x[0] for x in R.task_wake_sites(b, strict=True)}
        for bb, t, fn in allw:
            if b in R.mark_fns:
                continue   # a marking primitive implemented through the slot waker: that call IS the push's one token
            ctx.ob("R12.2", b, "wake-call-is-on-the-caller's-task-waker@%s" % _site_label(b, bb), bb in task, b.loc(bb),
                   "receiver %s" % expr_str(strip_refs(ctx.flow(b).operand_expr(t["args"][0]))))
    c01.r1_6(ctx, R)
    ctx.rule("R1.6", "see C01 R1.6 (shared): the merge re-arm marks exactly the slot that yielded")


def r12_3(ctx, R):
    ctx.rule("R12.3", "coalesce: the flag is written false only in POP (C01 R1.3 instances re-evaluated)")
    c01.r1_3(ctx, R, parts=("who", "behind"))
    ctx.rule("R1.3", "see C01 R1.3 (shared; parts: who-may-clear + child poll behind a dequeue): a flag is never cleared while its node is queued")


def run(ctx):
    R = roles(ctx)
    R.pop_fn, R.drain_fn, R.mark_fn, R.insert_fn
    r12_1(ctx, R)
    r12_2(ctx, R)
    r12_3(ctx, R)
