"""Semantic roles (DESIGN §4 'Conventions'): located from callees in core/alloc and the three
dependencies, from types, and from positions in aggregates -- never from names of private helpers,
line numbers or source text."""
import re

from framework import AnchorLost
from lib_facts import callee_matches, fn_name
from lib_flow import Flow, strip_refs, expr_calls

RE_DEQUEUE = r"cordyceps::MpscQueue::<.*>::try_dequeue"
RE_ENQUEUE = r"cordyceps::MpscQueue::<.*>::enqueue$"
RE_NOTIFY = r"diatomic_waker::DiatomicWaker::notify$"
RE_DW_REGISTER = r"diatomic_waker::DiatomicWaker::register$"
RE_VTABLE_NEW = r"core::task::RawWakerVTable::new$"
RE_LOCK = r"spin::mutex::SpinMutex::<.*>::lock$"
RE_CTX_WAKER = r"core::task::Context::<.*>::waker$"
RE_WAKE = r"core::task::Waker::wake(_by_ref)?$"
RE_FROM_WAKER = r"core::task::Context::<.*>::from_waker$"
RE_PIN_SET = r"core::pin::Pin::<.*>::set$"
RE_FUTURE_POLL = r"(^|::)Future::poll$"
RE_STREAM_POLL_NEXT = r"(^|::)Stream::poll_next$"


def local_fn_bodies(facts):
    return facts.fn_bodies()


def callee_body(facts, fn):
    """Body of a call's target when it is a function of this crate (resolved instance preferred)."""
    if fn is None:
        return None
    for nm in (fn.get("res"), fn.get("def")):
        if nm and nm in facts.bodies:
            return facts.bodies[nm]
    return None


def direct_sites(body, regex):
    return [(bb, t, fn) for bb, t, fn in body.calls()
            if fn is not None and not body.is_cleanup(bb) and callee_matches(fn, regex)]


def reaches(facts, body, regex, depth=3, _seen=None):
    """Does `body` reach (<= depth crate-internal call levels) a call matching regex?"""
    if _seen is None:
        _seen = set()
    if body.path in _seen:
        return False
    _seen.add(body.path)
    for bb, t, fn in body.calls():
        if fn is None:
            continue
        if callee_matches(fn, regex):
            return True
        if depth > 0:
            cb = callee_body(facts, fn)
            if cb is not None and reaches(facts, cb, regex, depth - 1, _seen):
                return True
    # closures constructed here are considered reachable
    return False


def sites(facts, body, regex, depth=3):
    """Call sites in `body` (normal blocks) that call a target matching regex directly or a crate
    function reaching it within `depth` levels.  Returns [(bb, term, fninfo, direct:bool)]."""
    out = []
    for bb, t, fn in body.calls():
        if fn is None or body.is_cleanup(bb):
            continue
        if callee_matches(fn, regex):
            out.append((bb, t, fn, True))
        else:
            cb = callee_body(facts, fn)
            if cb is not None and cb.path != body.path and reaches(facts, cb, regex, depth - 1):
                out.append((bb, t, fn, False))
    return out


class BodySet(list):
    """Several crate functions playing one role (e.g. two marking primitives); `.path` is the first, `.paths` all."""

    @property
    def path(self):
        return self[0].path

    @property
    def paths(self):
        return {b.path for b in self}

    @property
    def path_regex(self):
        return "(" + "|".join(re.escape(b.path) for b in self) + ")$"


def _paths_of(target):
    return target.paths if isinstance(target, BodySet) else {target.path}


class Roles:
    def __init__(self, ctx):
        self.ctx = ctx
        self.f = ctx.facts
        self._cache = {}

    def _c(self, key, fn):
        if key not in self._cache:
            self._cache[key] = fn()
        return self._cache[key]

    # ---- waker list roles
    @property
    def pop_fns(self):
        return self._c("pop", lambda: [b for b in self.f.fn_bodies() if direct_sites(b, RE_DEQUEUE)])

    @property
    def pop_fn(self):
        p = self.pop_fns
        if len(p) != 1:
            raise AnchorLost("POP: exactly one crate function must call MpscQueue::try_dequeue* (found %d)" % len(p))
        return p[0]

    @property
    def enq_fns(self):
        return self._c("enq", lambda: [b for b in self.f.fn_bodies() if direct_sites(b, RE_ENQUEUE)])

    @property
    def mark_fns(self):
        """Functions containing an ENQ that are not on the vtable wake path (push-mark / re-arm primitive)."""
        def find():
            # enqueueing functions that are not on the waker-vtable wake path
            wp = set()
            work = [self.vt["wake"], self.vt["wake_by_ref"]]
            depth = {w.path: 0 for w in work}
            while work:
                b = work.pop()
                if b.path in wp:
                    continue
                wp.add(b.path)
                if depth[b.path] >= 3:
                    continue
                for bb, t, fn in b.calls():
                    cb = callee_body(self.f, fn)
                    if cb is not None and cb.path not in wp:
                        depth.setdefault(cb.path, depth[b.path] + 1)
                        work.append(cb)
            out = [b for b in self.enq_fns if b.path not in wp]
            # plus: whatever the push primitive calls with the key INSERT returned (the marking primitive by use,
            # however it is implemented inside)
            try:
                ins = self.insert_fn
                for cb_, ss in self.callers_of(ins):
                    cfl = self.ctx.flow(cb_)
                    for bb, t, fn in cb_.calls():
                        tb = callee_body(self.f, fn)
                        if tb is None or cb_.is_cleanup(bb) or tb.path == ins.path or not t["args"]:
                            continue
                        idx = cfl.operand_expr(t["args"][-1])
                        if any(c[1] == ins.path for c in expr_calls(idx)) and tb not in out and tb.path not in wp:
                            out.append(tb)
            except AnchorLost:
                pass
            return out
        return self._c("mark", find)

    def is_mark_all(self, cb):
        """cb is a MARK-ALL primitive of the waker list: it takes nothing but the list, and its ENQ site sits in a loop over
        `0..(*header).len` with the enqueued node being `slice_start + i` for the loop's own index i -- `for i in 0..len
        { MARK(i) }` moved behind the list's interface."""
        if cb is None or cb.arg_count != 1 or cb.path not in {m.path for m in self.mark_fns}:
            return False
        fl = self.ctx.flow(cb)
        for bb, t, fn in direct_sites(cb, RE_ENQUEUE):
            if not any(bb in body for body in cb.loops().values()):
                continue
            node = fl.operand_expr(t["args"][-1])
            for c in expr_calls(node):
                if c[1] and "Range" in c[1] and c[1].endswith("::next"):
                    it = strip_refs(c[2][0])
                    while it[0] == "call" and (it[1] or "").endswith("into_iter"):
                        it = strip_refs(it[2][0])
                    if not (it[0] == "agg" and it[1].endswith("Range::Range")):
                        continue
                    lo, hi = strip_refs(it[2][0]), strip_refs(it[2][1])
                    if lo[0] == "const" and lo[2] == "0" and hi[0] == "proj" and hi[2] and hi[2][-1] == ".len" and \
                            any(re.search(r"mut_ptr::<impl \*mut .*>::add$", x[1] or "") for x in expr_calls(node)):
                        return True
        return False

    @property
    def mark_fn(self):
        m = self.mark_fns
        if len(m) < 1:
            raise AnchorLost("MARK: no crate function off the wake path enqueues")
        return BodySet(m)

    @property
    def register_fns(self):
        return self._c("reg", lambda: [b for b in self.f.fn_bodies() if direct_sites(b, RE_DW_REGISTER)])

    @property
    def vt(self):
        """The four vtable entry points by position: clone, wake, wake_by_ref, drop."""
        def find():
            for b in self.f.body_list:
                for bb, t, fn in b.calls():
                    if fn is not None and callee_matches(fn, RE_VTABLE_NEW):
                        fl = Flow(b)
                        names = []
                        for a in t["args"]:
                            e = strip_refs(fl.operand_expr(a))
                            while e[0] == "cast":
                                e = e[2]
                            if e[0] != "fn":
                                raise AnchorLost("VT: RawWakerVTable::new argument is not a function item")
                            names.append(e[1])
                        if len(names) == 4:
                            bodies = [self.f.bodies.get(n) for n in names]
                            if any(x is None for x in bodies):
                                raise AnchorLost("VT: vtable function body not found")
                            return dict(zip(("clone", "wake", "wake_by_ref", "drop"), bodies))
            raise AnchorLost("VT: no RawWakerVTable::new call in the crate")
        return self._c("vt", find)

    @property
    def drain_fns(self):
        """Functions that call POP and make an indirect call (the child poll through a fn pointer),
        or call POP and a Future::poll/Stream::poll_next."""
        def find():
            pops = {p.path for p in self.pop_fns}
            out = []
            for b in self.f.fn_bodies():
                calls_pop = any(fn is not None and fn_name(fn) in pops for _, _, fn in b.calls())
                if calls_pop:
                    out.append(b)
            return out
        return self._c("drain", find)

    @property
    def drain_fn(self):
        d = self.drain_fns
        if len(d) < 1:
            raise AnchorLost("DRAIN: no crate function calls POP")
        return d[0]          # every rule about DRAIN is evaluated on each drain function (R.drain_fns)

    def pop_sites(self, body):
        pops = {p.path for p in self.pop_fns}
        return [(bb, t, fn) for bb, t, fn in body.calls()
                if fn is not None and fn_name(fn) in pops and not body.is_cleanup(bb)]

    def child_poll_sites(self, body):
        """CHILD-POLL: indirect calls through a fn-pointer whose signature is
        fn(Pin<&mut _>, &mut Context) -> Poll<_>; plus direct Future::poll / Stream::poll_next
        calls that did not resolve to a crate impl (receiver is a type parameter)."""
        out = []
        for bb in range(body.n):
            if body.is_cleanup(bb):
                continue
            t = body.term(bb)
            if t["k"] != "call":
                continue
            f = t["func"]
            if f["k"] in ("copy", "move"):
                ty = self.f.types.get(f["place"]["ty"])
                if ty and ty["k"] == "fnptr" and len(ty["io"]) == 3 and "core::task::Context" in ty["io"][1] \
                        and ty["io"][2].startswith("core::task::Poll<"):
                    out.append((bb, t, None))
            elif f["k"] == "const" and "fn" in f:
                fn = f["fn"]
                if (re.search(RE_FUTURE_POLL, fn["def"]) or re.search(RE_STREAM_POLL_NEXT, fn["def"])) \
                        and not fn.get("res_local") and not fn.get("local"):
                    out.append((bb, t, fn))
                elif fn["def"] in ("core::ops::FnMut::call_mut", "core::ops::Fn::call", "core::ops::FnOnce::call_once") and len(t["args"]) == 2 \
                        and t["dest"].get("ty", "").startswith("core::task::Poll<"):
                    # a poll function passed as a generic callable PARAMETER: `poll_fn(task, cx)` with
                    # poll_fn: impl FnMut(Pin<&mut F>, &mut Context) -> Poll<O>; normalised to the fn-pointer view
                    fl = self.ctx.flow(body)
                    rcv = strip_refs(fl.operand_expr(t["args"][0]))
                    tup = t["args"][1]
                    tty = tup["place"]["ty"] if tup["k"] in ("copy", "move") else tup.get("ty", "")
                    if rcv[0] == "param" and "core::task::Context" in tty and tup["k"] in ("copy", "move") and not tup["place"]["p"]:
                        sd = fl.single_def(tup["place"]["l"])
                        if sd not in (None, "param") and sd[2] == "assign" and sd[3]["rv"]["k"] == "aggregate" and sd[3]["rv"].get("agg") == "tuple" \
                                and len(sd[3]["rv"]["ops"]) == 2:
                            t2 = dict(t)
                            t2["args"] = list(sd[3]["rv"]["ops"])
                            t2["func"] = t["args"][0]
                            out.append((bb, t2, None))
        return out

    def task_wake_sites(self, body, strict=False):
        """TASK-WAKE: Waker::wake(_by_ref) whose receiver is Context::waker(cx) of a `cx` parameter of the enclosing
        function.  Unless `strict`, also a wake of the slot waker of a slot just delivered by POP in a function that
        registered its own cx waker first: that waker's wake path notifies the registered (= current) task waker, or
        the slot was already re-woken after the registration, which notified it."""
        fl = self.ctx.flow(body)
        out = []
        pops = {p.path for p in self.pop_fns}
        for bb, t, fn in direct_sites(body, RE_WAKE):
            recv = strip_refs(fl.operand_expr(t["args"][0]))
            if recv[0] == "call" and re.search(RE_CTX_WAKER, recv[1]):
                src = strip_refs(recv[2][0])
                if src[0] == "param":
                    out.append((bb, t, fn))
                elif not strict and src[0] == "call" and re.search(RE_FROM_WAKER, src[1] or ""):
                    w = strip_refs(src[2][0])
                    if any(c[1] in pops for c in expr_calls(w)) and any(body.dominates(rb, bb) for rb, _, _, _ in sites(self.f, body, RE_DW_REGISTER)):
                        out.append((bb, t, fn))
            elif not strict and any(c[1] in pops for c in expr_calls(recv)) and \
                    any(body.dominates(rb, bb) for rb, _, _, _ in sites(self.f, body, RE_DW_REGISTER)):
                out.append((bb, t, fn))
        return out

    def ctx_params(self, body):
        """Indices of MIR arguments typed &mut Context."""
        return [i for i in range(1, body.arg_count + 1) if "core::task::Context<" in body.locals[i]]

    # ---- the flag (SpinMutex<bool> of the linked item)
    def flag_lock_sites(self, body):
        out = []
        fl = self.ctx.flow(body)
        for bb, t, fn in direct_sites(body, RE_LOCK):
            if "SpinMutex::<bool" in fn["def_str"] or "SpinMutex<bool" in fn.get("def_str", ""):
                out.append((bb, t, fn))
        return out

    # ---- slot map roles
    @property
    def slot_enum(self):
        """(enum path, slot-map struct path, slots field name): the crate enum with an occupied(F) and a free(usize)
        variant, and the crate struct (with its own usize bookkeeping fields) that stores values of it.  The *shape* of
        the storage (Pin<Box<[E<F>]>>) is C08's obligation, not part of the role."""
        def find():
            cands = []
            for path, adt in self.f.adts.items():
                if adt["kind"] != "enum" or "::_::" in path:
                    continue
                gp = adt["generics"]
                occ = [v for v in adt["variants"] if len(v["fields"]) == 1 and v["fields"][0]["ty"] in gp]
                free = [v for v in adt["variants"] if len(v["fields"]) == 1 and re.match(r"(usize|u8|u16|u32|u64|u128)$", v["fields"][0]["ty"])]
                if len(adt["variants"]) == 2 and occ and free:
                    cands.append(path)
            for e in cands:
                for path, adt in self.f.adts.items():
                    if adt["kind"] != "struct" or "::_::" in path:
                        continue
                    flds = adt["variants"][0]["fields"]
                    holder = [f for f in flds if (e + "<") in f["ty"]]
                    usz = [f for f in flds if re.match(r"(usize|u8|u16|u32|u64|u128)$", f["ty"])]      # widths are C02 R2.2's obligation
                    # the bookkeeping may be grouped in a private struct of its own (`free: FreeList { head, filled }`)
                    for f in flds:
                        sub = self.f.adts.get(f["ty"].split("<")[0])
                        if sub is not None and sub["kind"] == "struct" and f not in holder:
                            usz += [g for g in sub["variants"][0]["fields"] if re.match(r"(usize|u8|u16|u32|u64|u128)$", g["ty"])]
                    if holder and len(usz) >= 2:
                        return (e, path, holder[0]["name"])
            raise AnchorLost("SLOT: no crate enum {occupied(F), free(usize)} stored by a struct with usize bookkeeping")
        return self._c("slot", find)

    @property
    def slot_variants(self):
        """(occupied_variant_name, free_variant_name) of the slot enum."""
        enum_path = self.slot_enum[0]
        adt = self.f.adts[enum_path]
        gp = adt["generics"]
        occ = free = None
        for v in adt["variants"]:
            tys = [x["ty"] for x in v["fields"]]
            if tys and tys[0] in gp:
                occ = v["name"]
            elif len(tys) == 1 and re.match(r"(usize|u8|u16|u32|u64|u128)$", tys[0]):
                free = v["name"]
        if occ is None or free is None:
            raise AnchorLost("SLOT: enum %s lacks an occupied(F)/free(usize) variant pair" % enum_path)
        return occ, free

    @property
    def slotmap_methods(self):
        sm = self.slot_enum[1]
        return [b for b in self.f.fn_bodies() if b.path.startswith(sm + "::<") or ("<" + sm + "<") in b.path]

    def _pin_set_variant(self, body):
        """Variants of the slot enum written through Pin::set in this body."""
        fl = self.ctx.flow(body)
        enum_path = self.slot_enum[0]
        out = []
        for bb, t, fn in direct_sites(body, RE_PIN_SET):
            if len(t["args"]) < 2:
                continue
            v = fl.operand_expr(t["args"][1])
            if v[0] == "agg" and v[1].startswith(enum_path + "::"):
                out.append((bb, t, v[1].split("::")[-1], v))
        return out

    @property
    def insert_fn(self):
        def find():
            occ, free = self.slot_variants
            c = [b for b in self.slotmap_methods if any(x[2] == occ for x in self._pin_set_variant(b))]
            if len(c) != 1:
                raise AnchorLost("INSERT: exactly one slot-map method must Pin::set an occupied slot (found %d)" % len(c))
            return c[0]
        return self._c("insert", find)

    @property
    def remove_fn(self):
        def find():
            occ, free = self.slot_variants
            c = [b for b in self.slotmap_methods if any(x[2] == free for x in self._pin_set_variant(b))]
            if len(c) != 1:
                raise AnchorLost("REMOVE: exactly one slot-map method must Pin::set a free slot (found %d)" % len(c))
            return c[0]
        return self._c("remove", find)

    @property
    def bulk_vacate_fns(self):
        """Slot-map methods other than REMOVE that turn slots vacant: they store the free variant into slot storage (a plain
        assignment through a `&mut Slot`, or Pin::set) -- a `clear` / `retain` / `take` of the slot map."""
        def find():
            occ, free = self.slot_variants
            try:
                rem = self.remove_fn.path
            except AnchorLost:
                rem = None
            out = []
            for b in self.slotmap_methods:
                if b.path == rem or re.match(re.escape(self.slot_enum[1]) + r"<", b.locals[0] or ""):
                    continue        # REMOVE itself; constructors (return the map)
                hit = any(x[2] == free for x in self._pin_set_variant(b))
                # ... or vacates through REMOVE itself, slot by slot (`for key in 0..len { self.remove(key) }`)
                if rem is not None and any((fn_name(fn) or "") == rem for _, _, fn in b.calls() if fn):
                    hit = True
                fl = self.ctx.flow(b)
                for bb in range(b.n):
                    if b.is_cleanup(bb):
                        continue
                    for s_ in b.stmts(bb):
                        if s_["k"] == "assign" and s_["place"]["p"] and any(e["k"] == "deref" for e in s_["place"]["p"]) \
                                and s_["rv"]["k"] in ("aggregate", "use"):
                            v = strip_refs(fl.rvalue_expr(s_["rv"], bb))
                            if v[0] == "agg" and v[1].endswith("::" + free) and self.slot_enum[0] in v[1]:
                                hit = True
                if hit:
                    out.append(b)
            return out
        return self._c("bulkvac", find)

    @property
    def accessor_fns(self):
        """slot-map methods returning Option<Pin<&mut F>> (Occupied-only accessor)."""
        def find():
            out = []
            for b in self.slotmap_methods:
                if re.match(r"core::option::Option<core::pin::Pin<&mut \w+>>$", b.locals[0]):
                    out.append(b)
            return out
        return self._c("acc", find)

    def calls_to_body(self, body, target_body):
        ps = _paths_of(target_body)
        return [(bb, t, fn) for bb, t, fn in body.calls()
                if fn is not None and fn_name(fn) in ps and not body.is_cleanup(bb)]

    def callers_of(self, target_body):
        out = []
        for b in self.f.fn_bodies():
            s = self.calls_to_body(b, target_body)
            if s:
                out.append((b, s))
        return out


def roles(ctx):
    if ctx._roles is None:
        ctx._roles = Roles(ctx)
    return ctx._roles


def order_wrapper_path(facts):
    """The order wrapper of the ordered collections, located by shape: a crate struct with exactly two fields, one a bare
    type parameter and one `usize`, that has an `Ord` impl (it is the element type of the parked-output heap)."""
    ords = {i["self_ty"].split("<")[0] for i in facts.impls if i["trait"] == "core::cmp::Ord" and not i.get("negative")}
    for path, adt in facts.adts.items():
        if adt["kind"] != "struct" or path not in ords:
            continue
        fs = adt["variants"][0]["fields"]
        if len(fs) == 2 and sorted(("usize" if f["ty"] == "usize" else "param" if (facts.types.get(f["ty"]) or {}).get("k") == "param" else "?") for f in fs) == ["param", "usize"]:
            return path
    return None
