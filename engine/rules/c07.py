"""C07 -- join_all / try_join_all never return a value no input produced (invariant I7: slot i vacant <=> output[i] init)."""
import re

from lib_facts import place_str, fn_name, callee_matches
from lib_flow import (strip_refs, expr_calls, expr_str, variant_facts, blocks_with, first_entries, must_pass_flags,
                      flag_search)
from lib_inter import returned_exprs
from roles import roles, direct_sites, callee_body, reaches, sites, RE_FUTURE_POLL
from c01 import _site_label, d_loc
import c02

EXPLANATION = (
    "Static decision that every CFG path of JoinAll::poll / TryJoinAll::poll preserves I7 (queue slot i vacant <=> "
    "output[i] initialised) and that the unchecked MaybeUninit->init conversion is reachable only under it: R7.1 on every "
    "path that takes the Ready(Some((i, _))) edge of the vacating drain call, before the next drain call or any return, "
    "either MaybeUninit::write(output[i], payload) with the same i, or the buffer is invalidated (the output field is "
    "replaced through mem::replace/take, by a call chain that also releases the collected elements); R7.2 the "
    "*mut [MaybeUninit<T>] -> *mut [T] cast (and any assume_init*) occurs only under the Ready(None) facts and its "
    "operand is the buffer moved out by mem::replace of the field (so a second poll cannot re-own the elements); R7.3 "
    "the buffer length passed to resize_with is capacity() of the very queue stored in the struct, built by "
    "FromIterator; R7.4 the queue/output fields are private and nothing in those impls can insert into the queue; "
    "R7.5 Ready(Vec/Ok) is constructed only under Ready(None), the Err returned is the payload of the drained Err. "
    "With C02/R2.1+R2.4 (vacate<=>Ready, None iff empty) these give 'no element no input produced' on all paths.")
WITNESSES = "thorough"  # E3 compile_fail witnesses (tier in which they run)
ASSUMPTIONS = [
    "dev-profile MIR at mir-opt-level=0 represents the source",
    "the vacating drain (poll_inner) vacates slot i exactly when it returns Ready(Some((i, _))) -- C02 R2.1, re-checked here",
    "FromIterator for the bounded queue fills slots 0..n in iterator order with capacity == n (C04 R4.5 / C15)",
]

RE_MU_WRITE = r"core::mem::MaybeUninit::<.*>::write$"
RE_REPLACE = r"core::mem::(replace|take)$"
RE_ASSUME = r"assume_init(_read|_mut|_ref|_drop)?$|slice_assume_init"


def mu_structs(ctx):
    """Crate structs with a field whose type mentions MaybeUninit<T> with T depending on a type parameter.
    Returns {struct_path: [field names]}."""
    out = {}
    for path, adt in ctx.facts.adts.items():
        if adt["kind"] != "struct":
            continue
        for f in adt["variants"][0]["fields"]:
            hit = []

            def v(t, c, key):
                if t["k"] == "adt" and t["name"] == "core::mem::MaybeUninit":
                    if any(ctx.facts.type_mentions(a, lambda x, cc: x["k"] in ("param", "alias")) for a in t["args"] if isinstance(a, str)):
                        hit.append(1)
            ctx.facts.walk_type(f["ty"], v)
            if hit:
                out.setdefault(path, []).append(f["name"])
    base_direct = {k: list(v) for k, v in out.items()}
    # a buffer wrapped in a private helper struct of its own (`output: OutputBuffer<T>` with `slots: Box<[MaybeUninit<T>]>`
    # inside): the structs that embed the wrapper are the buffer owners (their impls -- with the wrapper's helper methods read
    # through -- poll, write, convert and release), named by the field that holds the wrapper
    for _ in range(3):
        moved = False
        for base in list(out):
            owners = {}
            for path, adt in ctx.facts.adts.items():
                if adt["kind"] != "struct" or path == base:
                    continue
                for f in adt["variants"][0]["fields"]:
                    if f["ty"] == base or f["ty"].startswith(base + "<"):
                        owners.setdefault(path, []).append(f["name"])
            has_drop = any(i["trait"] == "core::ops::Drop" and re.match(re.escape(base) + r"(<|$)", i["self_ty"]) for i in ctx.facts.impls)
            if owners and not has_drop:
                del out[base]
                for o_, fs_ in owners.items():
                    out.setdefault(o_, [])
                    out[o_] += [x for x in fs_ if x not in out[o_]]
                moved = True
        if not moved:
            break
    mu_structs.base = base_direct
    return out


def vacating_fns(ctx, R):
    """Functions that drain with Future::poll and REMOVE the finished slot (today: poll_inner)."""
    return [b for b, site in c02.future_drain_callers(ctx, R, RE_FUTURE_POLL) if R.calls_to_body(b, R.remove_fn)]


def drain_sites_in(ctx, R, b, vac):
    """Drain call sites of a join-style poll: calls of a vacating drain (vac), or direct calls of DRAIN with
    poll_fn = Future::poll (then the caller vacates itself, conditionally).  -> [(bb, term, "vacating"|"direct")]"""
    fl = ctx.flow(b)
    out = []
    dr = {d.path for d in R.drain_fns}
    for bb, t, fn in b.calls():
        if fn is None or b.is_cleanup(bb):
            continue
        nm = fn_name(fn)
        if nm in vac:
            out.append((bb, t, "vacating"))
        elif nm in dr:
            pf = strip_refs(fl.operand_expr(t["args"][-1]))
            while pf[0] == "cast":
                pf = pf[2]
            if pf[0] == "fn" and re.search(RE_FUTURE_POLL, pf[1] or ""):
                out.append((bb, t, "direct"))
    return out


def poll_fns_of(ctx, struct_path):
    mod_ty = struct_path
    return [b for b in ctx.facts.fn_bodies()
            if re.search(r"^<%s<.*> as futures_core::Future>::poll$" % re.escape(mod_ty), b.path)]


def impl_fns_of(ctx, struct_path):
    return [b for b in ctx.facts.fn_bodies()
            if re.search(r"^<%s<" % re.escape(struct_path), b.path) or b.path.startswith(struct_path + "::<")]


def _index_local_expr(fl, pe):
    """For a place expr ending in an index elem '[_N]' return expr of local N."""
    if pe[0] == "proj":
        for el in pe[2]:
            m = re.match(r"\[_(\d+)\]$", el)
            if m:
                return fl.local_expr(int(m.group(1)))
    return None


def field_of(pe):
    """First struct field named on a place expression path (e.g. '.output'), looking through casts,
    references and nested projections (slice indexing lowers to a Transmute of the Box's pointer field)."""
    while True:
        if pe[0] == "proj":
            inner = field_of(pe[1])
            if inner is not None:
                return inner
            for el in pe[2]:
                if el.startswith(".") and not el[1:].isdigit() and el not in (".pointer",):
                    return el
            return None
        if pe[0] == "cast":
            pe = pe[2]
            continue
        if pe[0] == "ref":
            pe = pe[1]
            continue
        return None


def invalidating_sites(ctx, b, fieldnames, depth=2):
    """Call sites in b that replace one of the MaybeUninit fields of self (directly or via a crate helper)."""
    fl = ctx.flow(b)
    out = []
    for bb, t, fn in b.calls():
        if fn is None or b.is_cleanup(bb):
            continue
        if callee_matches(fn, RE_REPLACE):
            tgt = strip_refs(fl.operand_expr(t["args"][0]))
            if field_of(tgt) and field_of(tgt)[1:] in fieldnames:
                out.append((bb, "direct", True))
        elif depth > 0:
            cb = callee_body(ctx.facts, fn)
            if cb is not None and cb.path != b.path:
                sub = invalidating_sites(ctx, cb, fieldnames, depth - 1)
                if sub:
                    # helper must replace on every return path
                    cfl = ctx.flow(cb)
                    allp = all(must_pass_flags(cb, cfl, 0, cb.returns(), [s[0] for s in sub]) for _ in [0])
                    out.append((bb, cb.path, allp))
    return out


def r7_1(ctx, R, mus, placement_only=False):
    ctx.rule("R7.1", "vacate => write (or invalidate): after every Ready(Some((i,_))) of the vacating drain, before the "
                     "next drain or return: MaybeUninit::write(field[i], payload of the same result) or the field is "
                     "replaced (and the collected elements released) on that path")
    vac = {v.path for v in vacating_fns(ctx, R)}
    if placement_only:
        vac |= {d.path for d in R.drain_fns}
    ctx.floor("R7.1", "vacating-drain-fns", len(vac), 1)
    n = 0
    for sp, fields in mus.items():
        for b in poll_fns_of(ctx, sp):
            fl = ctx.flow(b)
            vf = variant_facts(b, fl)
            drains = drain_sites_in(ctx, R, b, vac)
            inval = invalidating_sites(ctx, b, fields)
            for dbb, dt, dkind in drains:
                n += 1
                dest = place_str(dt["dest"])
                region = blocks_with(vf, [(dest, "Ready"), ("(%s as Ready).0" % dest, "Some")])
                ents = first_entries(b, fl, dbb, region)
                good = []
                for wbb, wt, wfn in direct_sites(b, RE_MU_WRITE):
                    tgt = strip_refs(fl.operand_expr(wt["args"][0]))
                    idx = _index_local_expr(fl, tgt)
                    from lib_flow import see_through_fn_items
                    val = see_through_fn_items(fl.operand_expr(wt["args"][1]))
                    i_ok = idx is not None and idx[0] == "proj" and idx[1][0] == "call" and idx[1][3] == dbb and \
                        idx[2] == ("@Ready", ".0", "@Some", ".0", ".0")
                    v_ok = val[0] == "proj" and val[1][0] == "call" and val[1][3] == dbb and \
                        val[2][:5] == ("@Ready", ".0", "@Some", ".0", ".1")
                    f_ok = field_of(tgt) is not None and field_of(tgt)[1:] in fields
                    ctx.ob("R7.1", b, "write-targets-drained-slot@%s" % _site_label(b, wbb), i_ok and v_ok and f_ok, b.loc(wbb),
                           "index=%s value=%s target=%s" % (expr_str(idx) if idx else None, expr_str(val), expr_str(tgt)))
                    if i_ok and v_ok and f_ok:
                        good.append(wbb)
                if placement_only:
                    continue
                good_inval = [x[0] for x in inval if x[2]]
                stops = b.returns() + [dbb]
                if dkind == "direct":
                    # the poll function vacates slots itself: the obligation attaches to every REMOVE(i) of the drained index
                    rems = []
                    for rbb, rt, rfn in R.calls_to_body(b, R.remove_fn):
                        idx = fl.operand_expr(rt["args"][-1])
                        if idx[0] == "proj" and idx[1][0] == "call" and idx[1][3] == dbb and idx[2] == ("@Ready", ".0", "@Some", ".0", ".0"):
                            rems.append(rbb)
                    okd = True
                    for rbb in rems:
                        before = any(b.dominates(g, rbb) and g in region for g in good + good_inval)
                        after = all(must_pass_flags(b, fl, s_, stops, good + good_inval) for s_ in b.normal_succ(rbb))
                        okd = okd and (before or after)
                    ctx.ob("R7.1", b, "vacated-slot-written-or-buffer-invalidated@%s" % _site_label(b, dbb), okd, b.loc(dbb),
                           "direct drain: %d REMOVE(i) sites, each paired with a write of output[i] or an invalidation; slots left occupied keep I7" % len(rems))
                    continue
                ok = bool(ents) and all(must_pass_flags(b, fl, e, stops, good + good_inval) for e in ents)
                ctx.ob("R7.1", b, "vacated-slot-written-or-buffer-invalidated@%s" % _site_label(b, dbb), ok, b.loc(dbb),
                       "entries %s; write sites %s; invalidation sites %s" % (
                           sorted(ents), [b.loc(g) for g in good], [(b.loc(x[0]), x[1], x[2]) for x in inval]))
    ctx.floor("R7.1", "drain-sites-in-join-polls", n, 2)


def _under_none_per_arrival(b, fl, bb, drains):
    """Every feasible arrival at bb knows the (last) drain result to be Ready(None) -- the verdict may have travelled through
    an enum returned by an inlined helper and a join."""
    from lib_flow import arrival_knowledge
    ak = arrival_knowledge(b, fl, bb)
    if not ak:
        return False
    for dbb, dt in drains:
        dest = place_str(dt["dest"])
        if all(k_.get(dest) == "Ready" and k_.get("(%s as Ready).0" % dest) == "None" for k_ in ak):
            return True
    return False


def r7_2(ctx, R, mus):
    ctx.rule("R7.2", "conversion only under I7: every MaybeUninit-erasing pointer cast / transmute / assume_init* in the "
                     "impls of the buffer structs is in a block where the drain result is known Ready(None), and its "
                     "operand is the buffer moved out of the field by mem::replace/take")
    vac = {v.path for v in vacating_fns(ctx, R)}
    n = 0
    for sp, fields in mus.items():
        for b in impl_fns_of(ctx, sp):
            fl = ctx.flow(b)
            vf = variant_facts(b, fl)
            is_drop = "core::ops::Drop" in b.path
            conv = []
            for bb in range(b.n):
                if b.is_cleanup(bb):
                    continue
                for i, s in enumerate(b.stmts(bb)):
                    if s["k"] == "assign" and s["rv"]["k"] == "cast":
                        fr, to = s["rv"]["from"], s["rv"]["to"]
                        if "MaybeUninit" in fr and "MaybeUninit" not in to:
                            conv.append((bb, fl.rvalue_expr(s["rv"], bb), "cast"))
                t = b.term(bb)
                if t["k"] == "call" and t["func"]["k"] == "const" and "fn" in t["func"]:
                    fn = t["func"]["fn"]
                    if re.search(RE_ASSUME, fn["def"]) and not re.search(r"assume_init_drop$", fn["def"]):
                        conv.append((bb, fl.call_expr(t, bb), "assume_init"))
                    if callee_matches(fn, r"core::intrinsics::transmute$|core::mem::transmute$"):
                        conv.append((bb, fl.call_expr(t, bb), "transmute"))
                    if re.search(r"<impl \*(mut|const) T>::cast(_mut|_const)?$", fn["def"]) and t["args"]:
                        a0 = t["args"][0]
                        fr_ = a0["place"]["ty"] if a0["k"] != "const" else a0.get("ty", "")
                        to_ = t["dest"]["ty"] if "ty" in t["dest"] else b.locals[t["dest"]["l"]]
                        if "MaybeUninit" in fr_ and "MaybeUninit" not in to_:
                            conv.append((bb, fl.call_expr(t, bb), "cast"))
            for bb, e, kind in conv:
                n += 1
                drains = [(dbb, dt) for dbb, dt, dk in drain_sites_in(ctx, R, b, vac)]
                under_none = False
                for dbb, dt in drains:
                    dest = place_str(dt["dest"])
                    fs = vf.get(bb, frozenset())
                    if (dest, "Ready") in fs and ("(%s as Ready).0" % dest, "None") in fs:
                        under_none = True
                if not under_none:
                    under_none = _under_none_per_arrival(b, fl, bb, drains)
                taken = False
                for c in expr_calls(e):
                    if re.search(RE_REPLACE, c[1] or ""):
                        tgt = strip_refs(c[2][0])
                        if field_of(tgt) and field_of(tgt)[1:] in fields:
                            taken = True
                ctx.ob("R7.2", b, "%s-under-ready-none-with-taken-buffer@bb-ord%d" % (kind, conv.index((bb, e, kind))),
                       under_none and taken, b.loc(bb), "under Ready(None)=%s, operand moved out by mem::replace=%s: %s" % (
                           under_none, taken, expr_str(e)))
    ctx.floor("R7.2", "conversions", n, 2)
    # a Vec rebuilt from the raw parts of the taken buffer: length and capacity are the length of THAT buffer (a length taken
    # from anywhere else -- the queue's capacity, a constant -- describes elements the buffer may no longer hold)
    for sp, fields in mus.items():
        for b in impl_fns_of(ctx, sp):
            fl = ctx.flow(b)
            for bb, t, fn in direct_sites(b, r"alloc::vec::Vec::<.*>::from_raw_parts$"):
                pe_, le_, ce_ = [fl.operand_expr(a) for a in t["args"][:3]]
                takes = [c for c in expr_calls(pe_) if re.search(RE_REPLACE, c[1] or "") and field_of(strip_refs(c[2][0])) and field_of(strip_refs(c[2][0]))[1:] in fields]

                def is_buf_len(x):
                    x = strip_refs(x)
                    if x[0] == "call" and re.search(r"core::slice::<impl \[T\]>::len$", x[1] or "") and x[2]:
                        rc = strip_refs(x[2][0])
                        f_ = field_of(rc)
                        if f_ and f_[1:] in fields:
                            # read from the field: before the take
                            return bool(takes) and all(b.dominates(x[3], tk[3]) and x[3] != tk[3] for tk in takes)
                        return any(tk in expr_calls(rc) or rc == tk for tk in takes)
                    if x[0] == "ptrmeta" or (x[0] == "unop" and x[1] == "PtrMetadata"):
                        return any(tk in expr_calls(x) for tk in takes)
                    return False
                ok = bool(takes) and is_buf_len(le_) and (ce_ == le_ or is_buf_len(ce_))
                ctx.ob("R7.2", b, "from_raw_parts-lengths-are-the-taken-buffer's@%s" % _site_label(b, bb), ok, b.loc(bb),
                       "len=%s cap=%s" % (expr_str(le_)[:80], expr_str(ce_)[:80]))


def r7_3(ctx, R, mus):
    ctx.rule("R7.3", "sizes agree: in each constructor of a buffer struct the buffer is into_boxed_slice of a Vec that "
                     "was resize_with(capacity() of the queue value stored in the same struct), and that queue comes from "
                     "FromIterator")
    n = 0
    for sp, fields in mus.items():
        for b in ctx.facts.fn_bodies():
            fl = ctx.flow(b)
            for bb, e in returned_exprs(ctx, b):
                if not (e[0] == "agg" and e[1] == "%s::%s" % (sp, sp.split("::")[-1])):
                    continue
                n += 1
                names = e[3]
                ops = dict(zip(names, e[2]))
                adt = ctx.facts.adts[sp]
                qnames = [f["name"] for f in adt["variants"][0]["fields"]
                          if re.match(r"(futures_unordered_bounded::FuturesUnorderedBounded|futures_ordered_bounded::FuturesOrderedBounded)<", f["ty"])]
                qs = [v for k, v in ops.items() if k in qnames]
                bufs = [v for k, v in ops.items() if k in fields]
                ok = False
                det = ""
                if len(qs) == 1 and len(bufs) == 1:
                    q, buf = qs[0], bufs[0]
                    # the buffer inside its wrapper struct (`OutputBuffer { slots }` built by an inlined constructor)
                    while buf[0] == "agg" and len(buf) > 3 and len(buf[2]) == 1 and buf[1].rsplit("::", 1)[0] in ctx.facts.adts:
                        buf = buf[2][0]
                    q_from_iter = q[0] == "call" and "FromIterator" in (q[1] or "")
                    if buf[0] == "call" and (buf[1] or "").endswith("into_boxed_slice"):
                        vec = buf[2][0]
                        for rbb, rt, rfn in direct_sites(b, r"alloc::vec::Vec::<.*>::resize_with$"):
                            recv = strip_refs(fl.operand_expr(rt["args"][0]))
                            ln = fl.operand_expr(rt["args"][1])
                            same_vec = recv == vec
                            len_ok = ln[0] == "call" and (ln[1] or "").endswith("::capacity") and strip_refs(ln[2][0]) == q
                            if same_vec and len_ok and b.dominates(rbb, bb):
                                ok = q_from_iter
                                det = "buffer = resize_with(%s) of the stored queue; queue from FromIterator=%s" % (expr_str(ln), q_from_iter)
                    if not ok:
                        # collect form: (0..capacity(queue)).map(|_| MaybeUninit::uninit()).collect()
                        x = buf
                        while x[0] == "call" and re.search(r"::(into|into_boxed_slice|from)$", x[1] or "") and x[2]:
                            x = x[2][0]
                        if x[0] == "call" and (x[1] or "").endswith("::collect") and x[2]:
                            it = x[2][0]
                            while it[0] == "call" and re.search(r"::(map|into_iter)$", it[1] or "") and it[2]:
                                it = strip_refs(it[2][0])
                            if it[0] == "call" and re.search(r"core::iter::Iterator::take$", it[1] or "") and len(it[2]) == 2:
                                # repeat_with(MaybeUninit::uninit).take(capacity(queue)).collect()
                                gen, ln = strip_refs(it[2][0]), it[2][1]
                                if gen[0] == "call" and re.search(r"core::iter::(repeat_with|repeat|from_fn)$", gen[1] or "") and \
                                        ln[0] == "call" and (ln[1] or "").endswith("::capacity") and strip_refs(ln[2][0]) == q:
                                    ok = q_from_iter
                                    det = "buffer = collect of an endless generator cut at %s of the stored queue; queue from FromIterator=%s" % (expr_str(ln), q_from_iter)
                            if it[0] == "agg" and it[1].endswith("Range::Range") and it[2][0][0] == "const" and it[2][0][2] == "0":
                                ln = it[2][1]
                                if ln[0] == "call" and (ln[1] or "").endswith("::capacity") and strip_refs(ln[2][0]) == q:
                                    ok = q_from_iter
                                    det = "buffer = collect over 0..%s of the stored queue; queue from FromIterator=%s" % (expr_str(ln), q_from_iter)
                ctx.ob("R7.3", b, "buffer-len==queue-capacity", ok, b.loc(bb), det)
    ctx.floor("R7.3", "constructors", n, 2)


def r7_4(ctx, R, mus):
    ctx.rule("R7.4", "closed queue: the fields of the buffer structs are private, and no function in their impls reaches "
                     "the slot-map INSERT or MARK (nothing can be pushed into the private queue after construction)")
    ins, mark = R.insert_fn, R.mark_fn
    for sp, fields in mus.items():
        adt = ctx.facts.adts[sp]
        for f in adt["variants"][0]["fields"]:
            ctx.ob("R7.4", sp, "field-private:" + f["name"], f["vis"] not in ("pub", "crate"), "", "vis=" + f["vis"])
        for b in impl_fns_of(ctx, sp):
            bad = reaches(ctx.facts, b, re.escape(ins.path) + "$", 4) or reaches(ctx.facts, b, mark.path_regex, 4)
            ctx.ob("R7.4", b, "no-insert-into-queue", not bad, d_loc(b))


def r7_5(ctx, R, mus):
    ctx.rule("R7.5", "resolve-after-all: every Ready(value) constructed in poll is either (a) under the Ready(None) facts "
                     "of the drain result and built from the taken buffer, or (b) Err(e) with e the payload of the drained "
                     "Ready(Some((_, Err(e))))")
    vac = {v.path for v in vacating_fns(ctx, R)}
    n = 0
    for sp, fields in mus.items():
        for b in poll_fns_of(ctx, sp):
            fl = ctx.flow(b)
            vf = variant_facts(b, fl)
            drains = [(dbb, dt) for dbb, dt, dk in drain_sites_in(ctx, R, b, vac)]
            for bb, e in returned_exprs(ctx, b):
                if not (e[0] == "agg" and e[1].endswith("Poll::Ready")):
                    continue
                n += 1
                v = e[2][0]
                fs = vf.get(bb, frozenset())
                under_none = any((place_str(dt["dest"]), "Ready") in fs and ("(%s as Ready).0" % place_str(dt["dest"]), "None") in fs
                                 for dbb, dt in drains)
                if not under_none:
                    under_none = _under_none_per_arrival(b, fl, bb, drains)
                from_buf = any(re.search(RE_REPLACE, c[1] or "") for c in expr_calls(v))
                is_err = v[0] == "agg" and v[1].endswith("Result::Err")
                err_ok = False
                if is_err:
                    p = v[2][0]
                    err_ok = p[0] == "proj" and p[1][0] == "call" and (p[1][1] in vac or p[1][3] in [d_[0] for d_ in drains]) and p[2][-2:] == ("@Err", ".0")
                if is_err and not err_ok:
                    # the error may travel through the verdict of an inlined helper (`Collected::Failed(i, e)`) and a callable
                    # that is a std function item (`identity`): what it is along every path returning here
                    from lib_flow import sensitive_paths, path_const_feasible, PathEval, reduce_proj, see_through_fn_items
                    vs = []
                    try:
                        for kind_, pth, know in sensitive_paths(b, fl, 2):
                            if kind_ != "return" or bb not in pth or not path_const_feasible(b, pth):
                                continue
                            r_ = PathEval(b, pth).local_expr(0)
                            if r_[0] == "agg" and r_[1].endswith("Poll::Ready") and r_[2] and r_[2][0][0] == "agg" and r_[2][0][1].endswith("Result::Err"):
                                vs.append(see_through_fn_items(reduce_proj(r_[2][0][2][0])))
                    except RuntimeError:
                        vs = []
                    err_ok = bool(vs) and all(p_[0] == "proj" and p_[1][0] == "call" and (p_[1][1] in vac or p_[1][3] in [d_[0] for d_ in drains])
                                              and p_[2][-2:] == ("@Err", ".0") for p_ in vs)
                ok = (under_none and from_buf) or err_ok
                ctx.ob("R7.5", b, "ready-value#%d" % n, ok, b.loc(bb),
                       "under Ready(None)=%s from taken buffer=%s err-payload=%s : %s" % (under_none, from_buf, err_ok, expr_str(e)))
    ctx.floor("R7.5", "ready-constructions", n, 2)


def _contains(e, x):
    """x occurs as a sub-expression of e (through projections, references, casts -- e.g. the lowered deref of a Box)"""
    if e == x:
        return True
    if not isinstance(e, tuple):
        return False
    k = e[0]
    if k in ("proj", "ref", "discr"):
        return _contains(e[1], x)
    if k == "cast":
        return _contains(e[2], x)
    return False


def r7_6(ctx, R):
    ctx.rule("R7.6", "full at construction: the slot map's FromIterator builds its storage as collect(.. map(Occupied)) -- every "
                     "element an occupied slot, nothing reserved -- and sets the occupied counter to the length of that same "
                     "storage, so capacity() == number of inputs and Ready(None) from the drain means every output slot of "
                     "the equally long buffer was written")
    sm, slots_field = R.slot_enum[1], R.slot_enum[2]
    occ, free = R.slot_variants
    from lib_flow import self_field_stores, is_inc_of
    counter = None
    ins = R.insert_fn
    for (bb, i, fld, val, root, pe) in self_field_stores(ins, ctx.flow(ins)):
        if is_inc_of(val, fld) == 1:
            counter = fld
    n = 0
    for b in ctx.facts.fn_bodies():
        if not re.search(r"^<%s<.*> as core::iter::FromIterator<" % re.escape(sm), b.path) or b.kind == "Closure":
            continue
        for rb, e in returned_exprs(ctx, b):
            if not (e[0] == "agg" and e[1].startswith(sm + "::")):
                continue
            n += 1
            ops = __import__('lib_inter').flat_ops(ctx, e)
            sl = ops.get(slots_field)
            cnt = ops.get(counter[1:]) if counter else None
            # the storage value: strip conversions (into / into_boxed_slice / Pin::from / Box::into_pin)
            x = sl
            while x is not None and x[0] == "call" and re.search(r"::(into|into_boxed_slice|from|into_pin|new_unchecked)$", x[1] or "") and x[2]:
                x = x[2][0]
            full = False
            det = "storage %s" % (expr_str(x) if x else None)
            if x is not None and x[0] == "call" and (x[1] or "").endswith("::collect") and x[2]:
                it = x[2][0]
                if it[0] == "call" and (it[1] or "").endswith("::map") and len(it[2]) == 2:
                    mf = it[2][1]
                    full = mf[0] == "fn" and mf[1].endswith("::" + occ)
            same = False
            if cnt is not None:
                c_ = cnt
                if c_[0] == "call" and (c_[1] or "").endswith("::len") and c_[2]:
                    same = _contains(c_[2][0], x) or _contains(c_[2][0], sl)
            ctx.ob("R7.6", b, "from_iter-builds-a-full-map", full and same, b.loc(rb),
                   "%s; all elements Occupied: %s; counter = len(storage): %s (%s)" % (det, full, same, expr_str(cnt) if cnt else None))
    ctx.floor("R7.6", "slot-map FromIterator", n, 1)


def run(ctx):
    R = roles(ctx)
    R.pop_fn, R.drain_fn, R.insert_fn, R.remove_fn
    mus = mu_structs(ctx)
    ctx.floor("R7.0", "structs-with-MaybeUninit-buffers", len(mus), 2)
    # the assumption this property leans on is re-established on this tree
    c02.r2_1(ctx, R, only_in=c02.COLLECTIONS)
    ctx.rule("R2.1", "see C02 R2.1 (shared): the collections' vacating drain vacates slot i exactly on Ready(Some((i, _)))")
    c02.r2_2(ctx, R)
    ctx.rule("R2.2", "see C02 R2.2 (shared): slots are vacated only by callers of the drain (never by unwind guards or other code), "
                     "so 'vacant' always means 'its future returned Ready in a drain'")
    r7_1(ctx, R, mus)
    r7_2(ctx, R, mus)
    r7_3(ctx, R, mus)
    r7_4(ctx, R, mus)
    r7_5(ctx, R, mus)
    r7_6(ctx, R)
    # shared with C06: a release (`assume_init_drop` / `assume_init_read` ...) of a buffer entry whose slot is not known vacant
    # runs the output type's destructor on a value no input produced -- only the safety direction of R6.6 is C07's concern,
    # the leak direction (whole buffer covered, loop not left early) stays with C06
    import c06
    before = len(ctx.obs)
    c06.r6_6(ctx, R, mus)
    keep = ("release-guarded-by-vacancy-of-same-index", "released-element-comes-from-an-iterator")
    ctx.obs = ctx.obs[:before] + [o for o in ctx.obs[before:] if o.label.startswith(keep) or o.label.startswith("floor:")]
    ctx.rule("R6.6", "see C06 R6.6 (shared, safety direction only): every release of an output-buffer entry is guarded by the vacancy "
                     "of the slot with the same index")
